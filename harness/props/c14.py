"""C14 — phenotyping (G_E_Phenotyping, TruePhenotyping) and breeding-value estimation
(MeanPhenotypicBreedingValue, TrueBreedingValue): correspondence between Model/C14_Pheno.v and the
implementation, plus the independent predicate.

Case kinds
  trial   : population + genomic model + design + scripted standard-normal draws -> phenotype() data frame,
            TruePhenotyping / TrueBreedingValue outputs, set_h2/set_H2, then MeanPhenotypicBreedingValue.estimate
            on the (row-thinned, row-permuted) data frame against a (permuted / extended / duplicated) genotype matrix
  table   : a hand-made phenotype table (duplicates, several groups per taxon, missing groups, unsorted labels)
            -> estimate
  monitor : real numpy generator with a fixed seed, large design -> realised variance components (predicate only)
  session : ONE protocol object (G_E_Phenotyping or TruePhenotyping) driven through a list of operations -- phenotype(pg) calls
            (each followed by MeanPhenotypicBreedingValue.estimate against the population object in force and TrueBreedingValue)
            interleaved with in-place updates of the population object (mat, taxa, taxa_grp), of the protocol's genomic model
            (u_a, beta), a different population object, setter calls (nenv, nrep, var_*, set_h2/set_H2) and copy/deepcopy of
            the protocol; the whole session is replayed by the state machine of Model/C14_Session.v, every call is judged by
            the predicate against the configuration in force at that call
  herit   : heritability over the FAMILY of genomic models: a population with heterozygous loci (ploidy 1..4), a model of every concrete class
            of pybrops.model.gmod (additive, rrBLUPModel0, additive + dominance with non-zero u_d / with u_d = None), ONE G_E_Phenotyping
            object driven through set_h2 / set_H2 (scalar and per-trait targets, < 1, = 1, rarely > 1) with in-place updates of u_a / u_d
            in between; each call judged against (1-h)/h * var_A resp. var_G recomputed from the raw genotypes and effects, and compared in
            Coq with Model/C14_Herit.v (dominance design [A | D]); plus TruePhenotyping (truth incl. the dominance part, both setters refuse),
            TrueBreedingValue (A @ u_a + location) and a zero-noise G_E trial on the same model
"""
import math, copy
from fractions import Fraction
import numpy
import coqemit as E

ID = "C14"
PROPS = "Props/C14.v"
IMPORTS = "From Coq Require Import String.\nFrom PV Require Import Lib.Common Model.C14_Pheno Model.C14_Session Model.C14_Alias Model.C14_Herit."
SHARD = 40
LEVEL_TEXT = ("Coq theorems over an exact-rational executable model of G_E_Phenotyping.phenotype (draw consumption order, env-major "
              "block concatenation, label columns incl. the generated TaxonNN/TraitN names), set_h2/set_H2 and "
              "MeanPhenotypicBreedingValue.estimate (sorted group-by-mean with null group labels kept as keys; with a genotype matrix group-by on the taxon label alone and hash join onto the genotype order, missing rows), "
              "the nenv setter's re-broadcast of a uniform stored nrep array and phenotype()'s refusal of an nrep array shorter than nenv: "
              "one record per (env, rep, taxon) cell with that taxon's labels; zero noise gives the true genotypic value; heritability "
              "calibration var/(var+var_err) = h2; group means are arithmetic means; the estimate is invariant under every permutation "
              "of the phenotype rows; output aligned to the genotype order, every phenotyped taxon carrying the mean of all of its records whatever its group labels, absent taxa missing; "
              "every one of the nenv environments in force at the call is simulated (also after nenv was reassigned); a state machine over (protocol parameters, "
              "genomic model, population) for sessions on one protocol object, with theorems that every call's table is a function of the state in force at that call and its draws only "
              "(no dependence on history) and satisfies the single-call statements for the labels, genotypes, coefficients and design in force. The model is tied to the code "
              "by evaluating it inside Coq against the implementation's outputs on generated trials/tables, whole sessions and heritability cases over every concrete genomic-model class, and by 45 kernel expressions REGENERATED FROM THE SOURCE on every run "
              "(Gen/C14_Kernel.v: the record formula and its association, the block labels env+1/rep+1, the loop headers zip(range(nenv), nrep)/range(env_nrep), the refusal test len(nrep) < nenv with the "
              "call's argument order, which variance parameter scales which effect, the label columns, prefix/index/width of the generated TaxonNN/TraitN names in both protocols, (1-h2)/h2*var of both "
              "heritability setters and which population variance each of them reads (k_h2_broad / k_H2_broad: var_A = self.gpmod.var_A(pgmat), var_G = self.gpmod.var_G(pgmat)), the nenv setter's re-broadcast test and numpy.full arguments, the nrep/variance setters' numpy.full arguments, TruePhenotyping's group-column test and whether it copies the population's explicit taxa labels into the table (numpy.array(gvmat.taxa)), TrueBreedingValue's "
              "argument, the estimate's group-by key test, dropna/as_index/aggregation function, both from_numpy argument lists and the hash join's key/destination/source) that are proved equal to the hand "
              "model and about which the cell, calibration, re-broadcast and alignment theorems are restated (C14_kernel_*); scale covariance of the record formula and of the error variance; a small store model "
              "of which label arrays a returned table shares with the population (a write into the taxa column of the G_E table and, since the repair of C14-truepheno-table-shares-labels, of the TruePhenotyping table with explicit or generated labels never reaches an array that existed before the call: proved at full strength, restated about the regenerated kernel, and probed on dedicated cases; the former sharing code is kept as old_tp_taxa_column with its refutation); "
              "heritability over the family of genomic models (Model/C14_Herit.v): the additive + dominance model's genotypic values run over the design [A | D] with D = (A != 0) & (A != ploidy) and the "
              "coefficients [u_a ; u_d], its breeding values stay A @ u_a; set_h2 reads var_A, set_H2 reads var_G: whichever the class, the error variance written is (1-h)/h times THAT variance trait by trait "
              "and calibrates it to the target (broad-sense calibration with the dominance design: var_G/(var_G+var_err) = H2), for the additive classes both setters coincide, and a set_H2 deriving the "
              "error variance from var_A is refuted by a dominance model on a population with a heterozygous taxon")
LEVEL_NOTE = ("trusted: Coq kernel + vm_compute; pandas groupby/mean, numpy matmul/var and the scale/unscale round trip of the breeding "
              "value matrices are compared within 2^-30 relative tolerance against the exact rational (summation order not modelled); "
              "numpy.random.Generator.multivariate_normal is trusted (scripted as mean + z*sqrt(diag cov) by the harness generator): "
              "'realised variances converge' is only monitored with fixed seeds, not proved; theorems are about the Gallina model, "
              "the tie to the code is differential on generated inputs plus the regenerated kernel expressions (translator harness/translate/c14_kernel.py, fail closed, trusted); "
              "at scales below 1 the in-Coq comparison keeps its absolute tolerance 2^-30 (vacuous at 2^-40): there the independent predicate compares with a tolerance that shrinks with the scale")
TECHNIQUE = "Coq proof over an executable exact-rational model; in-Coq vm_compute correspondence with the implementation; fixed-seed statistical monitor"
RULE = ("case = trial (phased genotypes n in 1..12 incl. 10/11 for label widths, labels absent/unsorted/duplicated, groups absent/present, "
        "additive model with 1-2 fixed effects, nenv 1..3 (in 15% reassigned after construction to 1..nenv+2, for integer and array nrep: re-broadcast, truncation and refusal; 7 such designs always present), nrep scalar or per-environment, each variance None/scalar/array/zero, dyadic "
        "scripted normal draws, optional set_h2/set_H2 incl. h2=1 and an invalid target, then estimate with/without group column, trait "
        "subset/reorder, dropped rows, row permutation, genotype matrix absent/same/permuted+extra+duplicate taxa/without labels) or table "
        "(arbitrary records: taxon in several groups, null groups, 1..4 records per taxon) or monitor (fixed-seed real generator) or session "
        "(one protocol object of either class, 2..4 calls interleaved with 1..3 operations each drawn from: in-place genotype / taxa (also a reordering of the same labels) / group update, "
        "another population object (same or other size), u_a / beta update, copy / deepcopy, nenv / nrep / variance assignments incl. invalid ones, set_h2 / set_H2 incl. invalid targets; "
        "14 fixed scripts always present) or herit (heritability over the model family: ploidy 1..4 with a forced heterozygous taxon and a homozygous one at the same locus, "
        "2..8 taxa, 1..4 loci, 1..3 traits, model class additive / rrBLUPModel0 / additive+dominance with non-zero u_d at that locus / additive+dominance with u_d = None, obtained by constructor / deepcopy / "
        "coefficient setters; ONE G_E_Phenotyping object, 2..5 steps of set_h2 / set_H2 (both always present) with scalar or per-trait (distinct) targets from {1, 7/8, 3/4, 5/8, 1/2, 1/4, 1/8}, 6% invalid (> 1), "
        "interleaved with in-place u_a / u_d updates; 8 fixed scripts = every class x ploidy 2, 4; the scale corners 2^-40..2^20; the predicate recomputes var_A / var_G (population variance of A@u_a resp. "
        "A@u_a + D@u_d) exactly from the raw genotypes and effects and demands var_err = (1-h)/h * var within 2^-28 relative, exact 0 for a target of 1; non-trivial = dominance model whose var_G differs from var_A in every trait); "
        "every trial/session additionally draws: a scale 2^k (k in -40,-20,-8,0,10,20) for effects, fixed effects and standard deviations (zeros stay exact zeros), the route by which the population "
        "(constructor / copy / deepcopy / select_taxa out of a larger population / mat-taxa-taxa_grp setters), the genomic model (constructor / deepcopy / coefficient setters), the protocol (constructor / "
        "its copy() / deepcopy() methods / defaults + setters) and the estimator (constructor / setters, one object shared by both calls) are obtained, and whether miscout is passed; fixed corners: 130 taxa, 300 markers, "
        "variance vectors mixing zeros and non-zeros at every scale, 8 aliasing probes; sessions reuse ONE estimator object reconfigured through its setters, replace the model object through the gpmod setter, copy through copy()/deepcopy(); "
        "after every call the inputs are compared with their snapshot and the returned table / matrix is overwritten in place to see that no input follows; "
        "all from one PRNG; non-trivial = >= 2 taxa, >= 2 records for some taxon and a non-identity row permutation (session: >= 2 calls with a change of the configuration between them); distinct by SHA-256 of the case")
TRUSTED = ["harness/translate/c14_kernel.py (ast -> Gallina for the 45 kernel expressions; fail closed on any other statement shape) and the entry-point audit tables COVERED / SKIPPED / PARAMS of this module",
           "pandas DataFrame.groupby(sort=True, dropna=False).agg(mean) (modelled as sorted distinct keys + arithmetic mean, compared in tolerance regime T)",
           "numpy.random.Generator.multivariate_normal for diagonal covariance (scripted as mean + z*sqrt(var)); distributional convergence only monitored",
           "DenseBreedingValueMatrix.from_numpy/unscale round trip (property C15) within 2^-30 relative",
           "DenseAdditiveLinearGenomicModel.gegv/gebv/var_A/var_G are modelled as Z@u_a + (beta[0] + mean-weighted other fixed effects) and population variance",
           "DenseAdditiveDominanceLinearGenomicModel.gegv/var_G are modelled as [A | D] @ [u_a ; u_d] (D = (A != 0) & (A != ploidy)), its gebv/var_A as A @ u_a; rrBLUPModel0 as its additive parent; "
           "the table GMOD_CLASSES of concrete classes of pybrops.model.gmod is audited by introspection on every run (a new concrete class fails the check until the heritability cases build it); "
           "the gmod sources are not translated: their tie is differential (herit cases) only"]
ASSUMPTIONS = ["trait values finite; taxa labels printable ASCII strings; variances are squares of dyadic standard deviations in scripted cases",
               "without a genotype matrix a null group label is exported by to_numpy(dtype=int) as INT64_MIN (numpy NaN->int64 cast on x86-64, RuntimeWarning only): modelled as such",
               "sessions: the trait count and the marker count stay fixed; after set_h2/set_H2 the error standard deviation handed to the model is the float square root of the "
               "exact error variance (checked in Coq to square to it within 2^-30), because the scripted generator scales draws by sqrt(var)",
               "a stored nrep array whose entries are all equal is indistinguishable from a broadcast integer: after nenv is reassigned it is re-broadcast; "
               "a non-uniform array longer than the new nenv is used by its first nenv entries (zip), a shorter one is refused"]

LABELS = ["b", "a", "c", "Z", "aa", "a1", "B", "ab", "T10", "T9", "x_y", "k"]
TRAITS = ["y", "x", "w2", "Yld", "w10"]
SDS = [0.0, 0.5, 1.0, 2.0, 0.25, 1.5]

# ------------------------------------------------------------------ generation
def _grid(rng, lim=4, den=4):
    return rng.randint(-lim * den, lim * den) / den

def _sd(rng, t, zero=False):
    """returns None | scalar | list  (standard deviations; the variance passed is sd*sd)"""
    k = rng.random()
    if k < 0.15: return None
    if zero: return 0.0 if k < 0.6 else [0.0] * t
    if k < 0.5: return rng.choice(SDS)
    return [rng.choice(SDS) for _ in range(t)]

def _design(case):
    """the design the property speaks about: (nenv in force at the call, replicate count of each of these environments).
    An integer nrep counts for every environment; so does an array whose entries are all equal (the library stores an
    integer nrep as such an array); otherwise environment e has the e-th entry, and when an environment has no entry
    the counts are None: no trial satisfies the property, the call has to refuse."""
    nenv = case["nenv_set"] if case.get("nenv_set") is not None else case["nenv"]
    nrep = case["nrep"]
    if isinstance(nrep, int): return nenv, [nrep] * nenv
    nrep = list(nrep)
    if len(nrep) >= nenv: return nenv, nrep[:nenv]
    if all(x == nrep[0] for x in nrep): return nenv, [nrep[0]] * nenv
    return nenv, None

def _est(rng, nrows, t, taxa, taxa_grp, force_gt=None):
    """estimate configuration"""
    est = {}
    est["grp"] = (rng.random() < 0.5) if taxa_grp is not None else (rng.random() < 0.12)
    k = rng.randint(1, t)
    est["traits"] = rng.sample(range(t), k)
    if rng.random() < 0.2: est["traits"] = est["traits"][0]          # a single column given as a str
    idx = list(range(nrows))
    drop = []
    r = rng.random()
    if r < 0.35 and nrows > 1:
        drop = sorted(rng.sample(idx, rng.randint(1, max(1, nrows // 3))))
    elif r < 0.5 and taxa is not None and nrows > 0:
        victim = rng.choice(taxa)                                     # a taxon that becomes unphenotyped
        est["drop_taxon"] = victim
    est["drop"] = drop
    est["perm_seed"] = rng.randint(0, 10 ** 6)
    r = rng.random() if force_gt is None else force_gt
    if r < 0.2: est["gt"] = None
    elif r < 0.4 and taxa is not None: est["gt"] = {"taxa": list(taxa), "taxa_grp": None if taxa_grp is None else list(taxa_grp)}
    elif r < 0.93:
        base = list(taxa) if taxa is not None else []
        pool = base + rng.sample(LABELS, 2) + (["Taxon1", "Taxon01"] if taxa is None else [])
        rng.shuffle(pool)
        gtx = pool[:rng.randint(1, len(pool))]
        if rng.random() < 0.25: gtx.append(rng.choice(gtx))           # duplicate label in the genotype matrix
        est["gt"] = {"taxa": gtx, "taxa_grp": None if rng.random() < 0.4 else [rng.randint(1, 3) for _ in gtx]}
    else: est["gt"] = {"taxa": None, "taxa_grp": None, "n": rng.randint(1, 3)}   # genotype matrix without labels -> error
    if rng.random() < 0.04: est["missing_col"] = True
    return est

# scales of effects / variances.  Upper end 2^10, not 2^20: records are compared with the model in the tolerance regime
# (|x-y| <= 2^-30 (1+|y|), Lib/Common.Qclose) and a record that cancels to ~0 carries the rounding error of its operands:
# at 2^20 that is about 2^23 * 2^-53 * a few = 2^-29 > 2^-30 (false alarm met with VERIF_SEED=3, DESIGN 14.5); at 2^10 it is 2^-38.
SCALES = [0, 0, 0, 0, 0, 0, -40, -20, -8, 10, 10]
POP_ROUTES = ["ctor", "ctor", "deepcopy", "copy", "select", "setters"]
MODEL_ROUTES = ["ctor", "ctor", "deepcopy", "setters"]
PROTO_ROUTES = ["ctor", "ctor", "copy_m", "deepcopy_m", "setters"]

def _scaled(x, f):
    if x is None: return None
    if isinstance(x, list): return [_scaled(v, f) for v in x]
    return x * f

def _trial(rng, n=None, zero=None, small=False, auto=False, design=None, p=None, scale_exp=None):
    m = rng.choice([1, 2, 2, 2, 4])
    if n is None: n = rng.choice([1, 1, 2, 2, 3, 3, 4, 5, 6]) if not small else rng.randint(1, 3)
    if p is None: p = rng.randint(1, 4)
    t = rng.randint(1, 3)
    geno = [[[rng.randint(0, 1) for _ in range(p)] for _ in range(n)] for _ in range(m)]
    r = rng.random()
    if r < 0.2 or n > len(LABELS) or auto: taxa = None
    elif r < 0.8: taxa = rng.sample(LABELS, n)
    else:
        taxa = rng.sample(LABELS, n)
        if n > 1: taxa[rng.randrange(n)] = taxa[rng.randrange(n)]
    taxa_grp = None if rng.random() < 0.35 else [rng.randint(1, 3) for _ in range(n)]
    nfixed = 1 if rng.random() < 0.75 else 2
    beta = [[_grid(rng) for _ in range(t)] for _ in range(nfixed)]
    u = [[_grid(rng) for _ in range(t)] for _ in range(p)]
    trait = None if rng.random() < 0.25 else rng.sample(TRAITS, t)
    nenv = rng.choice([1, 1, 2, 2, 3])
    nrep = rng.randint(1, 3) if rng.random() < 0.5 else [rng.randint(1, 3) for _ in range(nenv)]
    if design is not None: nenv, nrep = design[0], design[1]
    if zero is None: zero = rng.random() < 0.15
    # scale: effects, fixed effects and standard deviations far from 1 (2^-40 .. 2^20, still dyadic: the exact regime applies);
    # zero entries stay exact zeros next to the tiny non-zero ones
    k = rng.choice(SCALES) if scale_exp is None else scale_exp
    f = 2.0 ** k
    beta, u = _scaled(beta, f), _scaled(u, f)
    case = {"kind": "trial", "geno": geno, "taxa": taxa, "taxa_grp": taxa_grp, "beta": beta, "u": u, "trait": trait,
            "nenv": nenv, "nrep": nrep, "sd_env": _scaled(_sd(rng, t, zero), f), "sd_rep": _scaled(_sd(rng, t, zero), f),
            "sd_err": _scaled(_sd(rng, t, zero), f), "scale_exp": k,
            # object lifecycle: how the population, the model and the protocol object are obtained; optional arguments
            "routes": {"pop": rng.choice(POP_ROUTES), "model": rng.choice(MODEL_ROUTES), "proto": rng.choice(PROTO_ROUTES),
                       "bv": rng.choice(["ctor", "setters"]), "bv_shared": rng.random() < 0.5},
            "miscout": rng.random() < 0.4}
    if design is not None: case["nenv_set"] = design[2]
    elif rng.random() < 0.15:                                 # nenv reassigned after construction
        case["nenv_set"] = rng.randint(1, nenv + 2)
    _, reps = _design(case)
    if reps is None:                                          # the call must refuse; draws as zip() truncation would consume them
        reps = list(nrep)
    draws = []
    for e in range(len(reps)):
        draws.append([_grid(rng, 3, 4) for _ in range(t)])
        for _ in range(reps[e]):
            draws.append([_grid(rng, 3, 4) for _ in range(t)])
            draws.append([_grid(rng, 3, 4) for _ in range(n * t)])
    case["draws"] = draws
    r = rng.random()
    if r < 0.45: case["h2"] = None
    else:
        vals = [1.0, 0.5, 0.25, 0.75, 0.125, 0.625]
        if r > 0.95: vals = [1.5, 2.0]
        v = rng.choice(vals) if rng.random() < 0.5 else [rng.choice(vals) for _ in range(t)]
        case["h2"] = {"which": rng.choice(["h2", "H2"]), "val": v}
    case["est"] = _est(rng, n * sum(reps), t, taxa, taxa_grp)
    return case

def _table(rng, weird=True):
    t = rng.randint(1, 3)
    ntax = rng.randint(1, 5)
    taxa = rng.sample(LABELS, ntax)
    rows = []
    multi = weird and rng.random() < 0.3          # same taxon recorded in several groups
    nullg = weird and rng.random() < 0.25         # some null groups
    allnull = weird and rng.random() < 0.08
    for x in taxa:
        g0 = rng.randint(1, 3)
        for _ in range(rng.randint(1, 4)):
            g = g0 if not (multi and rng.random() < 0.5) else rng.randint(1, 3)
            if allnull or (nullg and rng.random() < 0.3): g = None
            rows.append([x, g, [_grid(rng, 8, 8) for _ in range(t)]])
    rng.shuffle(rows)
    trait = rng.sample(TRAITS, t)
    case = {"kind": "table", "rows": rows, "trait": trait}
    grp_of = {}
    for x, g, _ in rows:
        if g is not None: grp_of.setdefault(x, g)
    case["est"] = _est(rng, len(rows), t, taxa, [grp_of.get(x, 1) for x in taxa])
    case["est"].pop("drop_taxon", None)
    if weird and rng.random() < 0.5: case["est"]["grp"] = True
    return case

MONITOR_DESIGN = {"env": (3000, 1, 3), "rep": (30, 100, 3), "err": (5, 5, 200), "all": (400, 8, 10)}    # nenv, nrep, ntaxa
def _monitor(rng, which):
    t = 2
    nenv, nrep, n = MONITOR_DESIGN[which]; p = 6
    geno = [[[rng.randint(0, 1) for _ in range(p)] for _ in range(n)] for _ in range(2)]
    u = [[_grid(rng) for _ in range(t)] for _ in range(p)]
    var = {"env": [0.0, 0.0], "rep": [0.0, 0.0], "err": [0.0, 0.0]}
    if which == "all": var = {"env": [4.0, 0.25], "rep": [1.0, 2.25], "err": [0.5, 9.0]}
    else: var[which] = [2.25, 0.5]
    return {"kind": "monitor", "geno": geno, "u": u, "beta": [[1.0, -2.0]], "nenv": nenv, "nrep": nrep, "var": var,
            "seed": rng.randint(0, 2 ** 31), "which": which}

def gen_cases(rng, tier):
    cases = []
    quick = tier == "quick"
    # corners: single taxon / single env / label widths at 1, 9, 10, 11 taxa, everything zero
    for n in (1, 2, 9, 10, 11):
        cases.append(_trial(rng, n=n, zero=(n % 2 == 0), auto=True))
    # nenv reassigned after construction: integer / uniform array re-broadcast (raised, lowered), non-uniform array truncated, refused
    for design in ((1, 2, 3), (3, 1, 1), (2, [2, 2], 4), (3, [1, 2, 3], 2), (2, [1, 2], 3), (2, [2, 1], 4), (1, [3], 2)):
        cases.append(_trial(rng, small=True, design=design))
    # more taxa / markers than a narrow integer type can count (labels of width 4; int8 genotypes summed over 300 markers),
    # every scale with a variance vector mixing exact zeros and non-zeros
    for n_, p_ in ((130, 2), (3, 300)) if quick else ((130, 2), (260, 3), (3, 300), (2, 600)):
        c = _trial(rng, n=n_, p=p_, auto=(n_ > 12), design=(1, 1, None)); c.pop("nenv_set", None)
        if n_ > 12:
            c["h2"] = None; c["est"] = _est(rng, n_, len(c["u"][0]), None, c["taxa_grp"], force_gt=0.0); c["est"]["drop"] = []
        cases.append(c)
    for k_ in (-40, -20, -8, 10):
        c = _trial(rng, small=True, scale_exp=k_)
        t_ = len(c["u"][0]); f_ = 2.0 ** k_
        c["sd_env"] = [0.0] + [1.5 * f_] * (t_ - 1) if t_ > 1 else 0.5 * f_
        c["sd_rep"] = [2.0 * f_] + [0.0] * (t_ - 1)
        cases.append(c)
    # aliasing probes for the table of TruePhenotyping (explicit / generated labels, with / without groups)
    for i_ in range(8 if quick else 40):
        c = _trial(rng, small=True, auto=(i_ % 4 == 0)); c["alias_probe"] = True
        if i_ % 4 == 1: c["taxa_grp"] = None
        if i_ % 4 == 0 and i_ % 8 == 0: c["taxa_grp"] = None
        c["est"] = _est(rng, len(c["geno"][0]) * sum(_design(c)[1] or list(c["nrep"])), len(c["u"][0]), c["taxa"], c["taxa_grp"])
        cases.append(c)
    if not quick:
        c = _trial(rng, n=100, zero=True, auto=True); c["nenv"] = 1; c["nrep"] = 1
        t = len(c["u"][0]); c["draws"] = [[0.0] * t, [0.0] * t, [0.0] * (100 * t)]
        c.pop("nenv_set", None)
        c["est"] = _est(rng, 100, t, None, c["taxa_grp"], force_gt=0.0); c["est"]["drop"] = []; cases.append(c)
    for _ in range(170 if quick else 6000):
        cases.append(_trial(rng))
    for _ in range(130 if quick else 5000):
        cases.append(_table(rng))
    for which in (("env", "rep", "err", "all") if quick else ("env", "rep", "err", "all") * 3):
        cases.append(_monitor(rng, which))
    cases += _gen_sessions(rng, quick)
    cases += _gen_herit(rng, quick)
    return cases

# ------------------------------------------------------------------ implementation driver
def _hx(x):
    x = float(x)
    return None if math.isnan(x) else x.hex()

def _var_arg(sd, t, arr_dtype=float):
    if sd is None: return None
    if isinstance(sd, list): return numpy.array([s * s for s in sd], dtype=arr_dtype)
    return sd * sd

def _null(v):
    if v is None: return True
    try: return bool(v != v)
    except Exception: return False

def _canon_df(df):
    cols = [str(c) for c in df.columns]
    out = {"cols": cols, "nrow": int(df.shape[0])}
    lab = [c for c in ("taxa", "taxa_grp", "env", "rep") if c in cols]
    for c in lab:
        v = df[c].tolist()
        if c == "taxa": out[c] = [None if _null(x) else str(x) for x in v]
        else: out[c] = [None if _null(x) else int(x) for x in v]
    tc = [c for c in cols if c not in lab]
    out["tcols"] = tc
    out["vals"] = [[_hx(x) for x in row] for row in df[tc].to_numpy(dtype=float).tolist()] if tc else [[] for _ in range(df.shape[0])]
    out["dtypes"] = {c: str(df[c].dtype) for c in cols}
    return out

def _canon_bv(o):
    return {"taxa": None if o.taxa is None else [str(x) for x in o.taxa],
            "taxa_grp": None if o.taxa_grp is None else [int(x) for x in o.taxa_grp],
            "trait": None if o.trait is None else [str(x) for x in o.trait],
            "mat": [[_hx(x) for x in row] for row in numpy.asarray(o.unscale(), dtype=float).tolist()],
            "shape": list(o.mat.shape), "cls": type(o).__name__}

def _try(f):
    import warnings
    try:
        with warnings.catch_warnings():
            warnings.simplefilter("ignore")
            return f()
    except Exception as e:
        return {"exc": type(e).__name__, "msg": str(e)[:200]}

def est_tables(case, nrows_or_rows):
    """row index lists (into the base table) for the two estimate calls: (kept rows, permuted kept rows)"""
    import random as _r
    est = case["est"]
    if isinstance(nrows_or_rows, int): idx = list(range(nrows_or_rows))
    else: idx = list(range(len(nrows_or_rows)))
    keep = [i for i in idx if i not in set(est.get("drop", []))]
    return keep

def _perm(case, k):
    import random as _r
    p = list(range(k)); _r.Random(case["est"]["perm_seed"]).shuffle(p)
    return p

def _mk_pop(geno, taxa, grp, route="ctor"):
    """the population object, obtained through the library's own routes: constructor, copy / deepcopy, a selection out of a larger
    population (decoy taxa interleaved), or a differently filled object whose mat / taxa / taxa_grp are then assigned"""
    from pybrops.popgen.gmat.DensePhasedGenotypeMatrix import DensePhasedGenotypeMatrix
    g = numpy.array(geno, dtype="int8")
    tx = None if taxa is None else numpy.array(taxa, dtype=object)
    tg = None if grp is None else numpy.array(grp, dtype=int)
    if route == "select":
        m, n, p_ = g.shape
        big = numpy.empty((m, 2 * n, p_), dtype="int8"); big[:, 0::2, :] = g; big[:, 1::2, :] = 1 - g
        btx = None if tx is None else numpy.array([v for x in taxa for v in (x, "decoy_" + str(x))], dtype=object)
        btg = None if tg is None else numpy.array([v for x in grp for v in (x, 9)], dtype=int)
        return DensePhasedGenotypeMatrix(big, taxa=btx, taxa_grp=btg).select_taxa(list(range(0, 2 * n, 2)))
    if route == "setters":
        pg = DensePhasedGenotypeMatrix(numpy.zeros_like(g), taxa=None if tx is None else numpy.array(["old_" + str(x) for x in taxa], dtype=object),
                                       taxa_grp=None if tg is None else numpy.zeros(len(grp), dtype=int))
        pg.mat = g; pg.taxa = tx; pg.taxa_grp = tg
        return pg
    pg = DensePhasedGenotypeMatrix(g, taxa=tx, taxa_grp=tg)
    if route == "deepcopy": return copy.deepcopy(pg)
    if route == "copy": return copy.copy(pg)
    return pg

def _mk_model(beta, u, trait, route="ctor"):
    from pybrops.model.gmod.DenseAdditiveLinearGenomicModel import DenseAdditiveLinearGenomicModel
    b = numpy.array(beta, dtype=float); ua = numpy.array(u, dtype=float)
    tr = None if trait is None else numpy.array(trait, dtype=object)
    if route == "setters":
        gm = DenseAdditiveLinearGenomicModel(beta=numpy.zeros_like(b), u_misc=None, u_a=numpy.ones_like(ua), trait=tr)
        gm.beta = b; gm.u_a = ua
        return gm
    gm = DenseAdditiveLinearGenomicModel(beta=b, u_misc=None, u_a=ua, trait=tr)
    return copy.deepcopy(gm) if route == "deepcopy" else gm

def _mk_proto(gm, nenv, nrep, var_env, var_rep, var_err, rng, route="ctor"):
    """G_E_Phenotyping through its constructor, its own copy() / deepcopy() methods, or built with defaults and then configured
    through the setters (nenv first: the nrep setter checks against it)"""
    from pybrops.breed.prot.pt.G_E_Phenotyping import G_E_Phenotyping
    if route == "setters":
        pt = G_E_Phenotyping(gm, rng=rng)
        pt.nenv = nenv; pt.nrep = nrep; pt.var_env = var_env; pt.var_rep = var_rep; pt.var_err = var_err
        return pt
    pt = G_E_Phenotyping(gm, nenv=nenv, nrep=nrep, var_env=var_env, var_rep=var_rep, var_err=var_err, rng=rng)
    if route == "copy_m": return pt.copy()
    if route == "deepcopy_m": return pt.deepcopy()
    return pt

def _labels_snapshot(o):
    return (None if o.taxa is None else [str(x) for x in o.taxa], None if o.taxa_grp is None else [int(x) for x in o.taxa_grp])

def _run_estimate(case, df, tnames):
    """df: full base table (pandas). returns dict with the two outputs"""
    import pandas
    from pybrops.breed.prot.bv.MeanPhenotypicBreedingValue import MeanPhenotypicBreedingValue
    from pybrops.popgen.gmat.DenseGenotypeMatrix import DenseGenotypeMatrix
    est = case["est"]
    keep = est_tables(case, int(df.shape[0]))
    if est.get("drop_taxon") is not None:
        tx = df["taxa"].tolist()
        keep = [i for i in keep if tx[i] != est["drop_taxon"]]
    sub = df.iloc[keep].reset_index(drop=True)
    perm = _perm(case, len(keep))
    sub2 = sub.iloc[perm].reset_index(drop=True)
    tr = est["traits"]
    tcols = tnames[tr] if isinstance(tr, int) else [tnames[j] for j in tr]
    if est.get("missing_col"): tcols = (tcols if isinstance(tcols, list) else [tcols]) + ["no_such_column"]
    gcol = "taxa_grp" if est["grp"] else None
    gt = None
    if est["gt"] is not None:
        g = est["gt"]
        ng = len(g["taxa"]) if g["taxa"] is not None else g["n"]
        gt = DenseGenotypeMatrix(numpy.zeros((ng, 2), dtype="int8"),
                                 taxa=None if g["taxa"] is None else numpy.array(g["taxa"], dtype=object),
                                 taxa_grp=None if g["taxa_grp"] is None else numpy.array(g["taxa_grp"], dtype=int))
    out = {"keep": keep, "perm": perm}
    routes = case.get("routes", {})
    def mkbv():
        if routes.get("bv") == "setters":              # configured through the setters of an object built for other columns
            bv = MeanPhenotypicBreedingValue("env", "rep", ["taxa"])
            bv.taxa_col = "taxa"; bv.taxa_grp_col = gcol; bv.trait_cols = tcols
            return bv
        return MeanPhenotypicBreedingValue("taxa", gcol, tcols)
    shared = [mkbv()] if routes.get("bv_shared") and not est.get("missing_col") else None    # ONE estimator object for both calls
    def one(tab):
        before = tab.copy(deep=True)
        gt_before = None if gt is None else (_labels_snapshot(gt) if gt.taxa is not None else None, numpy.array(gt.mat, copy=True))
        bv = shared[0] if shared else mkbv()
        o = bv.estimate(tab, gt, miscout={}) if case.get("miscout") else bv.estimate(tab, gt)
        r = _canon_bv(o)
        r["input_unchanged"] = bool(before.equals(tab))
        r["gt_unchanged"] = bool(gt is None or ((gt.taxa is None or _labels_snapshot(gt) == gt_before[0]) and numpy.array_equal(gt.mat, gt_before[1])))
        # aliasing: the matrix of estimates is the caller's to overwrite; neither the table nor the genotype matrix' data may follow
        o.mat[...] = 777.0
        r["isolated"] = bool(before.equals(tab) and (gt is None or numpy.array_equal(gt.mat, gt_before[1])))
        r["labels_shared_with_gt"] = bool(gt is not None and o.taxa is not None and gt.taxa is not None and numpy.shares_memory(o.taxa, gt.taxa))
        return r
    out["bv"] = _try(lambda: one(sub))
    out["bv_perm"] = _try(lambda: one(sub2))
    out["has_grp_col"] = "taxa_grp" in df.columns
    return out

def run_impl(case):
    import pandas
    from rngscript import Scripted
    from pybrops.model.gmod.DenseAdditiveLinearGenomicModel import DenseAdditiveLinearGenomicModel
    from pybrops.popgen.gmat.DensePhasedGenotypeMatrix import DensePhasedGenotypeMatrix
    from pybrops.breed.prot.pt.G_E_Phenotyping import G_E_Phenotyping
    from pybrops.breed.prot.pt.TruePhenotyping import TruePhenotyping
    from pybrops.breed.prot.bv.TrueBreedingValue import TrueBreedingValue
    if case["kind"] == "session": return _run_session(case)
    if case["kind"] == "herit": return _run_herit(case)
    if case["kind"] == "table":
        tn = case["trait"]
        d = {"taxa": [r[0] for r in case["rows"]], "taxa_grp": [r[1] for r in case["rows"]]}
        for j, nm in enumerate(tn): d[nm] = [float(r[2][j]) for r in case["rows"]]
        df = pandas.DataFrame(d)
        return {"est": _run_estimate(case, df, tn)}
    geno = numpy.array(case["geno"], dtype="int8")
    routes = case.get("routes", {})
    pg = _mk_pop(case["geno"], case.get("taxa"), case.get("taxa_grp"), routes.get("pop", "ctor"))
    t = len(case["u"][0])
    gm = _mk_model(case["beta"], case["u"], case.get("trait"), routes.get("model", "ctor"))
    nrep = case["nrep"] if isinstance(case["nrep"], int) else numpy.array(case["nrep"], dtype=int)
    if case["kind"] == "monitor":
        rng = numpy.random.Generator(numpy.random.PCG64(case["seed"]))
        v = case["var"]
        pt = G_E_Phenotyping(gm, nenv=case["nenv"], nrep=nrep, var_env=numpy.array(v["env"]), var_rep=numpy.array(v["rep"]),
                             var_err=numpy.array(v["err"]), rng=rng)
        df = pt.phenotype(pg)
        c = _canon_df(df)
        return {"df": {k: c[k] for k in ("cols", "nrow", "env", "rep", "tcols")}, "vals": df[c["tcols"]].to_numpy(dtype=float).tolist()}
    rng = Scripted(normals=copy.deepcopy(case["draws"]))
    pt = _mk_proto(gm, case["nenv"], nrep, _var_arg(case["sd_env"], t), _var_arg(case["sd_rep"], t), _var_arg(case["sd_err"], t), rng,
                   routes.get("proto", "ctor"))
    if case.get("nenv_set") is not None: pt.nenv = case["nenv_set"]
    out = {}
    out["var_set"] = [[float(x).hex() for x in a] for a in (pt.var_env, pt.var_rep, pt.var_err)]
    out["nrep_attr"] = [int(x) for x in pt.nrep]
    geno_before = geno.copy()
    misc = {} if case.get("miscout") else None
    labels_before = _labels_snapshot(pg)
    model_before = (numpy.array(gm.u_a, copy=True), numpy.array(gm.beta, copy=True))
    df = _try(lambda: pt.phenotype(pg, miscout=misc) if misc is not None else pt.phenotype(pg))
    if isinstance(df, dict):                                  # phenotype() raised: an observable
        out["df"] = df
        return out
    out["df"] = _canon_df(df)
    out["left"] = len(rng.q["normal"])
    out["requests"] = [list(x[1]) for x in rng.log]
    out["geno_unchanged"] = bool(numpy.array_equal(pg.mat, geno_before))
    def inputs_intact():
        return bool(numpy.array_equal(pg.mat, geno_before) and _labels_snapshot(pg) == labels_before
                    and numpy.array_equal(gm.u_a, model_before[0]) and numpy.array_equal(gm.beta, model_before[1]))
    out["inputs_unchanged"] = inputs_intact()
    def scribble(frame):
        """overwrite every cell of a returned table in place (labels and values)"""
        for j, c in enumerate(frame.columns):
            for i in range(min(2, frame.shape[0])):
                v = frame.iloc[i, j]
                frame.iloc[i, j] = ("__mut__" if isinstance(v, str) else (None if v is None else type(v)(99)))
    def true_part():
        tp = TruePhenotyping(gm)
        tdf = tp.phenotype(pg, miscout={}) if misc is not None else tp.phenotype(pg)
        r = _canon_df(tdf)
        r["var_err"] = [float(x) for x in tp.var_err]
        raised = lambda x: isinstance(x, dict) and "exc" in x
        r["set_H2_refused"] = raised(_try(lambda: tp.set_H2(0.5, pg)))
        def ro(): tp.var_err = numpy.zeros(t)
        r["var_err_readonly"] = raised(_try(ro))
        r["inputs_unchanged"] = inputs_intact()
        if not case.get("alias_probe"): return r
        scribble(tdf)                                          # aliasing: a write into the returned table must not reach the population
        r["isolated"] = inputs_intact()
        if not r["isolated"]:                                   # put the labels back: the population is used again below
            pg.taxa = None if labels_before[0] is None else numpy.array(labels_before[0], dtype=object)
            pg.taxa_grp = None if labels_before[1] is None else numpy.array(labels_before[1], dtype=int)
        return r
    out["true_df"] = _try(true_part)
    def truebv():
        o = TrueBreedingValue(gm).estimate(None, pg, miscout={}) if misc is not None else TrueBreedingValue(gm).estimate(None, pg)
        r = _canon_bv(o)
        r["inputs_unchanged"] = inputs_intact()
        o.mat[...] = 777.0
        r["isolated"] = inputs_intact()
        return r
    out["true_bv"] = _try(truebv)
    if case.get("h2") is not None:
        h = case["h2"]; val = h["val"] if not isinstance(h["val"], list) else numpy.array(h["val"], dtype=float)
        def seth():
            before = [pt.var_env.copy(), pt.var_rep.copy()]
            (pt.set_h2 if h["which"] == "h2" else pt.set_H2)(val, pg)
            return {"var_err": [float(x).hex() for x in pt.var_err],
                    "others_unchanged": bool(numpy.array_equal(before[0], pt.var_env) and numpy.array_equal(before[1], pt.var_rep))}
        out["h2"] = _try(seth)
        out["true_seth"] = _try(lambda: TruePhenotyping(gm).set_h2(0.5, pg))
    out["est"] = _run_estimate(case, df, out["df"]["tcols"])
    scribble(df)                                               # aliasing: a write into the returned table must not reach the inputs
    out["isolated"] = inputs_intact()
    return out

# ------------------------------------------------------------------ shared exact helpers (predicate side)
def _F(x): return Fraction(x)
def _fh(h): return Fraction(float.fromhex(h))

def _truth(case):
    """exact true genotypic values (n x t) from the genotypes and the additive model"""
    geno = case["geno"]; m, n, p = len(geno), len(geno[0]), len(geno[0][0])
    t = len(case["u"][0]); beta = case["beta"]; nf = len(beta)
    loc = [_F(beta[0][j]) + sum(_F(beta[k][j]) for k in range(1, nf)) / nf for j in range(t)]
    gv = []
    for i in range(n):
        dos = [sum(geno[ph][i][l] for ph in range(m)) for l in range(p)]
        gv.append([sum(dos[l] * _F(case["u"][l][j]) for l in range(p)) + loc[j] for j in range(t)])
    return gv

def _sdv(sd, t):
    if sd is None: return [Fraction(0)] * t
    if isinstance(sd, list): return [_F(s) for s in sd]
    return [_F(sd)] * t

_UNIT = Fraction(1)          # set per case by pred(): 2^k for a case whose effects/variances are scaled by 2^k, k < 0 (else 1)
def _close(a, b, tol=Fraction(1, 2 ** 28)):
    """|a-b| <= 2^-28 (unit + |b|): for cases at scale 1 or larger this is the usual tolerance; for cases scaled down by 2^k the
    absolute part shrinks with them (otherwise every comparison at scale 2^-40 would be vacuous)"""
    return abs(a - b) <= tol * (_UNIT + abs(b))

def _set_unit(case):
    global _UNIT
    k = case.get("scale_exp", 0) or 0
    _UNIT = Fraction(2) ** min(0, k)

def _autolabels(prefix, n):
    w = math.ceil(math.log10(n)) + 1
    return [prefix + str(i + 1).zfill(w) for i in range(n)]

def _base_table(case, out):
    """(taxa, grp, vals(Fraction)) rows of the table the estimate is run on, before thinning"""
    if case["kind"] == "table":
        return [(r[0], r[1], [_F(v) for v in r[2]]) for r in case["rows"]], list(case["trait"])
    d = out["df"]
    g = d.get("taxa_grp", [None] * d["nrow"])
    return [(d["taxa"][i], g[i], [_fh(h) for h in d["vals"][i]]) for i in range(d["nrow"])], list(d["tcols"])

def _kept(case, rows):
    est = case["est"]
    keep = [i for i in range(len(rows)) if i not in set(est.get("drop", []))]
    if est.get("drop_taxon") is not None: keep = [i for i in keep if rows[i][0] != est["drop_taxon"]]
    return keep

# ------------------------------------------------------------------ predicate
def _ksort(k): return (k[0], k[1] is None, 0 if k[1] is None else k[1])

def _pred_est(case, out, bad):
    eo = out["est"]; est = case["est"]
    rows, tnames = _base_table(case, out)
    keep = _kept(case, rows)
    if eo["keep"] != keep: bad.append("harness: thinned rows differ"); return
    sub = [rows[i] for i in keep]
    tr = est["traits"]; tix = [tr] if isinstance(tr, int) else list(tr)
    expect_err = est.get("missing_col") or (est["gt"] is not None and est["gt"]["taxa"] is None)
    for name in ("bv", "bv_perm"):
        o = eo[name]
        if expect_err:
            if "exc" not in o: bad.append("%s: estimate accepted a missing column / a genotype matrix without taxa" % name)
            continue
        if "exc" in o: bad.append("%s: estimate raised %s: %s" % (name, o["exc"], o["msg"])); continue
        if not o["input_unchanged"]: bad.append("%s: estimate modified the phenotype table" % name)
        if not o.get("gt_unchanged", True): bad.append("%s: estimate modified the genotype matrix (labels or genotypes)" % name)
        if not o.get("isolated", True): bad.append("aliasing %s: a write into the matrix of estimates changed the phenotype table or the genotype matrix" % name)
        if o["trait"] != [tnames[j] for j in tix]: bad.append("%s: trait labels %r" % (name, o["trait"]))
        def mean_of(sel):
            return [sum(r[2][j] for r in sel) / len(sel) for j in tix]
        if est["gt"] is not None:
            gtx = est["gt"]["taxa"]
            if o["taxa"] != gtx: bad.append("%s: taxa not in genotype order" % name); continue
            if o["taxa_grp"] != est["gt"]["taxa_grp"]: bad.append("%s: taxa_grp not that of the genotype matrix" % name)
            if len(o["mat"]) != len(gtx): bad.append("%s: row count" % name); continue
            for i, x in enumerate(gtx):
                sel = [r for r in sub if r[0] == x]
                got = o["mat"][i]
                if not sel:
                    if any(v is not None for v in got): bad.append("%s: unphenotyped taxon %r not reported missing" % (name, x))
                    continue
                want = mean_of(sel)
                for jj in range(len(tix)):
                    if got[jj] is None: bad.append("bvjoin %s: phenotyped taxon %r (row %d) reported missing" % (name, x, i)); break
                    if not _close(_fh(got[jj]), want[jj]):
                        bad.append("bvjoin %s: value of taxon %r (row %d) trait %d is not the mean of its %d records" % (name, x, i, jj, len(sel))); break
        else:
            # a null group label is a group of its own (sorted after the integer labels); no record may be lost
            if est["grp"]: keys = sorted(set((r[0], r[1]) for r in sub), key=_ksort)
            else: keys = sorted(set((r[0],) for r in sub))
            if o["taxa"] != [k[0] for k in keys]: bad.append("%s: group keys are not the sorted distinct taxa" % name); continue
            if est["grp"] and (o["taxa_grp"] is None or len(o["taxa_grp"]) != len(keys) or
                               any(k[1] is not None and g != k[1] for k, g in zip(keys, o["taxa_grp"]))):
                bad.append("%s: taxa_grp of the groups" % name)
            if not est["grp"] and o["taxa_grp"] is not None: bad.append("%s: taxa_grp present without a group column" % name)
            for i, k in enumerate(keys):
                sel = [r for r in sub if (r[0], r[1])[:len(k)] == k]
                want = mean_of(sel)
                for jj in range(len(tix)):
                    if o["mat"][i][jj] is None or not _close(_fh(o["mat"][i][jj]), want[jj]):
                        bad.append("%s: group %r trait %d is not the arithmetic mean" % (name, k, jj)); break
    a, b = eo["bv"], eo["bv_perm"]
    if "exc" not in a and "exc" not in b:
        same = a["taxa"] == b["taxa"] and a["taxa_grp"] == b["taxa_grp"] and a["trait"] == b["trait"] and len(a["mat"]) == len(b["mat"])
        if same:
            for ra, rb in zip(a["mat"], b["mat"]):
                for x, y in zip(ra, rb):
                    if (x is None) != (y is None) or (x is not None and not _close(_fh(x), _fh(y))): same = False
        if not same: bad.append("estimate depends on the row order of the phenotype table")
    elif ("exc" in a) != ("exc" in b): bad.append("estimate raises for one row order only")

def _pred_monitor(case, out, bad):
    v = numpy.array(out["vals"], dtype=float)
    gv = numpy.array([[float(x) for x in r] for r in _truth(case)])
    n = gv.shape[0]; nenv, nrep = case["nenv"], case["nrep"]
    if v.shape[0] != n * nenv * nrep: bad.append("monitor: record count"); return
    d = v.reshape(nenv, nrep, n, -1) - gv[None, None, :, :]
    var = case["var"]
    blk = d.mean(2)                                   # (nenv, nrep, t) = env + rep + mean err
    s_err = ((d - blk[:, :, None, :]) ** 2).sum((0, 1, 2)) / (nenv * nrep * (n - 1))
    envm = blk.mean(1)                                # env + mean rep + mean err
    s_rep_tot = ((blk - envm[:, None, :]) ** 2).sum((0, 1)) / max(1, nenv * (nrep - 1))     # var_rep + var_err/n
    s_env_tot = envm.var(0, ddof=1)                   # var_env + (var_rep + var_err/n)/nrep
    # chi-square relative standard deviations sqrt(2/df); tolerance = 6 sigma (fixed seeds, so deterministic anyway)
    df_err = nenv * nrep * (n - 1); df_rep = nenv * (nrep - 1); df_env = nenv - 1
    for j in range(d.shape[3]):
        ve, vr, vx = var["env"][j], var["rep"][j], var["err"][j]
        def chk(name, got, want, df):
            if df <= 0: return
            if want == 0.0:
                if abs(got) > 1e-18: bad.append("monitor: %s variance component should vanish, realised %g (trait %d)" % (name, got, j))
            elif abs(got - want) > 6.0 * math.sqrt(2.0 / df) * want:
                bad.append("monitor: realised %s variance %g vs requested %g (trait %d, df %d)" % (name, got, want, j, df))
        chk("error", s_err[j], vx, df_err)
        if nrep > 1: chk("replicate", s_rep_tot[j], vr + vx / n, df_rep)
        chk("environment", s_env_tot[j], ve + (vr + vx / n) / nrep, df_env)

def pred(case, out):
    """the property, stated directly on the implementation's outputs (independent of the Coq model)"""
    if "exc" in out:
        return ["implementation raised %s: %s" % (out["exc"], out["msg"])]
    _set_unit(case)
    bad = []
    if case["kind"] == "monitor":
        _pred_monitor(case, out, bad); return bad[:8]
    if case["kind"] == "table":
        _pred_est(case, out, bad); return _dedupe(bad)
    if case["kind"] == "session":
        _pred_session(case, out, bad); return _dedupe(bad)
    if case["kind"] == "herit":
        _pred_herit(case, out, bad); return _dedupe(bad)
    nenv, reps = _design(case)                         # the number of environments in force at the call, their replicate counts
    if not _pred_ge(case, out, nenv, reps, bad): return bad
    _pred_true(case, out, bad)
    t = len(case["u"][0]); n = len(case["geno"][0]); gv = _truth(case)
    _pred_h2_est(case, out, bad, t, n, gv)
    return _dedupe(bad)

def _pred_ge(case, out, nenv, reps, bad, approx_var=False):
    """one G_E_Phenotyping.phenotype call against the configuration `case` (population, model, variances, draws) and the
    design (nenv, reps) in force; False = nothing more can be checked"""
    geno = case["geno"]; n = len(geno[0]); t = len(case["u"][0])
    gv = _truth(case)
    d = out["df"]
    if reps is None:
        if "exc" not in d: bad.append("phenotype(): returned %d records although %d environments have no replicate count (nenv=%d, nrep=%r)"
                                      % (d["nrow"], nenv - len(case["nrep"]), nenv, case["nrep"]))
        elif d["exc"] != "ValueError": bad.append("phenotype() raised %s: %s" % (d["exc"], d["msg"]))
        return False
    if "exc" in d: bad.append("phenotype() raised %s: %s" % (d["exc"], d["msg"])); return False
    if [int(x) for x in out["nrep_attr"]][:nenv] != reps: bad.append("stored nrep %r does not give the replicate counts %r of the %d environments" % (out["nrep_attr"], reps, nenv))
    taxa = case["taxa"] if case["taxa"] is not None else _autolabels("Taxon", n)
    grp = case["taxa_grp"]
    tnames = case["trait"] if case["trait"] is not None else _autolabels("Trait", t)
    # --- one record per taxon, environment and replicate, carrying the taxon's labels
    if d["cols"] != ["taxa", "taxa_grp", "env", "rep"] + tnames: bad.append("phenotype columns %r" % d["cols"])
    cells = [(e + 1, r + 1) for e in range(nenv) for r in range(reps[e])]
    if d["nrow"] != n * len(cells): bad.append("phenotype(): %d records, expected ntaxa*sum(nrep) = %d" % (d["nrow"], n * len(cells)))
    else:
        from collections import Counter
        cnt = Counter()
        for i in range(d["nrow"]): cnt[(d["env"][i], d["rep"][i], i % n)] += 1
        for (e, r) in cells:
            for i in range(n):
                if cnt[(e, r, i)] != 1: bad.append("cell env=%d rep=%d taxon %d has %d records" % (e, r, i, cnt[(e, r, i)])); break
        sde, sdr, sdx = _sdv(case["sd_env"], t), _sdv(case["sd_rep"], t), _sdv(case["sd_err"], t)
        k = 0; row = 0
        for e in range(nenv):
            ze = case["draws"][k]; k += 1
            for r in range(reps[e]):
                zr = case["draws"][k]; zx = case["draws"][k + 1]; k += 2
                for i in range(n):
                    if d["taxa"][row] != taxa[i]: bad.append("record %d does not carry the label of taxon %d" % (row, i))
                    if d["taxa_grp"][row] != (None if grp is None else grp[i]): bad.append("record %d does not carry the group of taxon %d" % (row, i))
                    if (d["env"][row], d["rep"][row]) != (e + 1, r + 1): bad.append("record %d: env/rep labels %r, expected env-major (%d,%d)" % (row, (d["env"][row], d["rep"][row]), e + 1, r + 1))
                    for j in range(t):
                        want = gv[i][j] + _F(ze[j]) * sde[j] + _F(zr[j]) * sdr[j] + _F(zx[i * t + j]) * sdx[j]
                        got = d["vals"][row][j]
                        if got is None or not _close(_fh(got), want):
                            noise0 = all(s == 0 for s in sde + sdr + sdx)
                            bad.append(("record %d trait %d: with zero noise the value is not the true genotypic value" if noise0 else
                                        "record %d trait %d: value is not truth + env + rep + error effect") % (row, j)); break
                    row += 1
    if out["left"] != 0: bad.append("phenotype() left %d scripted draws unused" % out["left"])
    if not out["geno_unchanged"]: bad.append("phenotype() modified the genotype matrix")
    if not out.get("inputs_unchanged", True): bad.append("phenotype() modified its inputs (genotypes, labels or model coefficients)")
    if not out.get("isolated", True): bad.append("aliasing: a write into the table returned by phenotype() changed the population or the model")
    for nm, sd in zip(range(3), (case["sd_env"], case["sd_rep"], case["sd_err"])):
        want = [s * s for s in _sdv(sd, t)]
        got = [_fh(h) for h in out["var_set"][nm]]
        if (got != want) if not approx_var else (len(got) != len(want) or any(not _close(a, b) for a, b in zip(got, want))):
            bad.append("variance parameter %d stored as %r" % (nm, out["var_set"][nm]))
    return True

def _pred_true(case, out, bad):
    """TruePhenotyping.phenotype / TrueBreedingValue.estimate against the population and model of `case`"""
    geno = case["geno"]; n = len(geno[0]); t = len(case["u"][0])
    gv = _truth(case)
    taxa = case["taxa"] if case["taxa"] is not None else _autolabels("Taxon", n)
    grp = case["taxa_grp"]
    tnames = case["trait"] if case["trait"] is not None else _autolabels("Trait", t)
    # --- TruePhenotyping / TrueBreedingValue
    td = out.get("true_df")
    if td is None: pass
    elif "exc" in td: bad.append("TruePhenotyping raised %s" % td["exc"])
    else:
        if "var_err" in td:
            if td["var_err"] != [0.0] * t: bad.append("TruePhenotyping.var_err is %r, not zero for each of the %d traits" % (td["var_err"], t))
            if not td["set_H2_refused"]: bad.append("TruePhenotyping.set_H2 did not refuse")
            if not td["var_err_readonly"]: bad.append("TruePhenotyping.var_err accepted an assignment")
            if not td["inputs_unchanged"]: bad.append("TruePhenotyping.phenotype() modified its inputs")
        if not td.get("isolated", True): bad.append(TP_ALIAS_CLAUSE)
        if td["cols"] != ["taxa"] + (["taxa_grp"] if grp is not None else []) + tnames: bad.append("TruePhenotyping columns %r" % td["cols"])
        if td["nrow"] != n or td["taxa"] != taxa or (grp is not None and td.get("taxa_grp") != grp): bad.append("TruePhenotyping: one labelled record per taxon expected")
        elif any(v is None or not _close(_fh(v), gv[i][j]) for i in range(n) for j, v in enumerate(td["vals"][i])): bad.append("TruePhenotyping value is not the true genotypic value")
    tb = out.get("true_bv")
    if tb is None: pass
    elif "exc" in tb: bad.append("TrueBreedingValue raised %s" % tb["exc"])
    else:
        if not tb.get("inputs_unchanged", True): bad.append("TrueBreedingValue.estimate() modified its inputs")
        if not tb.get("isolated", True): bad.append("aliasing: a write into the matrix returned by TrueBreedingValue.estimate() changed the population or the model")
        if tb["taxa"] != case["taxa"] or tb["taxa_grp"] != grp or tb["trait"] != case["trait"]: bad.append("TrueBreedingValue labels")
        if len(tb["mat"]) != n or any(v is None or not _close(_fh(v), gv[i][j]) for i in range(n) for j, v in enumerate(tb["mat"][i])): bad.append("TrueBreedingValue is not the true value")

def _pred_h2_est(case, out, bad, t, n, gv):
    # --- heritability
    if case.get("h2") is not None:
        h = case["h2"]; ho = out["h2"]
        hv = [_F(x) for x in (h["val"] if isinstance(h["val"], list) else [h["val"]] * t)]
        vg = []
        for j in range(t):
            col = [gv[i][j] for i in range(n)]; mu = sum(col) / n
            vg.append(sum((x - mu) ** 2 for x in col) / n)
        invalid = any(hv[j] > 1 and vg[j] > 0 for j in range(t))
        if invalid:
            if "exc" not in ho: bad.append("set_%s accepted a heritability > 1" % h["which"])
        elif "exc" in ho: bad.append("set_%s raised %s: %s" % (h["which"], ho["exc"], ho["msg"]))
        else:
            if not ho["others_unchanged"]: bad.append("set_%s changed var_env/var_rep" % h["which"])
            for j in range(t):
                ve = _fh(ho["var_err"][j])
                if vg[j] > 0 and hv[j] <= 1:
                    if not _close(vg[j] / (vg[j] + ve), hv[j]): bad.append("set_%s: var_G/(var_G+var_err) = %s, target %s (trait %d)" % (h["which"], float(vg[j] / (vg[j] + ve)), float(hv[j]), j))
                elif vg[j] == 0 and ve != 0: bad.append("set_%s: var_err != 0 for a trait without genetic variance" % h["which"])
        if out["true_seth"] is None or "exc" not in out["true_seth"]: bad.append("TruePhenotyping.set_h2 did not refuse")
    _pred_est(case, out, bad)

def _dedupe(bad):
    seen = []
    for b in bad:
        if b not in seen: seen.append(b)
    return seen[:10]

# ------------------------------------------------------------------ known findings
TP_ALIAS_CLAUSE = ("aliasing: a write into the table returned by TruePhenotyping.phenotype() changed the labels of the population "
                   "(the taxa column is the population's own array)")
def classify(case, out, clauses):
    """C14-join-ignores-group, C14-stale-nrep-after-nenv, C14-short-nrep-fewer-environments, C14-null-group-drops-records and
    C14-truepheno-table-shares-labels are repaired (their witnesses are re-run as `fixed` entries of known_findings.d/C14.json):
    no failure pattern is excused."""
    return None

# ------------------------------------------------------------------ evidence helpers
def nontrivial(case, out):
    if case["kind"] == "session":                              # at least two calls with a change of the configuration in between
        ks = [op["op"] for op in case["steps"]]
        if "exc" in out or ks.count("pheno") < 2: return False
        first, last = ks.index("pheno"), len(ks) - 1 - ks[::-1].index("pheno")
        return any(k not in ("pheno", "copy") for k in ks[first:last])
    if case["kind"] == "herit":                                # a dominance model whose var_G differs from var_A in every trait, both setters called
        if "exc" in out or case["gmod"]["cls"] != "adddom": return False
        ks = [op["op"] for op in case["steps"]]
        ga, gg = _raw_values(case, _herit_state(case)); t_ = len(case["gmod"]["u"][0])
        return "h2" in ks and "H2" in ks and all(a != b and b > 0 for a, b in zip(_popvar(ga, t_), _popvar(gg, t_)))
    if case["kind"] == "monitor" or "exc" in out or "exc" in out.get("df", {}): return False
    rows, _ = _base_table(case, out)
    sub = [rows[i] for i in _kept(case, rows)]
    from collections import Counter
    c = Counter(r[0] for r in sub)
    perm = out["est"]["perm"]
    return len(c) >= 2 and max(c.values()) >= 2 and perm != sorted(perm)

def describe(case, out):
    est = case.get("est") or {}
    d = {"kind": case["kind"], "raised": "exc" in out}
    if case["kind"] == "monitor": d["component"] = case["which"]; return d
    if case["kind"] == "session":
        ks = [op["op"] for op in case["steps"]]
        d["protocol"] = case["proto"]["cls"]; d["calls"] = ks.count("pheno")
        d["updates"] = "+".join(sorted(set(k for k in ks if k != "pheno"))) or "none"
        return d
    if case["kind"] == "herit":
        ks = [op["op"] for op in case["steps"]]
        d["model"] = case["gmod"]["cls"]; d["ploidy"] = len(case["geno"]); d["ntrait"] = len(case["gmod"]["u"][0])
        d["targets"] = "+".join(sorted(set(("per-trait" if isinstance(op["val"], list) else "scalar") for op in case["steps"] if "val" in op)))
        d["target_one"] = any(1.0 in (op["val"] if isinstance(op["val"], list) else [op["val"]]) for op in case["steps"] if "val" in op)
        d["updates_between"] = "set_ud" in ks or "set_u" in ks
        return d
    d["grp_col"] = bool(est.get("grp")); d["gt"] = "none" if est.get("gt") is None else ("unlabelled" if est["gt"]["taxa"] is None else "labelled")
    d["dropped_rows"] = bool(est.get("drop") or est.get("drop_taxon"))
    if case["kind"] == "trial":
        n = len(case["geno"][0])
        d["ntaxa"] = "1" if n == 1 else ("2-6" if n <= 6 else "7+")
        d["labels"] = "auto" if case["taxa"] is None else ("dup" if len(set(case["taxa"])) < n else "unique")
        d["groups"] = case["taxa_grp"] is not None
        d["nenv"] = case["nenv"]; d["nrep_form"] = "scalar" if isinstance(case["nrep"], int) else "array"
        ns = case.get("nenv_set")
        d["nenv_reassigned"] = "no" if ns is None else ("same" if ns == case["nenv"] else ("lowered" if ns < case["nenv"] else "raised"))
        d["refused"] = "exc" in out.get("df", {})
        z = lambda s: s is None or (s == 0.0 if not isinstance(s, list) else all(x == 0.0 for x in s))
        d["zero_noise"] = z(case["sd_env"]) and z(case["sd_rep"]) and z(case["sd_err"])
        d["h2"] = "none" if case.get("h2") is None else case["h2"]["which"]
    return d

# ------------------------------------------------------------------ Coq emission
def _q(x): return E.q(Fraction(x))
def _qh(h): return E.q(Fraction(float.fromhex(h)))
def _vararg(sd, sq):
    if sd is None: return "VNone"
    if isinstance(sd, list): return "(VArr %s)" % E.lst([Fraction(s) ** (2 if sq else 1) for s in sd], E.q)
    return "(VScalar %s)" % E.q(Fraction(sd) ** (2 if sq else 1))
def _optl(x, f): return E.opt(x, lambda l: E.lst(l, f))
def _trow(r): return E.tup(E.s(r[0]), E.opt(r[1], E.z), E.lst(r[2], E.q))
def _bv_lit(o):
    if "exc" in o: return "None"
    if o["taxa"] is None or o["trait"] is None: raise ValueError("estimate output without labels")
    return "(Some %s)" % E.tup(E.lst(o["taxa"], E.s), _optl(o["taxa_grp"], E.z), E.lst(o["trait"], E.s),
                                E.lst2(o["mat"], lambda v: E.opt(v, _qh)))

def _emit_est(case, out, parts):
    est = case["est"]; eo = out["est"]
    rows, tnames = _base_table(case, out)
    keep = _kept(case, rows)
    sub = [rows[i] for i in keep]
    sub2 = [sub[i] for i in eo["perm"]]
    tr = est["traits"]; tix = [tr] if isinstance(tr, int) else list(tr)
    tcols = [tnames[j] for j in tix] + (["no_such_column"] if est.get("missing_col") else [])
    if est["gt"] is None: gt = "None"
    else: gt = "(Some %s)" % E.pair(_optl(est["gt"]["taxa"], E.s), _optl(est["gt"]["taxa_grp"], E.z))
    for name, tab in (("bv", sub), ("bv_perm", sub2)):
        parts.append("est_agree %s (estimate %s %s %s %s %s %s)" % (_bv_lit(eo[name]), E.b(est["grp"]), E.b(eo["has_grp_col"]),
                     E.lst(tcols, E.s), E.lst(tnames, E.s), E.lst(tab, _trow), gt))

def emit_case(case, out):
    if case["kind"] == "monitor": return None
    if "exc" in out: return "false"
    if case["kind"] == "session": return _emit_session(case, out)
    if case["kind"] == "herit": return _emit_herit(case, out)
    parts = []
    if case["kind"] == "table":
        _emit_est(case, out, parts)
        return "(" + "\n   && ".join(parts) + ")"
    geno = case["geno"]; m, n, p = len(geno), len(geno[0]), len(geno[0][0]); t = len(case["u"][0])
    d = out["df"]
    refused = "exc" in d
    if not refused and (any(v is None for r in d["vals"] for v in r) or any(x is None for x in d["taxa"] + d["env"] + d["rep"])): return "false"
    taxa = _optl(case["taxa"], E.s); grp = _optl(case["taxa_grp"], E.z); trait = _optl(case["trait"], E.s)
    head = ("let dos := dosage %d %d %s in\n  let u := %s in let beta := %s in\n  let gvm := gv %d dos u beta in\n"
            "  let taxa := %s in let grp := %s in let trait := %s in\n  let tnames := labels_or_auto \"Trait\"%%string %d trait in\n"
            % (n, p, E.lst3(geno, E.z), E.lst2(case["u"], _q), E.lst2(case["beta"], _q), t, taxa, grp, trait, t))
    nrep = "(NScalar %d)" % case["nrep"] if isinstance(case["nrep"], int) else "(NArr %s)" % E.lst(case["nrep"], E.nat)
    sds = ["(var_vec %d %s)" % (t, _vararg(case[k], False)) for k in ("sd_env", "sd_rep", "sd_err")]
    nenv_call = case["nenv_set"] if case.get("nenv_set") is not None else case["nenv"]
    head += "  let attr := nrep_attr_of %d %s %s in\n" % (case["nenv"], nrep, E.opt(case.get("nenv_set"), E.nat))
    model = "(phenotype %d %d taxa grp gvm %d attr %s %s %s %s)" % (n, t, nenv_call, sds[0], sds[1], sds[2], E.lst2(case["draws"], _q))
    parts.append("natl_eqb %s attr" % E.lst(out["nrep_attr"], E.nat))
    for i, k in enumerate(("sd_env", "sd_rep", "sd_err")):
        parts.append("ql_eqb %s (var_vec %d %s) && ql_eqb (map (fun s => s * s)%%Q %s) (var_vec %d %s)"
                     % (E.lst(out["var_set"][i], _qh), t, _vararg(case[k], True), sds[i], t, _vararg(case[k], True)))
    if refused:                                                # the model refuses exactly when the stored nrep array is shorter than nenv
        parts.append("(length attr <? %d)%%nat && pheno_refused\n     %s" % (nenv_call, model))
        return "(" + head + "  " + "\n   && ".join(parts) + ")"
    g = d.get("taxa_grp", [None] * d["nrow"])
    irows = [E.tup(E.s(d["taxa"][i]), E.opt(g[i], E.z), E.z(d["env"][i]), E.z(d["rep"][i]), E.lst(d["vals"][i], _qh)) for i in range(d["nrow"])]
    parts.append("pheno_agree [%s]\n     %s" % ("; ".join(irows), model))
    parts.append("Z.eqb %s 0%%Z" % E.z(out["left"]))
    parts.append("sl_eqb %s (pheno_cols tnames)" % E.lst(d["cols"], E.s))
    td = out["true_df"]
    if "exc" in td: parts.append("false")
    else:
        tg = td.get("taxa_grp", [None] * td["nrow"])
        parts.append("true_agree %s (true_rows %d taxa grp gvm)" % (E.lst([(td["taxa"][i], tg[i], [Fraction(float.fromhex(h)) for h in td["vals"][i]])
                                                                           for i in range(td["nrow"])], _trow), n))
        parts.append("sl_eqb %s (true_cols grp tnames)" % E.lst(td["cols"], E.s))
        if "isolated" in td:                                   # aliasing probe: the store model says whether a write into the table reaches the population
            parts.append("Bool.eqb %s (tp_table_isolated %d taxa)" % (E.b(td["isolated"]), n))
    tb = out["true_bv"]
    if "exc" in tb: parts.append("false")
    else:
        parts.append("opt_eqb sl_eqb %s taxa && optzl_eqb %s grp && opt_eqb sl_eqb %s trait && qclose_ll %s gvm"
                     % (_optl(tb["taxa"], E.s), _optl(tb["taxa_grp"], E.z), _optl(tb["trait"], E.s), E.lst2(tb["mat"], _qh)))
    if case.get("h2") is not None:
        h = case["h2"]; ho = out["h2"]
        harg = "(HArr %s)" % E.lst(h["val"], _q) if isinstance(h["val"], list) else "(HScalar %s)" % _q(h["val"])
        impl = "None" if "exc" in ho else "(Some %s)" % E.lst(ho["var_err"], _qh)
        parts.append("h2_agree %s (set_h2 %d %s (gebv_raw %d dos u))" % (impl, t, harg, t))
        parts.append(E.b("exc" not in ho and ho["others_unchanged"] or "exc" in ho))
    _emit_est(case, out, parts)
    return "(" + head + "  " + "\n   && ".join(parts) + ")"

# ================================================================== sessions on ONE protocol object
# A session = initial population / genomic model / protocol + a list of operations; see Model/C14_Session.v.
# The configuration in force is tracked here independently of the Coq machine (plain assignments), every call is
# judged against the configuration in force AT THAT CALL.
def _expand_sd(sd, t):
    if sd is None: return [0.0] * t
    if isinstance(sd, list): return list(sd)
    return [sd] * t

def _sess_init(case):
    pr = case["proto"]; t = len(case["model"]["u"][0])
    st = {"cls": pr["cls"], "geno": case["pop"]["geno"], "taxa": case["pop"]["taxa"], "taxa_grp": case["pop"]["taxa_grp"],
          "beta": case["model"]["beta"], "u": case["model"]["u"], "trait": case["model"]["trait"], "t": t}
    if pr["cls"] == "GE":
        st["nenv"] = pr["nenv"]
        st["nrep"] = [pr["nrep"]] * pr["nenv"] if isinstance(pr["nrep"], int) else list(pr["nrep"])
        st["sd"] = {k: _expand_sd(pr["sd_" + k], t) for k in ("env", "rep", "err")}
    return st

def _var_G(st):
    """exact per-trait population variance of the genotypic values in force"""
    gv = _truth(st); n = len(gv); out = []
    for j in range(st["t"]):
        col = [gv[i][j] for i in range(n)]; mu = sum(col) / n
        out.append(sum((x - mu) ** 2 for x in col) / n)
    return out

def _h2_target(op, t):
    return [_F(x) for x in (op["val"] if isinstance(op["val"], list) else [op["val"]] * t)]

def _sess_apply(st, op):
    """the configuration after the operation and whether the operation has to be accepted ("ok") or refused ("raise",
    configuration unchanged); `st` is updated in place"""
    k = op["op"]; t = st["t"]
    if k == "pheno": return "ok"
    if k == "copy":
        # a stored nrep array that does not have nenv entries (non-uniform array kept after nenv was reassigned) is refused by the
        # constructor the copy goes through; the property says nothing about copies of such a protocol
        return "ok" if st["cls"] != "GE" or len(st["nrep"]) == st["nenv"] else "any"
    if k == "set_geno": st["geno"] = op["geno"]; return "ok"
    if k == "set_taxa": st["taxa"] = op["taxa"]; return "ok"
    if k == "set_grp": st["taxa_grp"] = op["taxa_grp"]; return "ok"
    if k == "new_pop": st["geno"], st["taxa"], st["taxa_grp"] = op["geno"], op["taxa"], op["taxa_grp"]; return "ok"
    if k == "set_u": st["u"] = op["u"]; return "ok"
    if k == "set_beta": st["beta"] = op["beta"]; return "ok"
    if k == "set_h2":
        if st["cls"] != "GE": return "raise"
        vg = _var_G(st); hv = _h2_target(op, t)
        if any(hv[j] > 1 and vg[j] > 0 for j in range(t)): return "raise"
        st["sd"]["err"] = list(op["sd_hint"]); st["var_err_exact"] = [(1 - hv[j]) / hv[j] * vg[j] for j in range(t)]
        return "ok"
    if k == "set_nenv":
        v = op["nenv"]
        if v <= 0: return "raise"
        st["nenv"] = v
        nr = st["nrep"]
        if len(nr) != v and all(x == nr[0] for x in nr): st["nrep"] = [nr[0]] * v      # an all-equal count holds for any number of environments
        return "ok"
    if k == "set_nrep":
        v = op["nrep"]
        if isinstance(v, int):
            if v <= 0: return "raise"
            st["nrep"] = [v] * st["nenv"]; return "ok"
        if len(v) != st["nenv"] or any(x <= 0 for x in v): return "raise"
        st["nrep"] = list(v); return "ok"
    if k == "set_var":
        sd = op["sd"]
        if isinstance(sd, list) and len(sd) != t: return "raise"
        st["sd"][op["which"]] = _expand_sd(sd, t)
        if op["which"] == "err": st.pop("var_err_exact", None)
        return "ok"
    raise ValueError("unknown session operation %r" % k)

def _sess_design(st):
    nenv, nr = st["nenv"], st["nrep"]
    return nenv, (nr[:nenv] if len(nr) >= nenv else None)

def _sess_snapshot(st, op):
    """the configuration in force as a trial-shaped case for the single-call checks"""
    sc = {"kind": "trial", "geno": st["geno"], "taxa": st["taxa"], "taxa_grp": st["taxa_grp"], "beta": st["beta"], "u": st["u"],
          "trait": st["trait"], "draws": op.get("draws", [])}
    if st["cls"] == "GE":
        sc.update({"nenv": st["nenv"], "nrep": list(st["nrep"]), "sd_env": st["sd"]["env"], "sd_rep": st["sd"]["rep"], "sd_err": st["sd"]["err"]})
    tn = st["trait"] if st["trait"] is not None else _autolabels("Trait", st["t"])
    e = op["est"]
    sc["est"] = {"grp": e["grp"], "traits": list(e["traits"]), "drop": [], "perm_seed": 0,
                 "gt": {"taxa": st["taxa"], "taxa_grp": st["taxa_grp"]} if e["gt"] else None}
    return sc, tn

def _rand_pop(rng, p, n=None):
    m = rng.choice([1, 2, 2])
    if n is None: n = rng.choice([1, 2, 2, 3, 3, 4])
    geno = [[[rng.randint(0, 1) for _ in range(p)] for _ in range(n)] for _ in range(m)]
    return geno, _rand_taxa(rng, n), _rand_grp(rng, n)

def _rand_taxa(rng, n):
    r = rng.random()
    if r < 0.15: return None
    taxa = rng.sample(LABELS, n)
    if r > 0.85 and n > 1: taxa[rng.randrange(n)] = taxa[rng.randrange(n)]
    return taxa

def _rand_grp(rng, n):
    return None if rng.random() < 0.35 else [rng.randint(1, 3) for _ in range(n)]

def _session(rng, cls=None, script=None):
    p = rng.randint(1, 3); t = rng.randint(1, 2)
    if cls is None: cls = "GE" if rng.random() < 0.75 else "True"
    geno, taxa, grp = _rand_pop(rng, p)
    nfixed = 1 if rng.random() < 0.75 else 2
    kexp = rng.choice(SCALES); f = 2.0 ** kexp                      # the whole session lives at scale 2^kexp (effects, variances)
    newmat = lambda rows: [[_grid(rng) * f for _ in range(t)] for _ in range(rows)]
    case = {"kind": "session", "scale_exp": kexp, "routes": {"pop": rng.choice(POP_ROUTES), "model": rng.choice(MODEL_ROUTES), "proto": rng.choice(PROTO_ROUTES)},
            "pop": {"geno": geno, "taxa": taxa, "taxa_grp": grp},
            "model": {"beta": newmat(nfixed), "u": newmat(p), "trait": None if rng.random() < 0.25 else rng.sample(TRAITS, t)},
            "proto": {"cls": cls}}
    if cls == "GE":
        nenv = rng.choice([1, 1, 2, 2, 3])
        zero = rng.random() < 0.3
        case["proto"].update({"nenv": nenv, "nrep": rng.randint(1, 2) if rng.random() < 0.6 else [rng.randint(1, 2) for _ in range(nenv)],
                              "sd_env": _scaled(_sd(rng, t, zero), f), "sd_rep": _scaled(_sd(rng, t, zero), f), "sd_err": _scaled(_sd(rng, t, zero), f)})
    st = _sess_init(case)
    mutators = ["set_geno", "set_geno", "set_taxa", "set_taxa", "set_grp", "new_pop", "set_u", "set_u", "set_beta", "copy", "set_h2"]
    if cls == "GE": mutators += ["set_nenv", "set_nrep", "set_var", "set_var", "set_h2"]
    if script is None:
        script = ["pheno"]
        for _ in range(rng.randint(1, 3)):
            script += [rng.choice(mutators) for _ in range(rng.randint(1, 3))] + ["pheno"]
    steps = []
    for k in script:
        n = len(st["geno"][0]); m = len(st["geno"])
        op = {"op": k}
        if k == "pheno":
            nenv, reps = _sess_design(st) if cls == "GE" else (1, [])
            if cls == "GE":
                if reps is None: reps = list(st["nrep"])
                dr = []
                for e in range(len(reps)):
                    dr.append([_grid(rng, 3, 4) for _ in range(t)])
                    for _ in range(reps[e]):
                        dr.append([_grid(rng, 3, 4) for _ in range(t)])
                        dr.append([_grid(rng, 3, 4) for _ in range(n * t)])
                op["draws"] = dr
            has_grp_col = cls == "GE" or st["taxa_grp"] is not None
            op["est"] = {"grp": has_grp_col and rng.random() < 0.4, "traits": rng.sample(range(t), rng.randint(1, t)), "gt": rng.random() < 0.75}
        elif k == "set_geno":
            op["geno"] = [[[rng.randint(0, 1) for _ in range(p)] for _ in range(n)] for _ in range(m)]
        elif k == "set_taxa":
            op["taxa"] = _rand_taxa(rng, n)
            if op["taxa"] is not None and st["taxa"] is not None and rng.random() < 0.4:       # same labels in another order
                op["taxa"] = list(st["taxa"]); rng.shuffle(op["taxa"])
        elif k == "set_grp": op["taxa_grp"] = _rand_grp(rng, n)
        elif k == "new_pop":
            op["geno"], op["taxa"], op["taxa_grp"] = _rand_pop(rng, p, n if rng.random() < 0.4 else None)
            op["route"] = rng.choice(POP_ROUTES)
        # "via": "gpmod" = a NEW model object with these coefficients is assigned through the protocol's gpmod setter
        elif k == "set_u": op["u"] = newmat(p); op["via"] = rng.choice(["attr", "attr", "gpmod"])
        elif k == "set_beta": op["beta"] = newmat(len(st["beta"])); op["via"] = rng.choice(["attr", "attr", "gpmod"])
        elif k == "copy": op["deep"] = rng.random() < 0.5; op["method"] = rng.random() < 0.5      # copy.copy(pt) or pt.copy()
        elif k == "set_nenv": op["nenv"] = rng.choice([0, 1, 1, 2, 2, 3, 3, 4])
        elif k == "set_nrep":
            r = rng.random()
            if r < 0.4: op["nrep"] = rng.choice([0, 1, 2, 2, 3])
            else: op["nrep"] = [rng.randint(1, 3) for _ in range(st["nenv"] if r < 0.85 else st["nenv"] + 1)]
        elif k == "set_var":
            op["which"] = rng.choice(["env", "rep", "err"])
            sd = _scaled(_sd(rng, t, rng.random() < 0.3), f)
            if isinstance(sd, list) and rng.random() < 0.1: sd = sd + [1.0]
            op["sd"] = sd
        elif k == "set_h2":
            vals = [1.0, 0.5, 0.25, 0.75, 0.125, 0.625] if rng.random() < 0.92 else [1.5, 2.0]
            op["which"] = rng.choice(["h2", "H2"])
            op["val"] = rng.choice(vals) if rng.random() < 0.5 else [rng.choice(vals) for _ in range(t)]
            if cls == "GE":
                vg = _var_G(st); hv = _h2_target(op, t)
                op["sd_hint"] = [math.sqrt(max(0.0, float((1 - hv[j]) / hv[j] * vg[j]))) for j in range(t)]
            else: op["sd_hint"] = [0.0] * t
        _sess_apply(st, op)
        steps.append(op)
    case["steps"] = steps
    return case

SESSION_SCRIPTS = [("GE", ["pheno", "set_geno", "pheno"]), ("GE", ["pheno", "set_taxa", "pheno"]), ("GE", ["pheno", "set_grp", "pheno"]),
                   ("GE", ["pheno", "set_u", "pheno"]), ("GE", ["pheno", "set_beta", "pheno"]), ("GE", ["pheno", "new_pop", "pheno"]),
                   ("GE", ["pheno", "copy", "set_geno", "set_taxa", "pheno"]), ("GE", ["pheno", "set_nenv", "pheno", "set_nrep", "pheno"]),
                   ("GE", ["pheno", "set_var", "pheno", "set_h2", "pheno"]), ("GE", ["pheno", "set_h2", "set_u", "pheno", "set_h2", "pheno"]),
                   ("True", ["pheno", "set_geno", "pheno"]), ("True", ["pheno", "set_taxa", "set_grp", "pheno"]),
                   ("True", ["pheno", "set_u", "pheno", "set_beta", "pheno"]), ("True", ["pheno", "copy", "new_pop", "pheno", "set_h2", "pheno"])]

def _gen_sessions(rng, quick):
    out = []
    for cls, script in SESSION_SCRIPTS * (1 if quick else 4):
        out.append(_session(rng, cls, script))
    for _ in range(110 if quick else 3000):
        out.append(_session(rng))
    return out

def _run_session(case):
    import copy as _copy
    from rngscript import Scripted
    from pybrops.model.gmod.DenseAdditiveLinearGenomicModel import DenseAdditiveLinearGenomicModel
    from pybrops.popgen.gmat.DensePhasedGenotypeMatrix import DensePhasedGenotypeMatrix
    from pybrops.breed.prot.pt.G_E_Phenotyping import G_E_Phenotyping
    from pybrops.breed.prot.pt.TruePhenotyping import TruePhenotyping
    from pybrops.breed.prot.bv.TrueBreedingValue import TrueBreedingValue
    from pybrops.breed.prot.bv.MeanPhenotypicBreedingValue import MeanPhenotypicBreedingValue
    routes = case.get("routes", {})
    pg = _mk_pop(case["pop"]["geno"], case["pop"]["taxa"], case["pop"]["taxa_grp"], routes.get("pop", "ctor"))
    md = case["model"]; t = len(md["u"][0])
    gm = _mk_model(md["beta"], md["u"], md["trait"], routes.get("model", "ctor"))
    pr = case["proto"]; ge = pr["cls"] == "GE"
    rng = Scripted(normals=[])
    if ge:
        pt = _mk_proto(gm, pr["nenv"], pr["nrep"] if isinstance(pr["nrep"], int) else numpy.array(pr["nrep"], dtype=int),
                       _var_arg(pr["sd_env"], t), _var_arg(pr["sd_rep"], t), _var_arg(pr["sd_err"], t), rng, routes.get("proto", "ctor"))
    else:
        pt = TruePhenotyping(gm)
        if routes.get("proto") in ("copy_m", "deepcopy_m"): pt = pt.copy() if routes["proto"] == "copy_m" else pt.deepcopy()
    del gm                                                     # from here on the model is reached through the protocol only
    bvobj = [None]                                             # ONE estimator object for the whole session, reconfigured through its setters
    outs = []
    for op in case["steps"]:
        k = op["op"]; o = {}
        if k == "pheno":
            if ge:
                rng.q["normal"] = _copy.deepcopy(op["draws"])
                o["nrep_attr"] = [int(x) for x in pt.nrep]
                o["var_set"] = [[float(x).hex() for x in a] for a in (pt.var_env, pt.var_rep, pt.var_err)]
            before = numpy.array(pg.mat, copy=True)
            df = _try(lambda: pt.phenotype(pg))
            o["geno_unchanged"] = bool(numpy.array_equal(pg.mat, before))
            if isinstance(df, dict): o["df"] = df
            else:
                o["df"] = _canon_df(df)
                o["left"] = len(rng.q["normal"]) if ge else 0
                o["true_bv"] = _try(lambda: _canon_bv(TrueBreedingValue(pt.gpmod).estimate(None, pg)))
                e = op["est"]; tn = o["df"]["tcols"]
                if bvobj[0] is None: bvobj[0] = MeanPhenotypicBreedingValue("taxa", "taxa_grp" if e["grp"] else None, [tn[j] for j in e["traits"]])
                else:
                    bvobj[0].taxa_grp_col = "taxa_grp" if e["grp"] else None; bvobj[0].trait_cols = [tn[j] for j in e["traits"]]
                bv = bvobj[0]
                def est():
                    keep = df.copy(deep=True)
                    r = _canon_bv(bv.estimate(df, pg if e["gt"] else None))
                    r["input_unchanged"] = bool(keep.equals(df))
                    return r
                o["est"] = _try(est)
                o["has_grp_col"] = "taxa_grp" in df.columns
        else:
            def act():
                nonlocal pg, pt
                if k == "set_geno": pg.mat = numpy.array(op["geno"], dtype="int8")
                elif k == "set_taxa": pg.taxa = None if op["taxa"] is None else numpy.array(op["taxa"], dtype=object)
                elif k == "set_grp": pg.taxa_grp = None if op["taxa_grp"] is None else numpy.array(op["taxa_grp"], dtype=int)
                elif k == "new_pop": pg = _mk_pop(op["geno"], op["taxa"], op["taxa_grp"], op.get("route", "ctor"))
                elif k in ("set_u", "set_beta") and op.get("via") == "gpmod":
                    old = pt.gpmod
                    pt.gpmod = _mk_model(op["beta"] if k == "set_beta" else numpy.array(old.beta, copy=True),
                                         op["u"] if k == "set_u" else numpy.array(old.u_a, copy=True),
                                         None if old.trait is None else [str(x) for x in old.trait])
                elif k == "set_u": pt.gpmod.u_a = numpy.array(op["u"], dtype=float)
                elif k == "set_beta": pt.gpmod.beta = numpy.array(op["beta"], dtype=float)
                elif k == "copy":
                    if op.get("method"): pt = pt.deepcopy() if op["deep"] else pt.copy()
                    else: pt = _copy.deepcopy(pt) if op["deep"] else _copy.copy(pt)
                elif k == "set_nenv": pt.nenv = op["nenv"]
                elif k == "set_nrep": pt.nrep = op["nrep"] if isinstance(op["nrep"], int) else numpy.array(op["nrep"], dtype=int)
                elif k == "set_var": setattr(pt, "var_" + op["which"], _var_arg(op["sd"], t))
                elif k == "set_h2":
                    val = op["val"] if not isinstance(op["val"], list) else numpy.array(op["val"], dtype=float)
                    (pt.set_h2 if op["which"] == "h2" else pt.set_H2)(val, pg)
                    return {"ok": True, "var_err": [float(x).hex() for x in pt.var_err]}
                else: raise ValueError("unknown session operation %r" % k)
                return {"ok": True}
            o = _try(act)
        outs.append(o)
    return {"steps": outs}

def _sess_walk(case, out):
    """yields (index, operation, output, configuration in force BEFORE the operation (a private copy), expectation)"""
    import copy as _copy
    st = _sess_init(case)
    for i, (op, o) in enumerate(zip(case["steps"], out["steps"])):
        before = _copy.deepcopy(st)
        want = _sess_apply(st, op)
        yield i, op, o, before, want

def _pred_session(case, out, bad):
    if len(out["steps"]) != len(case["steps"]): bad.append("harness: step count"); return
    for i, op, o, st, want in _sess_walk(case, out):
        k = op["op"]; tag = "step %d (%s): " % (i, k); sub = []
        if k != "pheno":
            if want == "any": pass
            elif want == "raise":
                if "exc" not in o: sub.append("an invalid assignment was accepted")
            elif "exc" in o: sub.append("raised %s: %s" % (o["exc"], o["msg"]))
            elif k == "set_h2":
                vg = _var_G(st); hv = _h2_target(op, st["t"])
                for j in range(st["t"]):
                    ve = _fh(o["var_err"][j])
                    if vg[j] > 0:
                        if not _close(vg[j] / (vg[j] + ve), hv[j]): sub.append("var_G/(var_G+var_err) = %s, target %s (trait %d) for the population and model in force" % (float(vg[j] / (vg[j] + ve)), float(hv[j]), j))
                    elif ve != 0: sub.append("var_err != 0 for a trait without genetic variance")
        else:
            sc, tn = _sess_snapshot(st, op)
            if st["cls"] == "GE":
                nenv, reps = _sess_design(st)
                so = dict(o)
                if _pred_ge(sc, so, nenv, reps, sub, approx_var="var_err_exact" in st): _pred_sess_est(sc, o, sub)
                if "var_err_exact" in st and "var_set" in o and not all(_close(_fh(h), w) for h, w in zip(o["var_set"][2], st["var_err_exact"])):
                    sub.append("stored var_err is not the one fixed by the last heritability setting")
            else:
                if "exc" in o["df"]: sub.append("phenotype() raised %s: %s" % (o["df"]["exc"], o["df"]["msg"]))
                else:
                    _pred_true(sc, {"true_df": o["df"]}, sub)
                    if not o["geno_unchanged"]: sub.append("phenotype() modified the genotype matrix")
                    _pred_sess_est(sc, o, sub)
            if "true_bv" in o: _pred_true(sc, {"true_bv": o["true_bv"]}, sub)
        bad.extend(tag + x for x in sub)

def _pred_sess_est(sc, o, bad):
    n = o["df"]["nrow"]
    so = {"df": o["df"], "est": {"keep": list(range(n)), "perm": list(range(n)), "bv": o["est"], "bv_perm": o["est"], "has_grp_col": o["has_grp_col"]}}
    _pred_est(sc, so, bad)

def _emit_session(case, out):
    pr = case["proto"]; md = case["model"]; pp = case["pop"]; t = len(md["u"][0]); ge = pr["cls"] == "GE"
    g3 = lambda g: E.lst3(g, E.z)
    if ge:
        nrep = "(NScalar %d)" % pr["nrep"] if isinstance(pr["nrep"], int) else "(NArr %s)" % E.lst(pr["nrep"], E.nat)
        par = "GE %d (nrep_vec %d %s) %s" % (pr["nenv"], pr["nenv"], nrep, " ".join("(var_vec %d %s)" % (t, _vararg(pr["sd_" + k], False)) for k in ("env", "rep", "err")))
    else: par = "TrueP 1 [1%%nat] (repeat 0%%Q %d) (repeat 0%%Q %d) (repeat 0%%Q %d)" % (t, t, t)
    s0 = "(mkState %s %d %s %s %s %d %d %s %s %s)" % (par, t, E.lst2(md["beta"], _q), E.lst2(md["u"], _q), _optl(md["trait"], E.s),
                                                       len(pp["geno"][0]), len(pp["geno"][0][0]), g3(pp["geno"]), _optl(pp["taxa"], E.s), _optl(pp["taxa_grp"], E.z))
    ops = []; checks = []
    for i, op, o, st, want in _sess_walk(case, out):
        k = op["op"]; get = "(nth %d outs %s)"
        if k == "pheno":
            tn = st["trait"] if st["trait"] is not None else _autolabels("Trait", t)
            e = op["est"]
            ops.append("OPheno %s (%s, %s, %s)" % (E.lst2(op.get("draws", []), _q), E.b(e["grp"]), E.lst([tn[j] for j in e["traits"]], E.s), E.b(e["gt"])))
            d = o["df"]
            if ge:
                tail = "%s %s %s" % (E.lst(o["nrep_attr"], E.nat), E.lst2(o["var_set"], _qh), get % (i, "ODone"))
                if "exc" in d: checks.append("table_agree None None %s" % tail)
                else:
                    if any(v is None for r in d["vals"] for v in r) or any(x is None for x in d["taxa"] + d["env"] + d["rep"]): return "false"
                    g = d.get("taxa_grp", [None] * d["nrow"])
                    irows = [E.tup(E.s(d["taxa"][r]), E.opt(g[r], E.z), E.z(d["env"][r]), E.z(d["rep"][r]), E.lst(d["vals"][r], _qh)) for r in range(d["nrow"])]
                    checks.append("Z.eqb %s 0%%Z && table_agree (Some [%s]) %s %s" % (E.z(o["left"]), "; ".join(irows), _bv_lit(o["est"]), tail))
            else:
                if "exc" in d: return "false"
                tg = d.get("taxa_grp", [None] * d["nrow"])
                rows = [(d["taxa"][r], tg[r], [Fraction(float.fromhex(h)) for h in d["vals"][r]]) for r in range(d["nrow"])]
                checks.append("true_table_agree %s %s %s" % (E.lst(rows, _trow), _bv_lit(o["est"]), get % (i, "ODone")))
            continue
        if k == "set_geno": ops.append("OSetGeno %s" % g3(op["geno"]))
        elif k == "set_taxa": ops.append("OSetTaxa %s" % _optl(op["taxa"], E.s))
        elif k == "set_grp": ops.append("OSetGrp %s" % _optl(op["taxa_grp"], E.z))
        elif k == "new_pop": ops.append("ONewPop %d %d %s %s %s" % (len(op["geno"][0]), len(op["geno"][0][0]), g3(op["geno"]), _optl(op["taxa"], E.s), _optl(op["taxa_grp"], E.z)))
        elif k == "set_u": ops.append("OSetU %s" % E.lst2(op["u"], _q))
        elif k == "set_beta": ops.append("OSetBeta %s" % E.lst2(op["beta"], _q))
        elif k == "copy": ops.append("OCopy")
        elif k == "set_nenv": ops.append("OSetNenv %d" % op["nenv"])
        elif k == "set_nrep": ops.append("OSetNrep %s" % ("(NScalar %d)" % op["nrep"] if isinstance(op["nrep"], int) else "(NArr %s)" % E.lst(op["nrep"], E.nat)))
        elif k == "set_var": ops.append("OSetVar %s %s" % ({"env": "VEnv", "rep": "VRep", "err": "VErr"}[op["which"]], _vararg(op["sd"], False)))
        elif k == "set_h2":
            harg = "(HArr %s)" % E.lst(op["val"], _q) if isinstance(op["val"], list) else "(HScalar %s)" % _q(op["val"])
            ops.append("OSetH2 %s %s" % (harg, E.lst(op["sd_hint"], _q)))
            checks.append("h2obs_agree %s %s" % ("None" if "exc" in o else "(Some %s)" % E.lst(o["var_err"], _qh), get % (i, "ODone")))
            continue
        checks.append("done_agree %s %s" % (E.b("exc" in o), get % (i, "(OH2 [])")))
    return ("(let s0 := %s in\n  let ops := [%s] in\n  let outs := run s0 ops in\n  %s)"
            % (s0, ";\n    ".join(ops), "\n   && ".join(checks)))


# ================================================================== heritability over the family of genomic models
# kind "herit": ONE G_E_Phenotyping object on a population with heterozygous loci and a genomic model of EVERY concrete class of
# pybrops.model.gmod (GMOD_CLASSES below, audited by introspection); a list of steps -- set_h2 / set_H2 with scalar / per-trait targets
# (< 1, = 1, rarely > 1), in-place updates of u_a / u_d in between -- each judged against var_A / var_G recomputed from the raw
# genotypes and effects; plus TruePhenotyping (table = truth with dominance, both setters refuse), TrueBreedingValue (= A@u_a + location)
# and a zero-noise G_E trial (= truth with dominance).
GMOD_CLASSES = {   # concrete classes of pybrops.model.gmod -> how the heritability cases build them
    "DenseAdditiveLinearGenomicModel": "add", "rrBLUPModel0": "rrblup", "DenseAdditiveDominanceLinearGenomicModel": "adddom / adddom_none (u_d = None -> zeros)",
}
HERIT_CLS = ["add", "rrblup", "adddom", "adddom", "adddom", "adddom_none"]
HERIT_TARGETS = [1.0, 0.5, 0.25, 0.75, 0.125, 0.625, 0.875]

def _herit(rng, cls=None, m=None, scale_exp=None, t=None, script=None):
    if cls is None: cls = rng.choice(HERIT_CLS)
    if m is None: m = rng.choice([2, 2, 2, 2, 4, 4, 1, 3])
    n = rng.choice([2, 3, 3, 4, 5, 6, 8]); p = rng.randint(1, 4)
    if t is None: t = rng.choice([1, 2, 2, 3])
    geno = [[[rng.randint(0, 1) for _ in range(p)] for _ in range(n)] for _ in range(m)]
    l0 = rng.randrange(p); i0, i1 = rng.sample(range(n), 2)
    if m >= 2:                                         # taxon i0 heterozygous at locus l0, taxon i1 homozygous there
        for ph in range(m): geno[ph][i0][l0] = 1 if ph == 0 else 0
        v = rng.randint(0, 1)
        for ph in range(m): geno[ph][i1][l0] = v
    k = rng.choice(SCALES) if scale_exp is None else scale_exp
    f = 2.0 ** k
    newmat = lambda rows: [[_grid(rng) * f for _ in range(t)] for _ in range(rows)]
    def new_ud():
        ud = newmat(p)
        for j in range(t):                             # non-zero dominance effect at the heterozygous locus, every trait
            if ud[l0][j] == 0.0: ud[l0][j] = rng.choice([-1.5, 0.75, 2.0]) * f
        return ud
    nfixed = 1 if rng.random() < 0.7 else 2
    case = {"kind": "herit", "geno": geno, "taxa": None if rng.random() < 0.4 else rng.sample(LABELS, n),
            "taxa_grp": None if rng.random() < 0.5 else [rng.randint(1, 3) for _ in range(n)],
            "gmod": {"cls": cls, "beta": newmat(nfixed), "u": newmat(p), "u_d": new_ud() if cls == "adddom" else None,
                     "trait": None if rng.random() < 0.3 else rng.sample(TRAITS, t)},
            "scale_exp": k, "routes": {"pop": rng.choice(POP_ROUTES), "model": rng.choice(MODEL_ROUTES), "proto": rng.choice(PROTO_ROUTES)},
            "sd_env": _scaled(_sd(rng, t), f), "sd_rep": _scaled(_sd(rng, t), f), "sd_err": _scaled(_sd(rng, t), f)}
    if script is None:
        script = ["H2", "h2"] if rng.random() < 0.5 else ["h2", "H2"]
        for _ in range(rng.randint(0, 3)):
            script.insert(rng.randint(0, len(script)), rng.choice(["h2", "H2", "H2", "set_ud", "set_u"]))
    steps = []
    for kk in script:
        if kk == "set_ud":
            if cls in ("adddom", "adddom_none"): steps.append({"op": "set_ud", "u_d": new_ud()})
        elif kk == "set_u": steps.append({"op": "set_u", "u": newmat(p)})
        else:
            r = rng.random()
            vals = HERIT_TARGETS if r < 0.94 else [1.5, 2.0]
            form = rng.random()
            if form < 0.4: v = rng.choice(vals)
            elif form < 0.5: v = 1.0
            else:
                v = [rng.choice(vals) for _ in range(t)]
                if t > 1 and r < 0.94 and len(set(v)) == 1: v[rng.randrange(t)] = rng.choice([x for x in HERIT_TARGETS if x != v[0]])
            steps.append({"op": kk, "val": v})
    case["steps"] = steps
    case["draws"] = [[_grid(rng, 3, 4) for _ in range(t)], [_grid(rng, 3, 4) for _ in range(t)], [_grid(rng, 3, 4) for _ in range(n * t)]]
    return case

def _gen_herit(rng, quick):
    out = []
    for cls in ("add", "rrblup", "adddom", "adddom_none"):          # every class, diploid and tetraploid, both setters, scalar and per-trait
        for m in (2, 4):
            out.append(_herit(rng, cls=cls, m=m, t=2, scale_exp=0, script=["H2", "h2", "set_ud", "H2", "set_u", "h2", "H2"]))
    for k_ in (-40, -20, -8, 10):
        out.append(_herit(rng, cls="adddom", m=2, scale_exp=k_))
    for _ in range(110 if quick else 4000):
        out.append(_herit(rng))
    return out

def _mk_gmod(g, route="ctor", u=None, u_d=None):
    """a genomic model of the class named by g["cls"], through the constructor, deepcopy, or coefficient setters"""
    from pybrops.model.gmod.DenseAdditiveLinearGenomicModel import DenseAdditiveLinearGenomicModel
    from pybrops.model.gmod.DenseAdditiveDominanceLinearGenomicModel import DenseAdditiveDominanceLinearGenomicModel
    from pybrops.model.gmod.rrBLUPModel0 import rrBLUPModel0
    b = numpy.array(g["beta"], dtype=float); ua = numpy.array(g["u"] if u is None else u, dtype=float)
    tr = None if g["trait"] is None else numpy.array(g["trait"], dtype=object)
    cls = g["cls"]
    ud = g["u_d"] if u_d is None else u_d
    ud = None if ud is None else numpy.array(ud, dtype=float)
    if cls in ("add", "rrblup"):
        K = DenseAdditiveLinearGenomicModel if cls == "add" else rrBLUPModel0
        if route == "setters":
            gm = K(beta=numpy.zeros_like(b), u_misc=None, u_a=numpy.ones_like(ua), trait=tr); gm.beta = b; gm.u_a = ua
        else: gm = K(beta=b, u_misc=None, u_a=ua, trait=tr)
    else:
        K = DenseAdditiveDominanceLinearGenomicModel
        if route == "setters":
            gm = K(beta=numpy.zeros_like(b), u_misc=None, u_a=numpy.ones_like(ua), u_d=numpy.ones_like(ua), trait=tr)
            gm.beta = b; gm.u_a = ua; gm.u_d = numpy.zeros_like(ua) if ud is None else ud
        else: gm = K(beta=b, u_misc=None, u_a=ua, u_d=ud, trait=tr)
    return copy.deepcopy(gm) if route == "deepcopy" else gm

def _run_herit(case):
    from rngscript import Scripted
    from pybrops.breed.prot.pt.G_E_Phenotyping import G_E_Phenotyping
    from pybrops.breed.prot.pt.TruePhenotyping import TruePhenotyping
    from pybrops.breed.prot.bv.TrueBreedingValue import TrueBreedingValue
    routes = case["routes"]; g = case["gmod"]; t = len(g["u"][0])
    pg = _mk_pop(case["geno"], case["taxa"], case["taxa_grp"], routes["pop"])
    gm = _mk_gmod(g, routes["model"])
    pt = _mk_proto(gm, 1, 1, _var_arg(case["sd_env"], t), _var_arg(case["sd_rep"], t), _var_arg(case["sd_err"], t), Scripted(normals=[]), routes["proto"])
    geno_before = numpy.array(pg.mat, copy=True); labels_before = _labels_snapshot(pg)
    out = {"cls": type(pt.gpmod).__name__, "ploidy": int(pg.ploidy), "steps": []}
    raised = lambda x: isinstance(x, dict) and "exc" in x
    for op in case["steps"]:
        k = op["op"]
        if k == "set_ud":
            out["steps"].append(_try(lambda: setattr(pt.gpmod, "u_d", numpy.array(op["u_d"], dtype=float)) or {"ok": True})); continue
        if k == "set_u":
            out["steps"].append(_try(lambda: setattr(pt.gpmod, "u_a", numpy.array(op["u"], dtype=float)) or {"ok": True})); continue
        val = op["val"] if not isinstance(op["val"], list) else numpy.array(op["val"], dtype=float)
        def seth():
            before = [pt.var_env.copy(), pt.var_rep.copy()]
            mdl = pt.gpmod; coef = [numpy.array(mdl.u_a, copy=True), numpy.array(mdl.beta, copy=True)] + ([numpy.array(mdl.u_d, copy=True)] if hasattr(mdl, "u_d") else [])
            (pt.set_h2 if k == "h2" else pt.set_H2)(val, pg)
            now = [mdl.u_a, mdl.beta] + ([mdl.u_d] if hasattr(mdl, "u_d") else [])
            return {"var_err": [float(x).hex() for x in pt.var_err],
                    "others_unchanged": bool(numpy.array_equal(before[0], pt.var_env) and numpy.array_equal(before[1], pt.var_rep)),
                    "inputs_unchanged": bool(numpy.array_equal(pg.mat, geno_before) and _labels_snapshot(pg) == labels_before
                                             and all(numpy.array_equal(a, b) for a, b in zip(coef, now)))}
        out["steps"].append(_try(seth))
    # the model in force at the end: truth with dominance through both protocols and the breeding values
    mdl = pt.gpmod
    def true_part():
        tp = TruePhenotyping(mdl)
        r = _canon_df(tp.phenotype(pg))
        r["var_err"] = [float(x) for x in tp.var_err]
        r["set_h2_refused"] = raised(_try(lambda: tp.set_h2(0.5, pg))); r["set_H2_refused"] = raised(_try(lambda: tp.set_H2(0.5, pg)))
        r["set_H2_one_refused"] = raised(_try(lambda: tp.set_H2(1.0, pg)))
        return r
    out["true_df"] = _try(true_part)
    out["true_bv"] = _try(lambda: _canon_bv(TrueBreedingValue(mdl).estimate(None, pg)))
    def zero_noise():
        rng = Scripted(normals=copy.deepcopy(case["draws"]))
        z = G_E_Phenotyping(mdl, nenv=1, nrep=1, var_env=None, var_rep=0.0, var_err=numpy.zeros(t), rng=rng)
        r = _canon_df(z.phenotype(pg)); r["left"] = len(rng.q["normal"])
        return r
    out["zero_df"] = _try(zero_noise)
    return out

def _herit_state(case):
    g = case["gmod"]; p = len(g["u"]); t = len(g["u"][0])
    ud = g["u_d"] if g["u_d"] is not None else [[0.0] * t for _ in range(p)]
    return {"u": g["u"], "u_d": ud if g["cls"] in ("adddom", "adddom_none") else None}

def _herit_walk(case, out):
    """(operation, its output, coefficients in force at the operation)"""
    st = _herit_state(case)
    for op, o in zip(case["steps"], out["steps"]):
        if op["op"] == "set_ud": st = dict(st, u_d=op["u_d"])
        elif op["op"] == "set_u": st = dict(st, u=op["u"])
        yield op, o, st
    yield None, None, st

def _raw_values(case, st):
    """from the raw genotypes and effects, exactly: breeding values A@u_a and genotypic values A@u_a + D@u_d (n x t each),
    D = 1 where the dosage is neither 0 nor the ploidy"""
    geno = case["geno"]; m, n, p = len(geno), len(geno[0]), len(geno[0][0]); t = len(st["u"][0])
    A = [[sum(geno[ph][i][l] for ph in range(m)) for l in range(p)] for i in range(n)]
    ga = [[sum(A[i][l] * _F(st["u"][l][j]) for l in range(p)) for j in range(t)] for i in range(n)]
    if st["u_d"] is None: return ga, ga
    gg = [[ga[i][j] + sum(_F(st["u_d"][l][j]) for l in range(p) if A[i][l] not in (0, m)) for j in range(t)] for i in range(n)]
    return ga, gg

def _popvar(vals, t):
    n = len(vals); out = []
    for j in range(t):
        col = [vals[i][j] for i in range(n)]; mu = sum(col) / n
        out.append(sum((x - mu) ** 2 for x in col) / n)
    return out

def _rel_close(a, b, tol=Fraction(1, 2 ** 28)):
    return a == b if b == 0 else abs(a - b) <= tol * abs(b)

def _pred_herit(case, out, bad):
    g = case["gmod"]; t = len(g["u"][0]); n = len(case["geno"][0]); m = len(case["geno"])
    beta = g["beta"]; nf = len(beta)
    loc = [_F(beta[0][j]) + sum(_F(beta[k][j]) for k in range(1, nf)) / nf for j in range(t)]
    if out["ploidy"] != m: bad.append("harness: ploidy %r of a population with %d phases" % (out["ploidy"], m))
    if len(out["steps"]) != len(case["steps"]): bad.append("harness: step count"); return
    for i, (op, o, st) in enumerate(_herit_walk(case, out)):
        if op is None: break
        tag = "step %d (%s, %s): " % (i, "set_" + op["op"] if op["op"] in ("h2", "H2") else op["op"], out["cls"])
        if op["op"] in ("set_ud", "set_u"):
            if "exc" in o: bad.append(tag + "raised %s: %s" % (o["exc"], o["msg"]))
            continue
        ga, gg = _raw_values(case, st)
        var = _popvar(gg if op["op"] == "H2" else ga, t); vname = "var_G" if op["op"] == "H2" else "var_A"
        hv = [_F(x) for x in (op["val"] if isinstance(op["val"], list) else [op["val"]] * t)]
        if any(hv[j] > 1 and var[j] > 0 for j in range(t)):
            if "exc" not in o: bad.append(tag + "accepted a heritability > 1")
            continue
        if "exc" in o: bad.append(tag + "raised %s: %s" % (o["exc"], o["msg"])); continue
        if not o["others_unchanged"]: bad.append(tag + "changed var_env/var_rep")
        if not o["inputs_unchanged"]: bad.append(tag + "modified the population or the model coefficients")
        if len(o["var_err"]) != t: bad.append(tag + "var_err has %d entries for %d traits" % (len(o["var_err"]), t)); continue
        for j in range(t):
            ve = _fh(o["var_err"][j]); want = (1 - hv[j]) / hv[j] * var[j]
            if not _rel_close(ve, want):
                ratio = "undefined" if var[j] + ve == 0 else "%.6g" % float(var[j] / (var[j] + ve))
                bad.append(tag + "var_err[%d] = %.6g, expected (1-%s)/%s * %s = %.6g (%s recomputed from the genotypes and effects = %.6g): %s/(%s+var_err) = %s, target %s"
                           % (j, float(ve), float(hv[j]), float(hv[j]), vname, float(want), vname, float(var[j]), vname, vname, ratio, float(hv[j])))
    ga, gg = _raw_values(case, st)
    taxa = case["taxa"] if case["taxa"] is not None else _autolabels("Taxon", n)
    tnames = g["trait"] if g["trait"] is not None else _autolabels("Trait", t)
    grp = case["taxa_grp"]
    td = out["true_df"]
    if "exc" in td: bad.append("TruePhenotyping raised %s: %s" % (td["exc"], td["msg"]))
    else:
        if td["var_err"] != [0.0] * t: bad.append("TruePhenotyping.var_err is %r" % (td["var_err"],))
        if not (td["set_h2_refused"] and td["set_H2_refused"] and td["set_H2_one_refused"]): bad.append("TruePhenotyping.set_h2 / set_H2 did not refuse")
        if td["cols"] != ["taxa"] + (["taxa_grp"] if grp is not None else []) + tnames: bad.append("TruePhenotyping columns %r" % td["cols"])
        if td["nrow"] != n or td["taxa"] != taxa or (grp is not None and td.get("taxa_grp") != grp): bad.append("TruePhenotyping: one labelled record per taxon expected")
        elif any(v is None or not _close(_fh(v), gg[i][j] + loc[j]) for i in range(n) for j, v in enumerate(td["vals"][i])):
            bad.append("TruePhenotyping value is not the true genotypic value (additive + dominance part + location) of the %s" % out["cls"])
    tb = out["true_bv"]
    if "exc" in tb: bad.append("TrueBreedingValue raised %s: %s" % (tb["exc"], tb["msg"]))
    elif len(tb["mat"]) != n or any(v is None or not _close(_fh(v), ga[i][j] + loc[j]) for i in range(n) for j, v in enumerate(tb["mat"][i])):
        bad.append("TrueBreedingValue is not A @ u_a + location")
    zd = out["zero_df"]
    if "exc" in zd: bad.append("zero-noise phenotype() raised %s: %s" % (zd["exc"], zd["msg"]))
    else:
        if zd["left"] != 0: bad.append("zero-noise phenotype() left %d scripted draws unused" % zd["left"])
        if zd["nrow"] != n or zd["taxa"] != taxa: bad.append("zero-noise phenotype(): one labelled record per taxon expected")
        elif any(v is None or not _close(_fh(v), gg[i][j] + loc[j]) for i in range(n) for j, v in enumerate(zd["vals"][i])):
            bad.append("with zero noise the value is not the true genotypic value (additive + dominance part + location) of the %s" % out["cls"])

def _gm_lit(st):
    if st["u_d"] is None: return "(GAdd %s)" % E.lst2(st["u"], _q)
    return "(GAddDom %s %s)" % (E.lst2(st["u"], _q), E.lst2(st["u_d"], _q))

def _emit_herit(case, out):
    g = case["gmod"]; geno = case["geno"]; m, n, p = len(geno), len(geno[0]), len(geno[0][0]); t = len(g["u"][0])
    head = ("let dos := dosage %d %d %s in let beta := %s in\n  let taxa := %s in let grp := %s in let trait := %s in\n"
            "  let tnames := labels_or_auto \"Trait\"%%string %d trait in\n"
            % (n, p, E.lst3(geno, E.z), E.lst2(g["beta"], _q), _optl(case["taxa"], E.s), _optl(case["taxa_grp"], E.z), _optl(g["trait"], E.s), t))
    parts = ["Z.eqb %s %s" % (E.z(out["ploidy"]), E.z(m))]
    for op, o, st in _herit_walk(case, out):
        if op is None: break
        if op["op"] in ("set_ud", "set_u"): parts.append(E.b("exc" not in o)); continue
        harg = "(HArr %s)" % E.lst(op["val"], _q) if isinstance(op["val"], list) else "(HScalar %s)" % _q(op["val"])
        impl = "None" if "exc" in o else "(Some %s)" % E.lst(o["var_err"], _qh)
        parts.append("h2_agree %s (%s %d %s %s dos %s)" % (impl, "ge_set_H2" if op["op"] == "H2" else "ge_set_h2", t, harg, E.z(m), _gm_lit(st)))
        parts.append(E.b("exc" in o or (o["others_unchanged"] and o["inputs_unchanged"])))
    head += "  let gm := %s in let gvm := gm_gv %d %s dos gm beta in\n" % (_gm_lit(st), t, E.z(m))
    td, tb, zd = out["true_df"], out["true_bv"], out["zero_df"]
    if "exc" in td or "exc" in tb or "exc" in zd: parts.append("false")
    else:
        tg = td.get("taxa_grp", [None] * td["nrow"])
        parts.append("true_agree %s (true_rows %d taxa grp gvm)" % (E.lst([(td["taxa"][i], tg[i], [Fraction(float.fromhex(h)) for h in td["vals"][i]])
                                                                           for i in range(td["nrow"])], _trow), n))
        parts.append("sl_eqb %s (true_cols grp tnames)" % E.lst(td["cols"], E.s))
        parts.append(E.b(td["set_h2_refused"] and td["set_H2_refused"] and td["set_H2_one_refused"]))
        if any(v is None for r in tb["mat"] for v in r) or any(v is None for r in zd["vals"] for v in r) or any(x is None for x in zd["taxa"] + zd["env"] + zd["rep"]): return "false"
        parts.append("qclose_ll %s (gm_bv %d dos gm beta)" % (E.lst2(tb["mat"], _qh), t))
        zg = zd.get("taxa_grp", [None] * zd["nrow"])
        irows = [E.tup(E.s(zd["taxa"][i]), E.opt(zg[i], E.z), E.z(zd["env"][i]), E.z(zd["rep"][i]), E.lst(zd["vals"][i], _qh)) for i in range(zd["nrow"])]
        zeros = "(repeat 0%%Q %d)" % t
        parts.append("pheno_agree [%s]\n     (phenotype %d %d taxa grp gvm 1 [1%%nat] %s %s %s %s)" % ("; ".join(irows), n, t, zeros, zeros, zeros, E.lst2(case["draws"], _q)))
    return "(" + head + "  " + "\n   && ".join(parts) + ")"

def audit_gmod_classes():
    """every concrete class of pybrops.model.gmod must be one the heritability cases build (fail closed on a new class)"""
    import importlib, inspect, pkgutil
    import pybrops.model.gmod as G
    found = set()
    for mi in pkgutil.iter_modules(G.__path__):
        mod = importlib.import_module("pybrops.model.gmod." + mi.name)
        for name, obj in vars(mod).items():
            if inspect.isclass(obj) and obj.__module__ == mod.__name__ and not inspect.isabstract(obj): found.add(name)
    if found != set(GMOD_CLASSES):
        raise RuntimeError("genomic-model audit: concrete classes of pybrops.model.gmod are %s, the heritability cases build %s" % (sorted(found), sorted(GMOD_CLASSES)))
    return {"file": "(genomic-model class audit)", "classes": sorted(found)}


# ================================================================== kernel expressions regenerated from the source
# ================================================================== entry points of the anchored modules (fail closed)
# every public class / method / property / parameter of the four anchored modules is either driven by this module or listed in
# SKIPPED with the reason; a name that is in neither table makes the check fail until it is classified
ANCHORED = {"pybrops.breed.prot.pt.G_E_Phenotyping": "G_E_Phenotyping", "pybrops.breed.prot.pt.TruePhenotyping": "TruePhenotyping",
            "pybrops.breed.prot.bv.MeanPhenotypicBreedingValue": "MeanPhenotypicBreedingValue", "pybrops.breed.prot.bv.TrueBreedingValue": "TrueBreedingValue"}
COVERED = {
    "G_E_Phenotyping": {"__init__": "trials/sessions (every parameter, scalar / array / None forms)", "__copy__": "sessions (copy.copy)", "__deepcopy__": "sessions (copy.deepcopy)",
                        "copy": "proto route copy_m, session copies", "deepcopy": "proto route deepcopy_m, session copies", "gpmod": "sessions (getter; setter with a new model object)",
                        "nenv": "trials (nenv_set), sessions, proto route setters", "nrep": "sessions, proto route setters", "var_env": "setter/getter everywhere",
                        "var_rep": "setter/getter everywhere", "var_err": "setter/getter everywhere; set_h2", "phenotype": "every trial/session (with and without miscout)",
                        "set_h2": "trials, sessions, herit cases (every genomic-model class)", "set_H2": "trials, sessions, herit cases (every genomic-model class)"},
    "TruePhenotyping": {"__init__": "trials/sessions", "__copy__": "sessions", "__deepcopy__": "sessions", "copy": "sessions (method)", "deepcopy": "sessions (method)",
                        "gpmod": "sessions", "var_err": "trials (zeros per trait; read-only)", "phenotype": "every trial / True sessions / herit cases (dominance models)", "set_h2": "trials, herit cases (refusal)", "set_H2": "trials, herit cases (refusal, also for a target of 1)"},
    "MeanPhenotypicBreedingValue": {"__init__": "every estimate (str / list trait_cols, with / without group column)", "taxa_col": "bv route setters", "taxa_grp_col": "bv route setters, sessions",
                                    "trait_cols": "bv route setters, sessions", "estimate": "every trial/table/session (with/without gtobj, miscout)"},
    "TrueBreedingValue": {"__init__": "trials/sessions", "gpmod": "constructor", "estimate": "trials/sessions (ptobj None, with/without miscout)"},
}
SKIPPED = {
    "G_E_Phenotyping.to_hdf5": "persistence round trips are property C16's check", "G_E_Phenotyping.from_hdf5": "persistence round trips are property C16's check",
    "TruePhenotyping.to_hdf5": "persistence round trips are property C16's check", "TruePhenotyping.from_hdf5": "persistence round trips are property C16's check",
    "G_E_Phenotyping.rng": "set through the constructor with the scripted generator (shared by copies: observed through the draw log); generator isolation is property C08",
}
PARAMS = {   # parameters driven (others: self, cls, kwargs = unused catch-all)
    "G_E_Phenotyping.__init__": {"gpmod", "nenv", "nrep", "var_env", "var_rep", "var_err", "rng"}, "G_E_Phenotyping.__deepcopy__": {"memo"}, "G_E_Phenotyping.deepcopy": {"memo"},
    "G_E_Phenotyping.phenotype": {"pgmat", "miscout"}, "G_E_Phenotyping.set_h2": {"h2", "pgmat"}, "G_E_Phenotyping.set_H2": {"H2", "pgmat"},
    "TruePhenotyping.__init__": {"gpmod"}, "TruePhenotyping.__deepcopy__": {"memo"}, "TruePhenotyping.deepcopy": {"memo"}, "TruePhenotyping.phenotype": {"pgmat", "miscout"},
    "TruePhenotyping.set_h2": {"h2", "pgmat"}, "TruePhenotyping.set_H2": {"H2", "pgmat"},
    "MeanPhenotypicBreedingValue.__init__": {"taxa_col", "taxa_grp_col", "trait_cols"}, "MeanPhenotypicBreedingValue.estimate": {"ptobj", "gtobj", "miscout"},
    "TrueBreedingValue.__init__": {"gpmod"}, "TrueBreedingValue.estimate": {"ptobj", "gtobj", "miscout"},
}
def audit_entry_points():
    import importlib, inspect
    problems = []
    for modname, clsname in ANCHORED.items():
        mod = importlib.import_module(modname)
        for name, obj in vars(mod).items():
            if name.startswith("_") or getattr(obj, "__module__", None) != modname: continue
            if not inspect.isclass(obj) or name != clsname:
                if "%s.%s" % (modname, name) not in SKIPPED and not name.startswith("check_is_"):
                    problems.append("unclassified public name %s.%s" % (modname, name))
                continue
            for k, v in vars(obj).items():
                if k.startswith("_") and k not in ("__init__", "__copy__", "__deepcopy__"): continue
                full = "%s.%s" % (clsname, k)
                if k not in COVERED.get(clsname, {}) and full not in SKIPPED:
                    problems.append("unclassified member %s" % full); continue
                fn = v.__func__ if isinstance(v, (classmethod, staticmethod)) else v
                if inspect.isfunction(fn) and full not in SKIPPED:
                    ps = set(inspect.signature(fn).parameters) - {"self", "cls", "kwargs"}
                    if ps != PARAMS.get(full, set()):
                        problems.append("parameters of %s are %s, the drivers know %s" % (full, sorted(ps), sorted(PARAMS.get(full, set()))))
            for k in COVERED.get(clsname, {}):
                if k not in vars(obj): problems.append("%s.%s no longer exists" % (clsname, k))
    if problems:
        raise RuntimeError("entry-point audit of the anchored modules: " + "; ".join(problems))
    return {"file": "(entry-point audit)", "covered": sum(len(v) for v in COVERED.values()), "skipped": len(SKIPPED)}

def translate(repo, gen_dir):
    """regenerate Gen/C14_Kernel.v (kernel expressions of phenotype / set_h2 / set_H2 / the setters / both estimate methods) from
    the current source; fail closed"""
    from translate import c14_kernel
    return [c14_kernel.translate(repo, gen_dir), audit_entry_points(), audit_gmod_classes()]
