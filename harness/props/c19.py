"""C19 — Pareto-front identification and front ranking: correspondence between Model/C19_Pareto.v and
is_pareto_efficient / dominates / the three distance-to-vector transformations, plus the independent predicate."""
import math, copy
from fractions import Fraction
import numpy
import coqemit as E

ID = "C19"
PROPS = "Props/C19.v"
IMPORTS = "From PV Require Import Lib.Common Model.C19_Pareto Model.C19_Tol Gen.C19_Kernel Proofs.C19_Kernel."
SHARD = 80
LEVEL_TEXT = ("Coq theorems over an exact-rational executable model: the pivot filter of is_pareto_efficient (with its index "
              "bookkeeping; termination within npt iterations) marks only non-dominated points and every unmarked point is equalled or "
              "dominated by a marked one, for every finite rectangular point set and every weight vector; the index form is flatnonzero "
              "of the mask; the set of efficient vectors is characterised order-free (hence permutation invariant) and mask/indices "
              "are invariant under positive rescaling of the objectives; dominates is a strict partial order that is Pareto dominance on "
              "feasible pairs and violation order otherwise (feasible beats infeasible); the distance transforms return the squared norm "
              "of the orthogonal residual of the min-max-scaled point (= minimum squared distance to the line; entrywise (x-min)/(max-min), "
              "0 for a constant objective, entries in [0,1]), are invariant to translation of the front and finite when an objective is "
              "constant (all three copies after commit 47ce3c75; refuted for the unguarded variant); the two selection copies are proved "
              "to be the core function with the documented roles of their two vector arguments (objectives signed by obj_wt, distance "
              "to the line spanned by vec_wt) for every sign vector and every non-negative non-zero preference vector (after commit "
              "9b993ed9, which repaired finding C19-trans-roles-swapped; the former code is kept as old_trans_sel and refuted as a "
              "regression witness); the distances are invariant under a change of unit of any objective (column times c > 0); the "
              "distance of a point is exactly 0 iff its scaled point is a non-negative multiple of the preference vector (a point ON "
              "the line: knee point of a symmetric front, point collinear with a preference vector that has zero entries), for all "
              "three functions and for the bodies assembled from the generated kernels. The "
              "kernel expressions of the source (48: weighting, strict pivot comparison, loop guard, pivot recount of the filter; the "
              "body of dominates; per copy of the transformation the signing, shift, range, EXACT zero-range guard, fills, reciprocal, "
              "scaling, projection coefficient, projection and residual; the three assertions of the core copy) are regenerated "
              "from the source on every run (Gen/C19_Kernel.v), the filter loop, dominates and the three transformation bodies "
              "assembled from them are proved equal to the model for all inputs, and the guard/scale/dominance/filter laws are "
              "stated about the generated definitions, so a changed expression breaks the proof build whatever the sampled cases "
              "are. The model is tied to the code by evaluating it (and the bodies assembled from the generated kernels) inside "
              "Coq against the implementation's outputs on generated inputs")
LEVEL_NOTE = ("trusted: Coq kernel + vm_compute; numpy float comparisons/products/differences are exact on the dyadic input grid; the "
              "1/range scaling, the dot products and numpy.linalg.norm are compared in regime T (squared distance within 2^-30(1+|y|) of "
              "the exact rational; for the non-dyadic preference vectors / on-line fronts in addition |distance - sqrt(exact)| <= 2^-40, "
              "Model/C19_Tol.v, so that a result of 7e-9 or NaN where the model gives exactly 0 is a disagreement); float overflow, NaN inputs, ragged/mis-shaped inputs are outside the model; the theorems are about "
              "the Gallina model, the tie to the code is differential on generated inputs plus the regenerated kernel expressions "
              "(harness/translate/c19_kernel.py + pyexpr.py are trusted to translate the located expressions faithfully; statement "
              "order, array plumbing such as fmat[ndpt_mask], numpy.linalg.norm(.., axis=1) and the reductions are matched "
              "verbatim, fail closed)")
TECHNIQUE = "Coq proof over an exact-rational executable model; in-Coq vm_compute correspondence with the implementation"
RULE = ("case = (function, arguments): pareto (fmat, wt, a permutation, a positive column rescale), dom (three (obj, cv) solutions: all 9 "
        "ordered pairs), dist (one of the three transformation functions, mat, sign vector, preference vector, a translation); generated "
        "from one PRNG over styles small-integer grid (ties/duplicates), k/64 grid, collinear front, chain, duplicated points, single "
        "point, constant objective; npt 0..14 (thorough ..40), nobj 1..4; weights of both signs and zero; preference vectors on the grid "
        "{0,1/4,..,3}^nobj (all of {0,1/2,1,2}^2 on a fixed front), plus inputs outside the quantified domain (zero/negative "
        "preference, zero sign vector: AssertionError / NaN compared coarsely). Phase 2: every objective in its own unit 2^e, "
        "e in -40..20 (fronts, point sets, objectives of dominates; weights and rescales 2^-40 / 2^20); style tiny = exact ties "
        "next to differences of 2^-27..2^-45 and constant columns; constraint scores +-2^-40, +-2^-60; memory layouts C / Fortran / "
        "strided view / read-only / integer dtype; scores as float, numpy.float64, 0-d array; extra keyword arguments; the default "
        "ndset_trans and default keyword arguments installed by SelectionProtocol's setters; positional and keyword calls; a "
        "second call on the same array object after an in-place update (translated, points reversed); the front re-expressed in "
        "units 2^-40..2^20 must give the same distances; results must not share memory with inputs and a repeated call must not "
        "depend on the overwritten first result; point sets of 141 and 271 points (indices beyond int8/uint8); every public "
        "definition of the five anchored modules is classified COVERED (with its parameter list) or SKIPPED (reason), fail closed. "
        "Style online (tolerance regime on the distance itself, exact-regime cases unchanged): fronts built as lo_k + range_k * (dyadic "
        "scaled coordinate) whose scaled points include exact multiples t*g of the direction g of the preference vector w*g "
        "(g equal entries = knee points of symmetric fronts, g with zero entries, other dyadic directions; t = 0 .. the corner), "
        "near misses (one coordinate off by 2^-18..2^-40), arbitrary points; magnitudes w in 0.3, 0.6, 0.7, 1/3, 0.1, 0.9, 2/3, "
        "1.7, 0.2, 7.3, 1e-3, 0.35, 2.6 and unrelated non-dyadic entries; ranges 20, 3, 12.5, 2^-20 .. and ranges with more "
        "significant bits than single precision holds; all three functions, translations, units, layouts, sessions as above. "
        "non-trivial = at least two points that are not all "
        "equal (dom: the three solutions are not all identical); distinct by SHA-256 of the case")
TRUSTED = ["float products/differences/comparisons of dyadic inputs (k/64, |x| <= 8, weights m/4, units 2^-40..2^20; the generator verifies "
           "with exact rationals that every product, translation and in-column difference is an exact float) are exact",
           "harness/translate/c19_kernel.py + pyexpr.py translate the located source expressions faithfully (fail closed otherwise)",
           "numpy.linalg.norm, 1.0/range and the dot products are compared in tolerance regime T on the squared distance "
           "(style online: also on the distance, 2^-40 absolute; predicate: 1e-12 (1+|p|), on-line points < 1e-12 (1+|p|))"]
ASSUMPTIONS = ["rectangular fmat/mat with len(wt) = nobj >= 1, finite non-NaN entries, no float overflow",
               "distance transforms: sign entries non-zero and preference vector non-negative non-zero for the predicate "
               "(other inputs are still compared with the model: AssertionError / NaN)"]

WT = [-4.0, -2.0, -1.0, -1.0, -0.5, -0.25, 0.0, 0.25, 0.5, 1.0, 1.0, 1.0, 2.0, 3.0]
PREF = [0.0, 0.25, 0.5, 0.75, 1.0, 1.0, 1.5, 2.0, 3.0]
POS = [0.25, 0.5, 2.0, 3.0, 4.0, 0.75, 2.0 ** -40, 2.0 ** 20, 3 * 2.0 ** -30]
STYLES = ["small", "small", "fine", "collinear", "chain", "dups", "const", "binary", "tiny", "tiny"]
# units an objective may be measured in (powers of two: the exact regime still applies); 0 = unscaled
EXPS = [0, 0, 0, -40, -33, -30, -27, -26, -20, -10, -3, 7, 13, 20]
TINYCV = [2.0 ** -40, -2.0 ** -40, 2.0 ** -60, -2.0 ** -60, 3 * 2.0 ** -30]

LAYOUTS = ["c", "c", "f", "strided", "readonly", "int"]      # how the arrays handed to the library are laid out in memory
CVKINDS = ["float", "float", "npfloat", "np0d"]               # how the constraint scores are passed to dominates

# ------------------------------------------------------------------ generators
def _points(rng, npt, nobj, style):
    if npt == 0: return []
    if style == "small":
        return [[float(rng.randint(0, 3)) for _ in range(nobj)] for _ in range(npt)]
    if style == "binary":
        return [[float(rng.randint(0, 1)) for _ in range(nobj)] for _ in range(npt)]
    if style == "fine":
        return [[rng.randint(-256, 256) / 64.0 for _ in range(nobj)] for _ in range(npt)]
    if style == "collinear":          # a straight front: trade-off between objective 0 and the others
        step = rng.choice([1, 2, 8, 16, 3]) / 64.0
        base = [rng.randint(-64, 64) / 64.0 for _ in range(nobj)]
        sl = [1.0] + [rng.choice([-1.0, -2.0, -0.5, 1.0, 0.0]) for _ in range(nobj - 1)]
        ts = [rng.randint(0, npt) for _ in range(npt)]
        return [[base[k] + sl[k] * step * t for k in range(nobj)] for t in ts]
    if style == "chain":              # totally ordered points
        ts = [rng.randint(0, 5) for _ in range(npt)]
        return [[t / 4.0] * nobj for t in ts]
    if style == "dups":
        pool = [[float(rng.randint(0, 2)) for _ in range(nobj)] for _ in range(max(1, min(3, npt // 2)))]
        return [list(rng.choice(pool)) for _ in range(npt)]
    if style == "const":              # at least one constant objective
        pts = [[rng.randint(-128, 128) / 64.0 for _ in range(nobj)] for _ in range(npt)]
        for k in range(nobj):
            if k == 0 or rng.random() < 0.4:
                c = rng.randint(-64, 64) / 32.0
                for p in pts: p[k] = c
        rng.shuffle(pts)
        return pts
    if style == "tiny":               # exact ties next to differences of 2^-27 .. 2^-45 (far below any tolerance), per objective
        cols = []
        for k in range(nobj):
            r = rng.random()
            base = rng.choice([0.0, 0.0, 1.0, -2.5, rng.randint(-64, 64) / 64.0])
            q = rng.randint(27, 45)
            if r < 0.2: col = [base] * npt
            elif r < 0.75: col = [base + rng.randint(0, 3) * 2.0 ** -q for _ in range(npt)]
            else: col = [rng.randint(-128, 128) / 64.0 for _ in range(npt)]
            cols.append(col)
        return [[cols[k][i] for k in range(nobj)] for i in range(npt)]
    raise ValueError(style)

def _units(rng, rows, nobj, style):
    """express every objective in its own unit 2^e (e in -40..20); returns (rows, exps)"""
    if style == "tiny" or rng.random() < 0.45: return rows, [0] * nobj
    ex = [rng.choice(EXPS) for _ in range(nobj)]
    return [[x * 2.0 ** e for x, e in zip(r, ex)] for r in rows], ex

def _fx(a, op, b):
    """the float operation is exact on these operands"""
    fa, fb = Fraction(a), Fraction(b)
    if op == "*": return Fraction(a * b) == fa * fb
    if op == "+": return Fraction(a + b) == fa + fb
    return Fraction(a - b) == fa - fb

def _exact_rows(rows, mul, shift=None):
    """products with the column multipliers, the optional translation and every difference inside a column are exact floats"""
    if not rows: return True
    for k, m in enumerate(mul):
        col = [r[k] for r in rows]
        if shift is not None:
            if not all(_fx(x, "+", shift[k]) for x in col): return False
            col = col + [x + shift[k] for x in col]
        if not all(_fx(x, "*", m) for x in col): return False
        v = [x * m for x in col]
        if not all(_fx(a, "-", b) for a in (max(v), min(v)) for b in v) or not all(_fx(a, "-", min(v)) for a in v): return False
    return True

def _case_pareto(rng, npt, nobj, style):
    fmat, ex = _units(rng, _points(rng, npt, nobj, style), nobj, style)
    wt = [rng.choice(WT) for _ in range(nobj)]
    if rng.random() < 0.35: wt = [rng.choice([1.0, -1.0]) for _ in range(nobj)]
    if rng.random() < 0.15: wt = [w * 2.0 ** rng.choice([-40, -20, 20]) for w in wt]
    perm = list(range(npt)); rng.shuffle(perm)
    if rng.random() < 0.2: perm = perm[::-1] if perm == sorted(perm) else sorted(perm, reverse=True)
    scale = [rng.choice(POS) for _ in range(nobj)]
    if rng.random() < 0.15: scale = [2.0 ** -40] * nobj
    if not (_exact_rows(fmat, wt) and _exact_rows([[x * c for x, c in zip(r, scale)] for r in fmat], wt)
            and all(_fx(x, "*", c) for r in fmat for x, c in zip(r, scale))):
        scale = [rng.choice([0.25, 0.5, 2.0, 4.0]) for _ in range(nobj)]          # keep every float product exact
    return {"kind": "pareto", "style": style, "nobj": nobj, "fmat": fmat, "wt": wt, "perm": perm, "scale": scale,
            "units": ex, "wt_col": rng.random() < 0.15, "layout": rng.choice(LAYOUTS)}

def _sol(rng, nobj, near=None):
    if near is not None and rng.random() < 0.6:
        o = list(near[0])
        for _ in range(rng.randint(0, 2)):
            o[rng.randrange(nobj)] += rng.choice([-1.0, 1.0, 0.5, -0.5, 0.0])
    else:
        o = [float(rng.randint(0, 3)) for _ in range(nobj)]
    cv = rng.choice([-2.0, -1.0, -0.5, 0.0, 0.0, 0.0, 0.25, 0.5, 1.0, 1.0, 2.0] + TINYCV)
    if near is not None and rng.random() < 0.3: cv = near[1]
    return [o, cv]

def _case_dom(rng, nobj):
    a = _sol(rng, nobj); b = _sol(rng, nobj, a); c = _sol(rng, nobj, b)
    e = rng.choice(EXPS)              # all objectives in a unit 2^e; and now and then objectives that differ by 2^-40 only
    sols = [[[x * 2.0 ** e for x in o], cv] for o, cv in (a, b, c)]
    if rng.random() < 0.2:
        for s_ in sols[1:]:
            k = rng.randrange(nobj); s_[0] = list(sols[0][0]); s_[0][k] = s_[0][k] + rng.choice([-1, 0, 1]) * 2.0 ** (e - 40)
    return {"kind": "dom", "nobj": nobj, "sols": sols, "unit": e, "cvkind": rng.choice(CVKINDS)}

def _case_dist(rng, fn, npt, nobj, style, domain=True):
    mat, ex = _units(rng, _points(rng, npt, nobj, style), nobj, style)
    sign = [rng.choice([1.0, -1.0]) for _ in range(nobj)]
    if rng.random() < 0.12: sign = [rng.choice([1.0, -1.0, 2.0, -0.5, 0.25, -3.0]) for _ in range(nobj)]
    pref = [rng.choice(PREF) for _ in range(nobj)]
    r = rng.random()
    if r < 0.2: pref = [1.0] * nobj
    elif r < 0.3: pref = [0.5] * nobj
    if all(x == 0.0 for x in pref) and domain: pref[rng.randrange(nobj)] = rng.choice(PREF[1:])
    if not domain:
        r = rng.random()
        if r < 0.4: pref = [0.0] * nobj
        elif r < 0.7: pref[rng.randrange(nobj)] = -rng.choice(PREF[1:])
        else: sign = [0.0] * nobj
    shift = [rng.randint(-256, 256) / 64.0 for _ in range(nobj)]
    if rng.random() < 0.5 or not _exact_rows(mat, sign, shift):
        shift = [t * 2.0 ** e for t, e in zip(shift, ex)]                          # a translation in the objective's own unit
    if not _exact_rows(mat, sign, shift): shift = [0.0] * nobj
    if not _exact_rows(mat, sign): sign = [1.0 if x > 0 else -1.0 for x in sign] if any(sign) else sign
    # the same front with every objective expressed in yet another unit 2^e (checked only when all float operations stay exact)
    reunit = [rng.choice([-40, -40, -30, -27, -13, 5, 20]) for _ in range(nobj)]
    if not mat or rng.random() < 0.5 or not _exact_rows([[x * 2.0 ** e for x, e in zip(r, reunit)] for r in mat], sign): reunit = None
    route = "protocol" if fn == "prob" and rng.random() < 0.3 else "direct"
    if route == "protocol" and domain and rng.random() < 0.5: sign, pref = [1.0] * nobj, [1.0] * nobj
    return {"kind": "dist", "fn": fn, "style": style, "nobj": nobj, "mat": mat, "sign": sign, "pref": pref, "shift": shift,
            "units": ex, "layout": rng.choice(LAYOUTS), "extra_kw": rng.random() < 0.1, "route": route, "session": rng.random() < 0.5,
            "reunit": reunit}

FNS = ["core", "prob", "transfn"]

# ---- fronts with points ON the preference line, preference magnitudes that are NOT dyadic (tolerance regime on the distance itself)
NONDY = [0.3, 0.6, 0.7, 1.0 / 3.0, 0.1, 0.9, 2.0 / 3.0, 1.7, 0.2, 7.3, 1e-3, 0.35, 2.6, 0.7, 0.3]
GDIR = [0.0, 0.0, 1.0, 1.0, 1.0, 2.0, 0.5, 3.0, 0.25, 4.0, 1.5]
RANGES = [1.0, 2.0, 4.0, 0.5, 20.0, 10.0, 3.0, 5.0, 0.75, 12.5, 100.0, 2.0 ** -20, 3 * 2.0 ** -30, 2.0 ** 13, 20.0, 6.0,
          # ranges with more significant bits than a float32 holds (a range taken in single precision is off by ~1e-8)
          1.0 + 3 * 2.0 ** -30, 20.0 + 2.0 ** -28, 5.0 - 2.0 ** -33, 1.0 + 3 * 2.0 ** -30, 12.5 + 2.0 ** -27]
RANGES_SIMPLE = [1.0, 2.0, 4.0, 20.0, 10.0, 3.0, 5.0, 100.0, 6.0, 2.0 ** 13]

def _on_line_direction(rng, nobj, w):
    """a dyadic non-negative direction g (not zero) such that every w*g_k is an exact float: the preference vector w*g is then
    EXACTLY proportional to g although its entries are not dyadic"""
    for _ in range(50):
        r = rng.random()
        if r < 0.35: g = [1.0] * nobj                                            # equal preference: knee points of symmetric fronts
        elif r < 0.55 and nobj >= 2:                                             # objectives of no interest (zero entries)
            g = [1.0] * nobj
            for k in rng.sample(range(nobj), rng.randint(1, nobj - 1)): g[k] = 0.0
        else: g = [rng.choice(GDIR) for _ in range(nobj)]
        if any(g) and all(Fraction(w * x) == Fraction(w) * Fraction(x) for x in g): return g
    return [1.0] * nobj

def _case_online(rng, fn, nobj, w=None, generic=False):
    """a front whose min-max-scaled points include exact multiples t*g of the direction of the preference vector w*g (distance
    exactly 0 for every magnitude w), near misses (one coordinate off by 2^-q), the corners, arbitrary points; every column of
    the front is lo_k + range_k * (scaled coordinate), signed, so that the exact scaled coordinates are the dyadic numbers chosen
    here while 1/range_k is in general not a float (ranges 20, 3, 12.5 ...)"""
    F = Fraction
    w = rng.choice(NONDY) if w is None else w
    g = _on_line_direction(rng, nobj, w)
    pref = [w * x for x in g]
    if generic:                                  # unrelated non-dyadic entries: nothing but the origin is on the line
        pref = [rng.choice(NONDY + [0.0, 0.0]) for _ in range(nobj)]
        if not any(pref): pref[rng.randrange(nobj)] = rng.choice(NONDY)
    gmax = max(g); P = 1.0
    while P < gmax: P *= 2.0
    const = [g[k] == 0.0 and rng.random() < 0.25 for k in range(nobj)]         # a constant objective of no interest
    rows = []
    for _ in range(rng.randint(1, 3)):           # points on the line: t * g, entries in [0,1]
        t = F(rng.choice([0.0, 0.25, 0.5, 0.75, 1.0, 1.0, 0.125, 0.625])) / F(P)
        rows.append([t * F(x) for x in g])
    for _ in range(rng.randint(0, 3 if nobj <= 2 else 1)):          # arbitrary points of the unit cube
        rows.append([F(rng.randint(0, 16), 16) for _ in range(nobj)])
    if rng.random() < 0.4 and nobj <= 3:         # a near miss: on the line but for 2^-q in one coordinate
        t = F(rng.choice([0.25, 0.5, 0.75])) / F(P); r = [t * F(x) for x in g]; k = rng.randrange(nobj)
        r[k] = r[k] + rng.choice([-1, 1]) * F(1, 2 ** rng.randint(18, 40))
        if 0 <= r[k] <= 1: rows.append(r)
    for r in rows:
        for k in range(nobj):
            if const[k]: r[k] = F(0)
    for k in range(nobj):                        # every non-constant objective attains 0 and 1 (so the scaled coordinates are the ones above)
        if const[k]: continue
        if not any(r[k] == 1 for r in rows): rows.append([F(1) if j == k else F(0) for j in range(nobj)])
        if not any(r[k] == 0 for r in rows): rows.append([F(0) if j == k or const[j] else F(rng.choice([0.5, 1.0])) for j in range(nobj)])
    rng.shuffle(rows)
    sign = [rng.choice([1.0, -1.0]) for _ in range(nobj)]
    for attempt in range(30):
        if attempt < 25:
            # (the exact rationals of the model are not reduced: long denominators in many columns make the evaluation in Coq slow,
            #  so offsets of 2^-30 ranges are used on fronts of at most 2 objectives and very small ranges on at most 3)
            rg = [rng.choice(RANGES if nobj <= 3 else RANGES_SIMPLE) for _ in range(nobj)]
            lo = [F(rng.randint(-64, 64), 64 if nobj <= 3 else 4) * F(rg[k]) * rng.choice([0, 1, 1, 4])
                  + (F(rng.randint(1, 7), 2 ** 30) * F(rg[k]) if nobj <= 2 and rng.random() < 0.4 else 0) for k in range(nobj)]
            if rng.random() < 0.3: lo = [F(rng.choice([10, 1, 5, -30, 100])) for _ in range(nobj)]
        else:
            rg = [1.0] * nobj; lo = [F(0)] * nobj
        X = [[F(sign[k]) * (lo[k] + F(rg[k]) * r[k]) for k in range(nobj)] for r in rows]
        mat = [[float(x) for x in r] for r in X]
        if any(F(a) != b for ra, rb in zip(mat, X) for a, b in zip(ra, rb)): continue
        shift = [float(F(rng.randint(-256, 256), 4) * F(rg[k])) if rng.random() < 0.8 else 0.0 for k in range(nobj)]
        if rng.random() < 0.3: shift = [rng.choice([64.0, -128.0, 1.0, 0.0]) for _ in range(nobj)]
        if not _exact_rows(mat, sign, shift): shift = [0.0] * nobj
        if _exact_rows(mat, sign, shift): break
    else:
        raise ValueError("no exact front")
    reunit = [rng.choice([-40, -30, -13, 5, 20]) for _ in range(nobj)]
    if rng.random() < 0.6 or not _exact_rows([[x * 2.0 ** e for x, e in zip(r, reunit)] for r in mat], sign): reunit = None
    return {"kind": "dist", "fn": fn, "style": "online", "tol": True, "nobj": nobj, "mat": mat, "sign": sign, "pref": pref, "shift": shift,
            "units": [0] * nobj, "layout": rng.choice(["c", "c", "f", "strided", "readonly"]), "extra_kw": rng.random() < 0.1,
            "route": "protocol" if fn == "prob" and rng.random() < 0.3 else "direct", "session": rng.random() < 0.5, "reunit": reunit}

def _online_fixed():
    """the knee point of a symmetric front under an equal preference of several magnitudes, and a front with a point collinear
    with a preference vector that ignores one objective"""
    out = []
    for fn in FNS:
        for w in (0.3, 0.6, 0.7, 1.0 / 3.0, 0.1, 1.0):
            out.append({"kind": "dist", "fn": fn, "style": "online", "tol": True, "nobj": 2, "mat": [[10.0, 30.0], [20.0, 20.0], [30.0, 10.0]],
                        "sign": [-1.0, -1.0], "pref": [w, w], "shift": [64.0, -128.0]})
            out.append({"kind": "dist", "fn": fn, "style": "online", "tol": True, "nobj": 2, "mat": [[1.0, 7.0], [2.0, 4.0], [3.0, 3.0], [4.0, 1.0], [2.5, 4.0]],
                        "sign": [1.0, 1.0], "pref": [w, 2 * w], "shift": [-3.0, 0.5]})
        for w in (0.7, 0.3, 1.0 / 3.0):
            out.append({"kind": "dist", "fn": fn, "style": "online", "tol": True, "nobj": 3, "mat": [[5.0, 1.0, 1.0], [1.0, 5.0, 3.0], [3.0, 3.0, 5.0], [1.0, 3.0, 3.0]],
                        "sign": [-1.0, 1.0, 1.0], "pref": [0.0, w, w], "shift": [1.0, -2.0, 8.0]})
    return out

def gen_cases(rng, tier):
    cases = []
    quick = tier == "quick"
    # ---- fixed corners: sizes 0/1/2, duplicates, ties in one coordinate, collinear fronts, constant objective
    for nobj in (1, 2, 3):
        cases.append(_case_pareto(rng, 0, nobj, "small"))
        for style in ("small", "fine", "dups"):
            cases.append(_case_pareto(rng, 1, nobj, style))
            cases.append(_case_pareto(rng, 2, nobj, style))
    for fn in FNS:
        for nobj in (1, 2, 3):
            cases.append(_case_dist(rng, fn, 1, nobj, "fine"))
            cases.append(_case_dist(rng, fn, 0, nobj, "fine"))
            for style in ("const", "dups", "collinear", "chain"):
                cases.append(_case_dist(rng, fn, rng.randint(2, 6), nobj, style))
        # every preference vector of the grid {0,1/2,1,2}^2 \ {0} on one fixed front
        front = [[0.0, 2.0], [0.5, 1.75], [1.0, 1.0], [1.5, 0.5], [2.0, 0.0], [1.0, 1.0]]
        for a in (0.0, 0.5, 1.0, 2.0):
            for b in (0.0, 0.5, 1.0, 2.0):
                if a == 0.0 and b == 0.0: continue
                for sign in ([1.0, 1.0], [1.0, -1.0]):
                    cases.append({"kind": "dist", "fn": fn, "style": "grid", "nobj": 2, "mat": front, "sign": sign,
                                  "pref": [a, b], "shift": [0.25, -3.0]})
    # more points than an 8-bit index can count (survivor indices above 127 / 255)
    for npt, style in ((140, "small"), (270, "collinear")) if quick else ((140, "small"), (270, "collinear"), (300, "dups"), (200, "tiny"), (260, "fine")):
        c = _case_pareto(rng, npt, 2, style)
        c["fmat"] = c["fmat"] + [[max(r[0] for r in c["fmat"]) + 1.0, min(r[1] for r in c["fmat"]) - 1.0]]   # a late survivor for sure
        c["perm"] = c["perm"] + [npt]
        if not _exact_rows(c["fmat"], c["wt"]): c["wt"] = [1.0, -1.0]
        cases.append(c)
    nP, nD, nT, nX = (500, 240, 720, 45) if quick else (3000, 1500, 4500, 240)
    for _ in range(nP):
        nobj = rng.choice([1, 2, 2, 2, 3, 3, 4])
        npt = rng.randint(2, 14) if quick or rng.random() < 0.6 else rng.randint(15, 40)
        cases.append(_case_pareto(rng, npt, nobj, rng.choice(STYLES)))
    for _ in range(nD):
        cases.append(_case_dom(rng, rng.choice([1, 2, 2, 3, 4])))
    for i in range(nT):
        nobj = rng.choice([1, 2, 2, 2, 3, 3, 4])
        npt = rng.randint(2, 9) if quick or rng.random() < 0.7 else rng.randint(10, 30)
        cases.append(_case_dist(rng, FNS[i % 3], npt, nobj, rng.choice(STYLES)))
    for i in range(nX):               # outside the quantified domain: zero / negative preference, zero sign vector
        cases.append(_case_dist(rng, FNS[i % 3], rng.randint(1, 5), rng.choice([1, 2, 3]), rng.choice(STYLES), domain=False))
    # points ON the preference line, non-dyadic preference magnitudes (regime T on the distance itself); drawn from a PRNG of their own
    # so that the cases above are the same as before
    import random as _random
    r2 = _random.Random(rng.getrandbits(64))
    online = _online_fixed()
    for i in range(102 if quick else 600):       # (4 objectives: one front per function — the unreduced rationals get long)
        nobj = 4 if i < (3 if quick else 30) else r2.choice([1, 2, 2, 2, 2, 3, 3])
        online.append(_case_online(r2, FNS[i % 3], nobj, w=NONDY[(i // 3) % len(NONDY)] if i % 2 else None, generic=(i % 7 == 6)))
    # spread evenly over the list (hence over the Coq shards: these cases are the expensive ones); the other cases keep their order
    step = max(1, len(cases) // len(online))
    out = []
    for j, c in enumerate(cases):
        out.append(c)
        if j % step == step - 1 and online: out.append(online.pop(0))
    return out + online

# ------------------------------------------------------------------ implementation driver
def _session(case):
    """second call on the SAME array object after an in-place update (translated and the points put in reverse order)"""
    return bool(case.get("session")) and case.get("layout", "c") in ("c", "f", "strided")

def _hx(a):
    return [float(x).hex() for x in numpy.asarray(a, dtype=float).ravel()]

def _arr(rows, nobj, layout="c"):
    a = numpy.array(rows, dtype=float).reshape(len(rows), nobj)
    if layout == "f": return numpy.asfortranarray(a)
    if layout == "strided":           # a non-contiguous view into a larger buffer filled with decoys
        big = numpy.full((2 * len(rows) + 1, 2 * nobj + 1), 7.5); v = big[1::2, 1::2]; v[...] = a; return v
    if layout == "int" and a.size and numpy.all(a == numpy.round(a)) and numpy.all(numpy.abs(a) < 2 ** 31):
        return a.astype(numpy.int64)  # integer-valued objectives handed over as an integer array
    if layout == "readonly": a.flags.writeable = False
    return a

def _vec(v, layout="c"):
    a = numpy.array(v, dtype=float)
    if layout == "strided":
        big = numpy.full(2 * len(v) + 1, -3.25); w = big[1::2]; w[...] = a; return w
    if layout == "readonly": a.flags.writeable = False
    return a

def _shares(out, *ins):
    o = numpy.asarray(out)
    return bool(any(numpy.shares_memory(o, numpy.asarray(i)) for i in ins))

def run_impl(case):
    k = case["kind"]
    if k == "pareto":
        from pybrops.core.util.pareto import is_pareto_efficient
        nobj = case["nobj"]
        lay = case.get("layout", "c")
        f = _arr(case["fmat"], nobj, lay); wt = _vec(case["wt"], lay)
        if case.get("wt_col"): wt = wt.reshape(nobj, 1)
        f0, w0 = f.copy(), wt.copy()
        m = is_pareto_efficient(f, wt, return_mask=True)
        ix = is_pareto_efficient(f, wt, return_mask=False)
        d = is_pareto_efficient(f, wt)
        # results are fresh arrays: scribbling over them changes neither the inputs nor a later call
        alias = _shares(m, f, wt) or _shares(ix, f, wt) or _shares(d, f, wt) or _shares(m, d)
        keep_m, keep_ix = m.copy(), numpy.array(ix).copy()
        if m.size: m[...] = ~m
        if numpy.asarray(ix).size and numpy.asarray(ix).flags.writeable: ix[...] = -1
        again = bool(numpy.array_equal(is_pareto_efficient(f, wt, True), keep_m)
                     and numpy.array_equal(is_pareto_efficient(f, wt, False), keep_ix))
        m, ix = keep_m, keep_ix
        fp = f[numpy.array(case["perm"], dtype=int)] if len(case["perm"]) else f.copy()
        mp = is_pareto_efficient(fp, wt, True)
        fs = f * numpy.array(case["scale"], dtype=float)[None, :]
        ms = is_pareto_efficient(fs, wt, True)
        ixs = is_pareto_efficient(fs, wt, False)
        return {"mask": [bool(x) for x in m], "mask_dtype": str(m.dtype), "mask_shape": list(m.shape),
                "idx": [int(x) for x in ix], "idx_kind": numpy.asarray(ix).dtype.kind, "idx_ndim": int(numpy.asarray(ix).ndim),
                "default": [bool(x) for x in d], "default_dtype": str(numpy.asarray(d).dtype),
                "mask_perm": [bool(x) for x in mp], "mask_scaled": [bool(x) for x in ms], "idx_scaled": [int(x) for x in ixs],
                "unchanged": bool(numpy.array_equal(f, f0) and numpy.array_equal(wt, w0)), "alias": alias, "again": again}
    if k == "dom":
        from pybrops.opt.algo.pymoo_addon import dominates
        ck = case.get("cvkind", "float")
        mk = {"float": float, "npfloat": numpy.float64, "np0d": lambda x: numpy.array(float(x))}[ck]
        sols = [(numpy.array(o, dtype=float), mk(cv)) for o, cv in case["sols"]]
        tab = []
        for (o1, c1) in sols:
            row = []
            for (o2, c2) in sols:
                r = dominates(o1, c1, o2, c2)
                if isinstance(r, numpy.ndarray) and r.shape == () and r.dtype == bool: r = bool(r)
                if not isinstance(r, (bool, numpy.bool_)): raise TypeError("dominates returned %r" % type(r))
                row.append(bool(r))
            tab.append(row)
        return {"tab": tab}
    if k == "dist":
        nobj = case["nobj"]
        lay = case.get("layout", "c")
        mat = _arr(case["mat"], nobj, lay); sign = _vec(case["sign"], lay); pref = _vec(case["pref"], lay)
        m0, s0, p0 = mat.copy(), sign.copy(), pref.copy()
        kw = {"unused_option": 3} if case.get("extra_kw") else {}
        if case["fn"] == "core":
            from pybrops.core.util.trans import trans_ndpt_pseudo_dist
            call = lambda M: trans_ndpt_pseudo_dist(M, objfn_minmax=sign, objfn_pseudoweight=pref, **kw)
        elif case["fn"] == "prob":
            from pybrops.breed.prot.sel.prob.trans import trans_ndpt_to_vec_dist
            if case.get("route") == "protocol":
                # the library's own route: the default ndset_trans (and, for all-ones vectors, the default keyword arguments) that
                # SelectionProtocol's property setters install
                from pybrops.breed.prot.sel.SelectionProtocol import SelectionProtocol
                class _Holder: pass
                h = _Holder(); h.nobj = nobj
                SelectionProtocol.ndset_trans.fset(h, None)
                trans_ndpt_to_vec_dist = h._ndset_trans
                if all(x == 1.0 for x in case["sign"] + case["pref"]):
                    SelectionProtocol.ndset_trans_kwargs.fset(h, None)
                    if sorted(h._ndset_trans_kwargs) != ["obj_wt", "vec_wt"]: raise TypeError("default ndset_trans_kwargs: %r" % sorted(h._ndset_trans_kwargs))
                    sign, pref = h._ndset_trans_kwargs["obj_wt"], h._ndset_trans_kwargs["vec_wt"]
                    s0, p0 = sign.copy(), pref.copy()
                    if sign.tolist() != case["sign"] or pref.tolist() != case["pref"]: raise TypeError("default ndset_trans_kwargs are not all-ones vectors of length nobj")
            call = lambda M: trans_ndpt_to_vec_dist(M, obj_wt=sign, vec_wt=pref, **kw)
        else:
            from pybrops.breed.prot.sel.transfn import trans_ndpt_to_vec_dist as tfn
            call = (lambda M: tfn(M, objfn_wt=sign, wt=pref, **kw)) if nobj % 2 else (lambda M: tfn(M, sign, pref, **kw))
        import warnings
        with warnings.catch_warnings():
            warnings.simplefilter("ignore")
            d = call(mat)
            unchanged = bool(numpy.array_equal(mat, m0) and numpy.array_equal(sign, s0) and numpy.array_equal(pref, p0))
            alias = _shares(d, mat, sign, pref)
            keep = numpy.array(d, dtype=float).copy()
            if numpy.asarray(d).size and numpy.asarray(d).flags.writeable: d[...] = -1.0      # scribble over the result ...
            again = bool(numpy.array_equal(numpy.asarray(call(mat), dtype=float), keep, equal_nan=True))   # ... a later call is unaffected
            d = keep
            du = None
            if case.get("reunit"):
                du = call(numpy.array(case["mat"], dtype=float).reshape(len(case["mat"]), nobj) * numpy.array([2.0 ** e for e in case["reunit"]])[None, :])
            sh = numpy.array(case["shift"], dtype=float)[None, :]
            if _session(case):
                mat[...] = (mat + sh)[::-1]; ds = call(mat)     # the SAME array object, updated in place between the two calls
            else:
                ds = call(mat + sh)
        return {"d": _hx(d), "d_shape": list(numpy.asarray(d).shape), "d_shift": _hx(ds), "unchanged": unchanged,
                "alias": alias, "again": again, "d_unit": None if du is None else _hx(du)}
    raise ValueError(k)

# ------------------------------------------------------------------ Coq emission
def _q(x): return E.q(Fraction(x))
def _fh(h): return float.fromhex(h)

def _obs(hexes):
    v = [_fh(h) for h in hexes]
    if any(not math.isfinite(x) for x in v): return "ONonFinite"
    return "(OVals %s)" % E.lst(v, _q)

def emit_case(case, out):
    k = case["kind"]
    if k == "pareto":
        if "exc" in out: return "false"
        F = case["fmat"]; wt = E.lst(case["wt"], _q)
        Fp = [F[i] for i in case["perm"]]
        Fs = [[Fraction(x) * Fraction(s) for x, s in zip(r, case["scale"])] for r in F]
        parts = ["obl_eqb (pareto_mask %s %s) (Some %s)" % (wt, E.lst2(F, _q), E.lst(out["mask"], E.b)),
                 "onl_eqb (pareto_idx %s %s) (Some %s)" % (wt, E.lst2(F, _q), E.lst(out["idx"], E.nat)),
                 "obl_eqb (pareto_mask %s %s) (Some %s)" % (wt, E.lst2(Fp, _q), E.lst(out["mask_perm"], E.b)),
                 "obl_eqb (pareto_mask %s %s) (Some %s)" % (wt, E.lst2(Fs, _q), E.lst(out["mask_scaled"], E.b)),
                 # the rescaled set through the loop RE-ASSEMBLED FROM THE GENERATED KERNELS (Gen/C19_Kernel.v)
                 "onl_eqb (kern_pareto_idx %s %s) (Some %s)" % (wt, E.lst2(Fs, _q), E.lst(out["idx_scaled"], E.nat))]
        return "(" + "\n   && ".join(parts) + ")"
    if k == "dom":
        if "exc" in out: return "false"
        parts = []
        for i, (o1, c1) in enumerate(case["sols"]):
            for j, (o2, c2) in enumerate(case["sols"]):
                fn_ = "dominates_m" if (i + j) % 2 == 0 else "k_dominates"        # hand model / body generated from the source
                parts.append("Bool.eqb (%s %s %s %s %s) %s" % (fn_, E.lst(o1, _q), _q(c1), E.lst(o2, _q), _q(c2), E.b(out["tab"][i][j])))
        return "(" + "\n   && ".join(parts) + ")"
    if k == "dist":
        fnm = {"core": "trans_core", "prob": "trans_sel_prob", "transfn": "trans_sel_fn"}[case["fn"]]
        sign, pref = E.lst(case["sign"], _q), E.lst(case["pref"], _q)
        M = E.lst2(case["mat"], _q)
        if "exc" in out:
            return "(tres_agree (%s %s %s %s) ORaised)" % (fnm, M, sign, pref)
        Ms = [[Fraction(x) + Fraction(t) for x, t in zip(r, case["shift"])] for r in case["mat"]]
        Ms = E.lst2(Ms[::-1] if _session(case) else Ms, _q)
        # the translated front through the body ASSEMBLED FROM THE GENERATED KERNELS of that copy (Gen/C19_Kernel.v)
        knm = {"core": "kern_core", "prob": "kern_body K_prob", "transfn": "kern_body K_fn"}[case["fn"]]
        extra = ""
        # non-dyadic preference vectors / points on the line: |d - sqrt(model)| <= 2^-40 (Model/C19_Tol.v) on top of the comparison of squares
        ag = "tres_agree_t" if case.get("tol") else "tres_agree"
        if out.get("d_unit") is not None:       # the front in other units, against the MODEL's result for the original front (C19_unit_invariant)
            extra = "\n   && %s (%s %s %s %s) %s" % (ag, fnm, M, sign, pref, _obs(out["d_unit"]))
        return "(%s (%s %s %s %s) %s\n   && %s (%s %s %s %s) %s%s)" % (
            ag, fnm, M, sign, pref, _obs(out["d"]), ag, knm, Ms, sign, pref, _obs(out["d_shift"]), extra)
    return "false"

# ------------------------------------------------------------------ independent predicate
def _fr(rows): return [[Fraction(x) for x in r] for r in rows]

def _dom(p, q):
    """p is at least as good as q in every (weighted, maximised) objective and strictly better in one"""
    return all(a >= b for a, b in zip(p, q)) and any(a > b for a, b in zip(p, q))
def _weak(p, q):
    return all(a >= b for a, b in zip(p, q))

def _pred_pareto(case, out):
    bad = []
    F = _fr(case["fmat"]); w = [Fraction(x) for x in case["wt"]]; n = len(F)
    W = [[a * b for a, b in zip(r, w)] for r in F]
    mask, idx = out["mask"], out["idx"]
    if len(mask) != n or out["mask_shape"] != [n]: return ["mask has length %d for %d points" % (len(mask), n)]
    if out["mask_dtype"] != "bool": bad.append("mask dtype %s" % out["mask_dtype"])
    if out["idx_kind"] not in "iu" or out["idx_ndim"] != 1: bad.append("index form is not a 1-d integer array")
    for i in range(n):
        if mask[i]:
            js = [j for j in range(n) if _dom(W[j], W[i])]
            if js: bad.append("point %d is marked efficient but point %d dominates it" % (i, js[0]))
        else:
            if not any(mask[j] and _weak(W[j], W[i]) for j in range(n)):
                bad.append("point %d is unmarked but no marked point equals or dominates it" % i)
    if sorted(idx) != [i for i in range(n) if mask[i]] or len(set(idx)) != len(idx):
        bad.append("mask and index forms disagree: idx=%s mask=%s" % (idx, [i for i in range(n) if mask[i]]))
    if out["default"] != mask or out["default_dtype"] != "bool": bad.append("default call does not return the mask")
    eff = lambda rows, m: sorted(set(tuple(r) for r, b in zip(rows, m) if b))
    Wp = [W[i] for i in case["perm"]]          # (weighted) objective vectors: with a zero weight distinct rows coincide
    if len(out["mask_perm"]) != n or eff(Wp, out["mask_perm"]) != eff(W, mask):
        bad.append("set of efficient vectors changes with the order of the points")
    if len(out["mask_scaled"]) != n or eff(W, out["mask_scaled"]) != eff(W, mask):
        bad.append("set of efficient vectors changes under positive rescaling %s of the objectives" % case["scale"])
    if sorted(out["idx_scaled"]) != [i for i in range(n) if out["mask_scaled"][i]]:
        bad.append("mask and index forms disagree on the rescaled set")
    if not out["unchanged"]: bad.append("input arrays were modified")
    if out.get("alias"): bad.append("a result shares memory with an input (or the two mask results with each other)")
    if not out.get("again", True): bad.append("a repeated call on the same inputs gives a different result after the first result was overwritten")
    return bad

def _pred_dom(case, out):
    bad = []
    sols = [([Fraction(x) for x in o], Fraction(cv)) for o, cv in case["sols"]]
    tab = out["tab"]
    for i, (o1, c1) in enumerate(sols):
        for j, (o2, c2) in enumerate(sols):
            f1, f2 = c1 <= 0, c2 <= 0
            if f1 and f2: want = all(a <= b for a, b in zip(o1, o2)) and any(a < b for a, b in zip(o1, o2))   # minimisation
            elif f1 and not f2: want = True
            elif f2 and not f1: want = False
            else: want = c1 < c2
            if tab[i][j] != want:
                bad.append("dominates(sol%d, sol%d) = %s, expected %s (cv %s vs %s)" % (i, j, tab[i][j], want, c1, c2))
    for i in range(3):
        if tab[i][i]: bad.append("dominates is not irreflexive")
        for j in range(3):
            if tab[i][j] and tab[j][i]: bad.append("dominates is not asymmetric")
            for l in range(3):
                if tab[i][j] and tab[j][l] and not tab[i][l]: bad.append("dominates is not transitive")
    return bad

def _geo2(mat, mul, line):
    """squared distance of every min-max-normalised point of (mat * mul) to the line spanned by `line` (closed form)"""
    n = len(mat); m = len(mul)
    V = [[mat[i][k] * mul[k] for k in range(m)] for i in range(n)]
    N = [[Fraction(0)] * m for _ in range(n)]
    for k in range(m):
        col = [V[i][k] for i in range(n)]
        lo, hi = min(col), max(col)
        for i in range(n):
            N[i][k] = Fraction(0) if hi == lo else (col[i] - lo) / (hi - lo)
    LL = sum(l * l for l in line)
    return [sum(x * x for x in p) - sum(x * l for x, l in zip(p, line)) ** 2 / LL for p in N]

def _scaled(mat, mul):
    """the min-max-scaled points of (mat * mul), exact: (x - min)/(max - min) per objective, 0 for a constant objective"""
    n = len(mat); m = len(mul)
    V = [[mat[i][k] * mul[k] for k in range(m)] for i in range(n)]
    N = [[Fraction(0)] * m for _ in range(n)]
    for k in range(m):
        col = [V[i][k] for i in range(n)]
        lo, hi = min(col), max(col)
        for i in range(n):
            if hi != lo: N[i][k] = (col[i] - lo) / (hi - lo)
    return N

def _on_line(p, line):
    """p is a multiple of the (non-negative, non-zero) vector `line`: all 2x2 minors vanish"""
    m = len(p)
    return all(p[a] * line[b] == p[b] * line[a] for a in range(m) for b in range(a + 1, m))

TIGHT = Fraction(1, 10 ** 12)
def _tight(d, want, scale):
    """|d - sqrt(want)| <= 1e-12 * scale, decided exactly"""
    e = TIGHT * scale; d = Fraction(d)
    return d >= 0 and want <= (d + e) ** 2 and (d <= e or (d - e) ** 2 <= want)

def _in_domain(case):
    return (len(case["mat"]) >= 1 and all(x != 0 for x in case["sign"]) and all(x >= 0 for x in case["pref"])
            and any(x > 0 for x in case["pref"]))

def _close2(d, want):
    return d >= 0 and abs(Fraction(d) ** 2 - want) <= Fraction(1, 10 ** 9) * (1 + want)

def _pred_dist(case, out):
    if not _in_domain(case):
        return []
    n = len(case["mat"])
    d = [_fh(h) for h in out["d"]]; ds = [_fh(h) for h in out["d_shift"]]
    if _session(case): ds = ds[::-1]          # the second call saw the points in reverse order
    if out["d_shape"] != [n] or len(ds) != n: return ["output shape %s for %d points" % (out["d_shape"], n)]
    bad = []
    if any(not math.isfinite(x) for x in d + ds):
        const = [k for k in range(case["nobj"]) if len(set(r[k] for r in case["mat"])) == 1]
        return ["non-finite distance (constant objectives: %s)" % const]
    mat = _fr(case["mat"]); sign = [Fraction(x) for x in case["sign"]]; pref = [Fraction(x) for x in case["pref"]]
    # the property: objectives signed by the sign vector, min-max scaled, distance to the line spanned by the preference vector
    want = _geo2(mat, sign, pref)
    # (all three functions alike: the selection copies had the two vectors exchanged before commit 9b993ed9 — finding
    #  C19-trans-roles-swapped, repaired; nothing is excused here any more)
    # a point whose scaled coordinates are a multiple of the preference vector lies ON the line: its distance is 0 up to rounding of
    # the scaled coordinates (1e-12 * (1 + |p|) leaves four orders of magnitude above that; a difference of squares leaves 7e-9)
    N = _scaled(mat, sign)
    scale = [1 + Fraction(math.sqrt(float(sum(x * x for x in p)))) for p in N]
    for name, dd in (("", d), (" after translation by %s" % case["shift"], ds)):
        on = [i for i in range(n) if _on_line(N[i], pref) and not dd[i] < 1e-12 * float(scale[i])]
        if on:
            i = on[0]
            bad.append("point %d (scaled %s) is a multiple of the preference vector %s, i.e. ON the line, but its distance%s is %r (must be < 1e-12)" % (
                i, [str(x) for x in N[i]], case["pref"], name, dd[i]))
        off = [i for i in range(n) if not _tight(dd[i], want[i], scale[i])]
        if off and not on:
            i = off[0]
            bad.append("distance of point %d%s is %r, the geometric definition gives %r: off by more than 1e-12" % (i, name, dd[i], math.sqrt(want[i])))
    miss = [i for i in range(n) if not _close2(d[i], want[i])]
    if miss:
        i = miss[0]
        bad.append("distance of point %d is %r, geometric definition (objectives signed by the sign vector, distance to the "
                   "preference vector) gives sqrt(%s) = %r" % (i, d[i], want[i], math.sqrt(want[i])))
    for i in range(n):
        if not _close2(ds[i], want[i]):
            bad.append("distance of point %d changes under translation by %s%s: %r vs %r" % (
                i, case["shift"], " (same array updated in place, points reversed)" if _session(case) else "", ds[i], d[i])); break
    if out.get("d_unit") is not None:
        du = [_fh(h) for h in out["d_unit"]]
        if len(du) != n or any(not math.isfinite(x) for x in du) or any(not _close2(du[i], want[i]) or not _tight(du[i], want[i], scale[i]) for i in range(n)):
            bad.append("distances change when the objectives are expressed in units 2^%s: %r vs %r" % (case["reunit"], du[:4], d[:4]))
    if not out["unchanged"]: bad.append("input arrays were modified")
    if out.get("alias"): bad.append("the result shares memory with an input")
    if not out.get("again", True): bad.append("a repeated call on the same inputs gives a different result after the first result was overwritten")
    return bad

def pred(case, out):
    """the property, stated directly on the implementation's outputs (independent of the Coq model)"""
    k = case["kind"]
    if "exc" in out:
        if k == "dist" and not _in_domain(case): return []
        return ["implementation raised %s: %s" % (out["exc"], out["msg"])]
    bad = {"pareto": _pred_pareto, "dom": _pred_dom, "dist": _pred_dist}[k](case, out)
    seen = []
    for b in bad:
        if b not in seen: seen.append(b)
    return seen[:8]

def classify(case, out, clauses):
    return None          # no known finding is open for C19 (C19-trans-nan and C19-trans-roles-swapped are repaired)

def _rows(case):
    return case["fmat"] if case["kind"] == "pareto" else case.get("mat", [])

def nontrivial(case, out):
    if case["kind"] == "dom":
        s = case["sols"]; return s[0] != s[1] or s[1] != s[2]
    rows = _rows(case)
    return len(rows) >= 2 and any(r != rows[0] for r in rows) and "exc" not in out

def describe(case, out):
    k = case["kind"]
    d = {"kind": k if k != "dist" else "dist/" + case["fn"], "nobj": case["nobj"], "raised": "exc" in out}
    if k != "dom":
        n = len(_rows(case))
        d["npt"] = "0" if n == 0 else "1" if n == 1 else "2-5" if n <= 5 else "6-14" if n <= 14 else "15+"
        d["style"] = case.get("style", "?")
        ex = case.get("units", [0])
        d["units"] = "2^0" if not any(ex) else ("<=2^-27" if min(ex) <= -27 else "other")
        d["layout"] = case.get("layout", "c")
    if k == "pareto" and "mask" in out:
        d["efficient"] = "all" if all(out["mask"]) else ("one" if sum(out["mask"]) == 1 else "some")
        d["weights"] = "zero-in" if any(x == 0 for x in case["wt"]) else ("mixed-sign" if len(set(x > 0 for x in case["wt"])) > 1 else "same-sign")
    if k == "dist":
        d["domain"] = _in_domain(case)
        d["regime"] = "T on the distance (non-dyadic preference)" if case.get("tol") else "E/T on the square"
        d["constant_objective"] = len(case["mat"]) > 0 and any(len(set(r[j] for r in case["mat"])) == 1 for j in range(case["nobj"]))
    if k == "dom":
        d["feasible"] = "".join("F" if cv <= 0 else "I" for _, cv in case["sols"])
    return d

# ------------------------------------------------------------------ entry points of the anchored modules (fail closed)
COVERED = {   # file -> {function: parameters}; each is driven by run_impl with every parameter (positional and keyword forms)
    "pybrops/core/util/pareto.py": {"is_pareto_efficient": ["fmat", "wt", "return_mask"]},
    "pybrops/core/util/trans.py": {"trans_ndpt_pseudo_dist": ["ndptmat", "objfn_minmax", "objfn_pseudoweight"]},
    "pybrops/breed/prot/sel/prob/trans.py": {"trans_ndpt_to_vec_dist": ["mat", "obj_wt", "vec_wt"]},
    "pybrops/breed/prot/sel/transfn.py": {"trans_ndpt_to_vec_dist": ["mat", "objfn_wt", "wt"]},
    "pybrops/opt/algo/pymoo_addon.py": {"dominates": ["obj1", "cv1", "obj2", "cv2"]},
}
_NOT_C19 = "not named by the property (no Pareto identification, dominance or distance-to-vector transformation)"
SKIPPED = {
    "pybrops/breed/prot/sel/prob/trans.py": {n: _NOT_C19 + "; latent-vector transformation of the selection problems"
                                             for n in ("trans_identity", "trans_sum", "trans_dot", "trans_empty", "trans_decnvec_sum_eq")},
    "pybrops/breed/prot/sel/transfn.py": {n: _NOT_C19 + "; legacy objective transformation"
                                          for n in ("trans_sum", "trans_dot", "trans_flatten", "trans_inbmax_penalty", "trans_sum_inbmax_penalty",
                                                    "trans_identity_unconstrained", "trans_max_inbreeding_constraint")},
    "pybrops/opt/algo/pymoo_addon.py": dict(
        {"tiled_choice": _NOT_C19 + "; sampling helper"},
        **{n: _NOT_C19 + "; pymoo operator class (the hill climbers CALL dominates; their search loop is not part of this property)"
           for n in ("SubsetRandomSampling", "ReducedExchangeCrossover", "ReducedExchangeMutation", "IntegerSimulatedBinaryCrossover",
                     "IntegerPolynomialMutation", "MultiObjectiveStochasticHillClimberMutation",
                     "MultiObjectiveSteepestDescentHillClimberMutation", "MultiObjectiveStochasticDescentHillClimberMutation",
                     "StochasticHillClimberMutation", "MutatorA", "MutatorB", "MutatorF")}),
}

def _entry_points(repo):
    """every public top-level function/class of the anchored modules is either driven (COVERED, with exactly the parameters the
    driver passes) or listed in SKIPPED with a reason; anything new or re-parametrised fails the check until it is classified.
    Also: SelectionProtocol still takes its default ndset_trans from sel/prob/trans.py (the route run_impl uses)."""
    import ast, os
    from translate import pyexpr as P
    for rel, cov in COVERED.items():
        tree = P.parse_file(repo, rel)
        seen = {}
        for n in tree.body:
            if isinstance(n, (ast.FunctionDef, ast.AsyncFunctionDef, ast.ClassDef)) and not n.name.startswith("_"):
                seen[n.name] = [a.arg for a in n.args.args] + [a.arg for a in n.args.kwonlyargs] if not isinstance(n, ast.ClassDef) else None
        skip = SKIPPED.get(rel, {})
        for name, params in seen.items():
            if name in cov:
                if params != cov[name]:
                    raise P.Untranslatable("%s: %s now takes %s (the driver passes %s): extend the generators" % (rel, name, params, cov[name]))
            elif name not in skip:
                raise P.Untranslatable("%s: new public definition %s is neither driven by the C19 check nor listed in SKIPPED" % (rel, name))
        for name in list(cov) + list(skip):
            if name not in seen:
                raise P.Untranslatable("%s: %s has disappeared" % (rel, name))
    sp = P.parse_file(repo, "pybrops/breed/prot/sel/SelectionProtocol.py")
    imp = [n for n in ast.walk(sp) if isinstance(n, ast.ImportFrom) and any(a.name == "trans_ndpt_to_vec_dist" for a in n.names)]
    if len(imp) != 1 or imp[0].module != "pybrops.breed.prot.sel.prob.trans" or any(a.asname for a in imp[0].names):
        raise P.Untranslatable("SelectionProtocol no longer imports trans_ndpt_to_vec_dist from pybrops.breed.prot.sel.prob.trans")

def translate(repo, gen_dir):
    """regenerate Gen/C19_Kernel.v (kernel expressions of is_pareto_efficient, dominates and the three distance transformations)
    from the current source; fail closed"""
    from translate import c19_kernel
    _entry_points(repo)
    return [c19_kernel.translate(repo, gen_dir)]

def shrink(case, fails):
    """drop points while the predicate still fails"""
    if case["kind"] == "dom": return case
    key = "fmat" if case["kind"] == "pareto" else "mat"
    cur = copy.deepcopy(case)
    i = 0
    while len(cur[key]) > 1 and i < len(cur[key]):
        t = copy.deepcopy(cur)
        del t[key][i]
        if case["kind"] == "pareto":
            t["perm"] = [p - (p > i) for p in t["perm"] if p != i]
        if fails(t): cur = t
        else: i += 1
    return cur
