"""C02 — realised recombination and segregation match the crossover probabilities.
Correspondence between Model/C01_Meiosis.v (imported) + Model/C02_Dist.v + Model/C02_Check.v and
pybrops.breed.prot.mate.util (mat_meiosis/mat_dh/mat_mate), pybrops.core.util.mate (dense_*), the seven mating protocols
(last meiosis), DenseGeneticMappableMatrix.interp_xoprob (+ StandardGeneticMap/ExtendedGeneticMap.gdist1g, Haldane/Kosambi),
DenseExpectedMaximumBreedingValueMatrix.from_gmod; plus the independent predicate (deterministic per-marker reference and a
statistical monitor on real PCG64 streams with exact binomial acceptance intervals)."""
import math
from fractions import Fraction
import numpy
import coqemit as E
from rngscript import Scripted, ScriptExhausted

ID = "C02"
PROPS = "Props/C02.v"
IMPORTS = "From PV Require Import Lib.Common Model.C01_Meiosis Model.C02_Dist Model.C02_Check Model.C11_MapFn."
SHARD = 24
CASE_TIMEOUT = 300
LEVEL_TEXT = ("Coq theorems over the C01 meiosis model (crossover indicator = draw < xoprob, source copy = running parity): for independent "
              "draws, each uniform on a grid of N points (numpy: N = 2^53), the crossover indicators are independent Bernoulli with "
              "probability ceil(xoprob*N)/N (within [0, 1/N) of xoprob, equal on grid points such as 1/2); hence for every probability vector, "
              "every marker count and every pair of markers: P(adjacent markers from different copies) = xoprob_j, P(markers i<j from "
              "different copies) = (1 - prod_{i<k<=j}(1 - 2 xoprob_k))/2, which over the reals is the Haldane function of the summed "
              "distance when xoprob_k = haldane(d_k); P(copy 1 at marker j) = 1/2 as soon as some marker k <= j has xoprob 1/2; a 1/2 entry "
              "strictly after i and up to j makes the copies at i and j independent (each of the four combinations has probability 1/4 "
              "after a leading 1/2); every complete crossover pattern has the product probability (crossover events are independent), "
              "gamete i depends on row i of the uniform matrix only and different rows give independent gametes; a parent whose copies "
              "differ at every marker reveals the source copy of its gametes. The model is tied to the code by evaluating it inside Coq "
              "on scripted boundary draws and on real PCG64 draws (exact rationals of the binary64 values) against mat_*/dense_* outputs, "
              "the last meiosis of all seven mating protocols, interp_xoprob (1/2 exactly at chromosome starts, Coq-Interval enclosure "
              "of the map function elsewhere) and the expected-maximum-breeding-value matrix. Independently of the generated cases, the BODY of "
              "mat_meiosis/dense_meiosis (shape and range of the draws, the comparison draw < xoprob, starting phase and index, segment copy, "
              "phase toggle, statement order, row of the draws per gamete), mat_dh/mat_mate and their dense_ copies, both map functions, the "
              "distance expressions of gdist1g (+inf at chromosome starts, this - previous elsewhere) and the wiring of rprob1g/interp_xoprob/"
              "from_gmod are regenerated from the source on every run (Gen/C02_Kernel.v), proved equal to the C01 model (segment-copy loop = "
              "per-marker gamete, by induction), and the rate/segregation/provenance/row-indexing/Haldane-composition theorems are restated about "
              "the generated definitions (C02_kernel_*); sessions: the k-th meiosis call of any sequence of calls on one generator equals the "
              "meiosis of the state handed to call k on the k-th matrix of draws (no stale state); stored probabilities outside [0,1] act as "
              "never/always, the effective probability is monotone in the stored one and stays >= 1/2 for stored values >= 1/2 (no clipping)")
LEVEL_NOTE = ("trusted: Coq kernel + vm_compute, classical reals, Coq-Interval; numpy's PCG64/uniform produce independent draws uniform on "
              "{k/2^53} (the convergence claim for the *real* streams rests on this; the monitor only samples it at fixed seeds); "
              "the statistical monitor is supporting evidence (exact two-sided binomial acceptance intervals, per-statistic alpha 1e-14), "
              "not a proof; for multi-stage protocols only the last meiosis is observed (earlier ones are the same function, checked by C01); "
              "Kosambi is claimed for adjacent markers only; theorems are about the Gallina model; the tie to the code is differential plus "
              "the statement-level translator harness/translate/c02_kernel.py (trusted, fail closed: an unrecognised statement in the translated "
              "functions is reported as a broken correspondence); numpy.unique/zip bookkeeping of gdist1g and scipy's interpolation are compared "
              "only dynamically")
TECHNIQUE = ("Coq proof (finite product measures over Q and R, Fourier/sign expansion) over the C01 executable model; in-Coq vm_compute "
             "correspondence with scripted and real draws; statistical monitor with exact binomial budgets")
ALPHA = 1e-14
RULE = ("entry points are enumerated at run time (inspect/pkgutil over the anchored modules; a new public function, protocol class, method or "
        "parameter fails the check until classified in COVERED/SKIPPED); lifecycle: protocol cases with non-default progeny/family counters, miscout, "
        "generator passed by constructor | rng setter | global_prng default, genotype matrix direct | copy | deepcopy | select_taxa | mat setter, "
        "sessions (an earlier mate() on the same protocol and matrix with other crossover probabilities, then vrnt_xoprob replaced by setter | in "
        "place | new object) and second-generation calls (progeny of an earlier call as parents: the progeny must carry the parents' xoprob); map "
        "cases with an earlier interp_xoprob of the same matrix on another map/function, gaps of 2^-40..1e-9 Morgan next to exact zeros, gaps up "
        "to 6 Morgans, base-pair-scale physical positions, > 255 markers, and rprob1g/rprob1p/mapfn(gdist1g|gdist1p)/interp_genpos compared bit "
        "for bit with what interp_xoprob stored; util cases with 130-300 markers/individuals, genotype dtypes int8|int16|int64|uint8, selection "
        "dtypes int64|int32|intp|uint16, crossover probabilities outside [0,1] and below the 2^-53 grid; aliasing: results are fresh writable arrays "
        "(writing into one layer changes neither the other layer nor an input), mate() leaves matrix, xoprob and xconfig unchanged; "
        "case kinds: util (mat_/dense_ meiosis|dh|mate; parents with distinct allele codes per copy; binary64 xoprob from {0, 5e-324, 2^-53, 2^-10, "
        "0.1, 1/4, 1/3, 1/2, 1-2^-10, 1-2^-53, 1, random}; draws scripted on the 2^-53 grid at the comparison boundary (smallest grid point >= p: no "
        "crossover, the one below: crossover), 0 and 1-2^-53, or real PCG64; all 2^m crossover patterns for m <= 5/8), proto (the seven "
        "protocols, distinct founders, scripted draws, provenance of the last meiosis), map (Standard|Extended map, M|cM, Haldane|Kosambi, "
        "phased|unphased matrix, markers at/between/outside knots, duplicate positions, 1-4 chromosomes incl. single-marker chromosomes), embv "
        "(from_gmod with scalar/array nprogeny, nrep, 1-2 traits, scripted draws), stat (monitor: 13 targets x probability layouts incl. "
        "map-derived Haldane/Kosambi vectors, zeros and ones; quick 4e4, thorough 2e5 gametes per case at fixed PCG64 seeds; every statistic is a "
        "binomial count tested against its exact two-sided acceptance interval at alpha = 1e-14, so that the union bound over the < 4e4 "
        "(quick) / < 1e5 (thorough) statistics stays below 1e-9); non-trivial = a crossover fires and one does not (util/proto), >= 2 "
        "chromosomes with interior markers (map), > 0 gametes (stat); distinct by SHA-256 of the case")
TRUSTED = ["numpy Generator.uniform(0,1) on PCG64 returns k/2^53 with k uniform on [0,2^53) and independent across entries (checked: every "
           "logged draw is on that grid; independence/uniformity only sampled by the monitor)",
           "scipy.stats.binom cdf/sf/ppf used to compute the acceptance intervals of the monitor",
           "rngscript.Scripted subclass handing out scripted draws; monkey-patched module attribute global_prng in the EMBV module",
           "Model/C01_Meiosis.v and Model/C11_MapFn.v (owned by C01/C11) are imported unchanged",
           "harness/translate/c02_kernel.py (ast -> Gen/C02_Kernel.v, statement-level for the meiosis functions, fail closed) and translate/pyexpr.py"]
ASSUMPTIONS = ["crossover probabilities are finite binary64 values (the theorems hold for every rational, also outside [0,1], where the effective probability is clipped)",
               "genotype arrays have two phases; parents of the observed meiosis carry distinct allele codes on their two copies",
               "genetic maps are monotone within a chromosome (non-negative gaps); markers lie on chromosomes present in the map"]

D53 = 2 ** 53
PROTOS = ["SelfCross", "TwoWayCross", "TwoWayDHCross", "ThreeWayCross", "ThreeWayDHCross", "FourWayCross", "FourWayDHCross"]
NPAR = {"SelfCross": 1, "TwoWayCross": 2, "TwoWayDHCross": 2, "ThreeWayCross": 3, "ThreeWayDHCross": 3, "FourWayCross": 4, "FourWayDHCross": 4}
PREFIX = {"SelfCross": "sx", "TwoWayCross": "2w", "TwoWayDHCross": "dh", "ThreeWayCross": "3w", "ThreeWayDHCross": "dh", "FourWayCross": "4w", "FourWayDHCross": "dh"}
UTILS = [(m, f) for m in ("mat", "dense") for f in ("meiosis", "dh", "mate")]
XOSET = [0.0, 5e-324, 2.0 ** -60, 2.0 ** -53, 2.0 ** -40, 2.0 ** -10, 0.1, 0.25, 1.0 / 3.0, 0.5, 0.5 + 2.0 ** -53, 0.75, 1.0 - 2.0 ** -10,
         1.0 - 2.0 ** -53, 1.0, 1.5, -0.25]

def fx(x): return float(x).hex()
def xf(s): return float.fromhex(s)

# ------------------------------------------------------------------ generators handing out / logging draws
def _shape(size):
    return () if size is None else ((int(size),) if isinstance(size, (int, numpy.integer)) else tuple(int(x) for x in size))

class Pool(Scripted):
    """scripted draws: one flat pool of numerators over 2^53, carved in request order"""
    def __init__(self, pool):
        super().__init__()
        self.pool = pool; self.pos = 0; self.shapes = []; self.ranges = []
    def uniform(self, low=0.0, high=1.0, size=None):
        shape = _shape(size); k = 1
        for d in shape: k *= d
        self.shapes.append(list(shape)); self.ranges.append([float(low), float(high)])
        if self.pos + k > len(self.pool):
            raise ScriptExhausted("uniform pool exhausted: request %r at position %d of %d" % (shape, self.pos, len(self.pool)))
        v = self.pool[self.pos:self.pos + k]; self.pos += k
        a = numpy.array([x / D53 for x in v], dtype=float)           # exact: x < 2^53
        return float(a.reshape(())) if size is None else a.reshape(shape)

class Real(Scripted):
    """real PCG64 draws; keep = log every matrix (small cases), otherwise only the last two"""
    def __init__(self, seed, keep=True):
        super().__init__()
        self.g = numpy.random.Generator(numpy.random.PCG64(seed)); self.shapes = []; self.ranges = []; self.drawn = []; self.keep = keep
    def uniform(self, low=0.0, high=1.0, size=None):
        self.shapes.append(list(_shape(size))); self.ranges.append([float(low), float(high)])
        a = self.g.uniform(low, high, size)
        self.drawn.append(a)
        if not self.keep and len(self.drawn) > 2: self.drawn.pop(0)
        return a

def _num53(a):
    """a 2-D array of draws as rows of numerators over 2^53 (exact), or None if some draw is off the grid [0,1)"""
    a = numpy.asarray(a, dtype=float)
    k = a * float(D53)                                              # exact: scaling by a power of two
    if a.ndim != 2 or not (numpy.all(k == numpy.floor(k)) and numpy.all(k >= 0) and numpy.all(k < D53)): return None
    return [[int(x) for x in r] for r in k]

# ------------------------------------------------------------------ case generators
def _xoprob(rng, p, mode):
    nchr = rng.randint(1, 3)
    starts = set([0] + (rng.sample(range(1, p), min(nchr - 1, p - 1)) if p > 1 else []))
    xo = []
    for j in range(p):
        if mode == "map": xo.append(0.5 if j in starts else rng.choice([0.0, 2.0 ** -10, 0.01, 0.1, 0.25, 0.3, 0.5 - 2.0 ** -20, rng.random() * 0.5]))
        elif mode == "set": xo.append(rng.choice(XOSET))
        elif mode == "zeros": xo.append(0.0 if rng.random() < 0.6 else rng.choice(XOSET))
        else: xo.append(rng.random())
    return xo, sorted(starts)

def _geno(rng, n, p, mode, off=0):
    if mode == "const":        # allele = 2*founder + copy at every marker
        return [[[2 * i + c + off for _ in range(p)] for i in range(n)] for c in range(2)]
    # allele identifies (founder, copy) and changes along the chromosome, wrapping in int8 (31 is odd: injective mod 256);
    # the two copies of one individual always differ (by 31 mod 256), whatever the number of individuals
    # (individuals i and i + 128 would coincide mod 256: the last term tells them apart without touching the copy difference)
    return [[[((2 * i + c) * 31 + 7 * j + (i // 128) * 2 * (j % 5 + 1)) % 256 - 128 + off for j in range(p)] for i in range(n)] for c in range(2)]

GDT = {"int8": 0, "int16": 1000, "int64": 100000, "uint8": 128}       # genotype dtype -> offset added to the allele codes
SELDT = ["int64", "int32", "intp", "uint16"]
def _goff(case): return GDT[case.get("gdtype", "int8")]

def _boundary(q):
    """smallest grid numerator k with k/2^53 >= q (no crossover for the draw k/2^53; k-1 crosses over)"""
    f = Fraction(q) * D53
    return -((-f.numerator) // f.denominator)

def _pool(rng, xo, rows, extra, style="mix"):
    p = len(xo); out = []
    for t in range(rows * p + extra):
        b = _boundary(xo[t % p]) if p else 0
        k = rng.random()
        if style == "none": u = min(max(b, 0), D53 - 1)
        elif k < 0.3: u = b                    # u >= p, the closest such draw: no crossover (strict <)
        elif k < 0.6: u = b - 1                # u < p, the closest such draw: crossover
        elif k < 0.68: u = 0
        elif k < 0.76: u = D53 - 1
        elif k < 0.86: u = rng.randrange(0, 1024) * (D53 // 1024)
        else: u = rng.randrange(0, D53)
        out.append(min(max(u, 0), D53 - 1))
    return out

def _util_case(rng, module, fn, real=False):
    n = rng.choice([1, 2, 3, 4, 6]); p = rng.choice([1, 2, 3, 4, 5, 6, 8, 12])
    xo, _ = _xoprob(rng, p, rng.choice(["map", "map", "set", "set", "zeros", "rand"]))
    gm = rng.choice(["const", "walk"])
    k = rng.choice([0, 1, 2, 3, 5, 8])
    c = {"kind": "util", "module": module, "fn": fn, "n": n, "p": p, "gmode": gm, "xoprob": [fx(x) for x in xo],
         "sel": [rng.randrange(n) for _ in range(k)]}
    rows = k
    if fn == "mate":
        c["n2"] = rng.choice([1, 2, 3, 5]); c["sel2"] = [rng.randrange(c["n2"]) for _ in range(k)]; rows = 2 * k
    if rng.random() < 0.4: c["gdtype"] = rng.choice(list(GDT)); c["seldtype"] = rng.choice(SELDT)
    if real: c["seed"] = rng.randrange(2 ** 31)
    else: c["pool"] = _pool(rng, xo, rows, 3, "none" if rng.random() < 0.04 else "mix")
    return c

def _wide_case(rng, module, fn, big_n=None):
    """more markers / individuals than a narrow integer can count; non-default dtypes of the genotype and selection arrays"""
    n = rng.choice([1, 3, 130, 300]) if big_n is None else (rng.choice([130, 300]) if big_n else rng.choice([1, 3]))
    p = 130 if n > 3 else rng.choice([130, 260, 300])
    xo = [rng.choice([0.0, 0.0, 0.0, 0.5, 1.0, 2.0 ** -10, 0.25]) for _ in range(p)]
    for j in (0, 126, 127, 128, 129, 254, 255, 256, 257, p - 1):
        if j < p: xo[j] = rng.choice([0.5, 1.0, 0.75])
    k = rng.choice([1, 2, 3])
    c = {"kind": "util", "module": module, "fn": fn, "n": n, "p": p, "gmode": "walk", "xoprob": [fx(x) for x in xo],
         "sel": [n - 1] + [rng.choice([0, n - 1, rng.randrange(n)]) for _ in range(k - 1)], "gdtype": rng.choice(list(GDT)), "seldtype": rng.choice(SELDT)}
    rows = k
    if fn == "mate":
        c["n2"] = rng.choice([1, 2, 200]); c["sel2"] = [c["n2"] - 1] + [rng.choice([0, c["n2"] - 1]) for _ in range(k - 1)]; rows = 2 * k
    c["pool"] = _pool(rng, xo, rows, 3)
    return c

def _sweep_case(module, m):
    """every one of the 2^m crossover patterns on m markers, each decided by the draws closest to the comparison boundary"""
    xo = [[0.5, 2.0 ** -53, 1.0 - 2.0 ** -53, 0.1, 1.0 / 3.0][j % 5] for j in range(m)]
    pool = []
    for pat in range(2 ** m):
        for j in range(m):
            b = _boundary(xo[j]); pool.append(b - 1 if (pat >> j) & 1 else b)
    return {"kind": "util", "module": module, "fn": "meiosis", "n": 1, "p": m, "gmode": "walk", "xoprob": [fx(x) for x in xo],
            "sel": [0] * (2 ** m), "pool": pool}

def _corner_cases():
    out = []
    for module in ("mat", "dense"):
        # xoprob = 0 with the draw 0.0 (a `<=` would cross over), xoprob = 1 with the largest draw, first marker decides the start copy
        out.append({"kind": "util", "module": module, "fn": "meiosis", "n": 1, "p": 3, "gmode": "const", "xoprob": [fx(0.0), fx(0.0), fx(0.0)],
                    "sel": [0, 0], "pool": [0, 0, 0, 0, 0, 0]})
        out.append({"kind": "util", "module": module, "fn": "meiosis", "n": 1, "p": 3, "gmode": "const", "xoprob": [fx(1.0), fx(1.0), fx(1.0)],
                    "sel": [0, 0], "pool": [D53 - 1] * 3 + [0] * 3})
        out.append({"kind": "util", "module": module, "fn": "dh", "n": 2, "p": 4, "gmode": "walk", "xoprob": [fx(0.5), fx(0.25), fx(0.5), fx(0.25)],
                    "sel": [1, 0, 1], "pool": [D53 // 2, D53 // 4, D53 // 2 - 1, D53 // 4 - 1] + [D53 // 2 - 1, 0, D53 // 2, D53 - 1] + [0, D53 // 4, 1, 2]})
        # different rows for different gametes of the same individual
        out.append({"kind": "util", "module": module, "fn": "mate", "n": 1, "p": 2, "gmode": "const", "n2": 1, "xoprob": [fx(0.5), fx(0.5)],
                    "sel": [0, 0], "sel2": [0, 0], "pool": [0, D53 - 1, D53 - 1, 0, D53 - 1, D53 - 1, 0, 0]})
    return out

def _observable(proto, row, nself):
    try:
        par = _parents(proto, row, nself)
    except ValueError:
        return False
    return all(not (a & b) for a, b in par)

def _proto_case(rng, proto, G=None, real=False):
    npar = NPAR[proto]
    n = rng.choice([4, 5, 6, 8])
    p = rng.choice([1, 2, 3, 4, 5, 6, 8])
    xo, starts = _xoprob(rng, p, rng.choice(["map", "map", "set", "zeros", "rand"]))
    ncross = rng.choice([1, 1, 2, 3])
    xc = [rng.sample(range(n), npar) for _ in range(ncross)]
    nself = 0
    if proto in ("TwoWayCross", "ThreeWayCross", "FourWayCross") and rng.random() < 0.35: nself = 1
    def cnt():
        if rng.random() < 0.5: return rng.choice([1, 1, 2, 3])
        return [rng.choice([0, 1, 1, 2, 3]) for _ in range(ncross)]
    nm, np_ = cnt(), cnt()
    c = {"kind": "proto", "proto": proto, "n": n, "p": p, "xoprob": [fx(x) for x in xo], "xconfig": xc, "nmating": nm, "nprogeny": np_, "nself": nself}
    nml = [nm] * ncross if isinstance(nm, int) else nm; npl = [np_] * ncross if isinstance(np_, int) else np_
    n1 = sum(nml); nt = sum(a * b for a, b in zip(nml, npl))
    rows = 6 * n1 + 2 * nt * (2 + nself) + 4
    # lifecycle: non-default counters, optional miscout, how the generator and the genotype matrix reach the protocol,
    # and what happened to the same protocol object / genotype matrix BEFORE the observed call
    if rng.random() < 0.6:
        c["pc"] = rng.choice([0, 7, 123456, 9999990]); c["fc"] = rng.choice([0, 3, 1000])
        c["miscout"] = rng.random() < 0.5
        c["rngroute"] = rng.choice(["ctor", "setter", "global"])
        c["groute"] = rng.choice(["direct", "copy", "deepcopy", "select_taxa", "setter_mat"])
    r = rng.random()
    if proto == "TwoWayCross" and nself == 0 and r < 0.7: r = 0.4 if r < 0.4 else 0.1
    if r < 0.3:
        # session: an earlier call on the same objects with OTHER crossover probabilities, then an update of the matrix
        xo0, _ = _xoprob(rng, p, rng.choice(["map", "set", "rand"]))
        c["pre"] = {"kind": "session", "xoprob0": [fx(x) for x in xo0], "xconfig": [rng.sample(range(n), npar)], "nmating": 1, "nprogeny": rng.choice([1, 2]),
                    "update": rng.choice(["setter", "inplace", "newobj"])}
        rows += 6 + 2 * 2 * (2 + nself) + 4
    elif r < 0.45 and proto == "TwoWayCross" and nself == 0:
        # second generation: the observed call takes the progeny of an earlier call of the same protocol object as parents
        x1 = [rng.sample(range(n), 2) for _ in range(rng.choice([2, 3]))]
        m1 = rng.choice([1, 2]); p1 = rng.choice([1, 2]); N1 = len(x1) * m1 * p1
        c["pre"] = {"kind": "gen1", "xconfig": x1, "nmating": m1, "nprogeny": p1}
        c["xconfig"] = [rng.sample(range(N1), 2) for _ in range(ncross)]
        rows += 2 * len(x1) * m1 * p1 + 4
    if real: c["seed"] = rng.randrange(2 ** 31)
    else: c["pool"] = _pool(rng, xo, rows, 3)
    return c

def _gen_map(rng, scale="unit", pscale=1):
    """monotone map rows [chr, phy, genpos] with power-of-two or arbitrary physical gaps.
    scale: "unit" gaps around 1 Morgan; "tiny" gaps of 2^-40 .. 1e-9 Morgan next to exact zeros (an isclose/tolerance test in the
    distance or map-function code would flatten them); "long" gaps up to 2 Morgans per knot interval, 8 per chromosome (map functions close to, but below, 1/2);
    pscale multiplies the physical positions (base pairs rather than toy units)"""
    nchr = rng.choice([1, 2, 2, 3, 4])
    labels = sorted(rng.sample(range(1, 12), nchr))
    return _gen_map_for(rng, labels, scale, pscale), labels

def _gen_map_for(rng, labels, scale="unit", pscale=1):
    rows = []
    for c in labels:
        k = rng.choice([2, 3, 4, 5])
        pos = sorted(rng.sample(range(1, 200), k))
        g = 0.0; gens = []
        for _ in range(k):
            gens.append(g)
            if scale == "tiny": g += rng.choice([0.0, 2.0 ** -40, 2.0 ** -30, 1e-9, 3e-9, 2.0 ** -20, rng.random() * 1e-8])
            elif scale == "long": g += rng.choice([0.5, 1.0, 2.0, rng.random() * 2.0])
            else: g += rng.choice([0.0, 1 / 64, 0.125, 0.25, 0.7, rng.random() * 0.6, rng.random() * 3.0])
        rows += [[c, x * pscale, fx(v)] for x, v in zip(pos, gens)]
    rng.shuffle(rows)
    return rows

def _gen_markers(rng, rows, labels, single_ok=True, many=False):
    mk = []
    for c in labels:
        xs = sorted(r[1] for r in rows if r[0] == c)
        k = rng.choice([1, 2, 3, 4, 5]) if single_ok else rng.choice([2, 3, 4])
        if many: k = rng.choice([90, 140])
        for _ in range(k):
            t = rng.random()
            if t < 0.3: x = rng.choice(xs)
            elif t < 0.8: x = rng.randint(xs[0], xs[-1])
            elif t < 0.9: x = xs[0] - rng.choice([1, 2, 5])
            else: x = xs[-1] + rng.choice([1, 3, 8])
            mk.append([c, x])
        if k >= 2 and rng.random() < 0.2: mk.append(list(mk[-1]))      # duplicated position: gap 0
    rng.shuffle(mk)
    return mk

def _map_case(rng, many=False):
    scale = rng.choice(["unit", "unit", "tiny", "long"]); pscale = rng.choice([1, 1, 1000, 10 ** 6])
    rows, labels = _gen_map(rng, scale, pscale)
    units = "M" if rng.random() < 0.75 else "cM"
    if units == "cM": rows = [[c, x, fx(xf(g) * 100.0)] for c, x, g in rows]
    c = {"kind": "map", "cls": rng.choice(["std", "ext"]), "units": units, "rows": rows, "mk": _gen_markers(rng, rows, labels, many=many),
         "fn": rng.choice(["haldane", "kosambi"]), "gmat": rng.choice(["phased", "unphased"]), "scale": scale}
    if pscale > 1 or many:                      # markers strictly inside the knots too (the toy scale only has integer positions)
        for q in c["mk"]:
            xs = sorted(r[1] for r in rows if r[0] == q[0])
            if rng.random() < 0.7: q[1] = rng.randint(xs[0], xs[-1])
    # lifecycle: how the matrix was obtained, and an earlier interpolation of the SAME matrix with another map / map function
    if rng.random() < 0.5: c["groute"] = rng.choice(["copy", "deepcopy", "select_taxa", "setter_mat"])
    if rng.random() < 0.4:
        r0 = _gen_map_for(rng, labels, rng.choice(["unit", "long"]), pscale)             # same chromosomes, another map
        c["pre"] = {"rows": r0, "units": "M", "cls": rng.choice(["std", "ext"]), "fn": rng.choice(["haldane", "kosambi"])}
    return c

def _embv_case(rng):
    n = rng.choice([1, 2, 3, 4]); p = rng.choice([1, 2, 3, 4, 6])
    xo, _ = _xoprob(rng, p, rng.choice(["map", "set", "rand"]))
    geno = [[[rng.randint(0, 1) for _ in range(p)] for _ in range(n)] for _ in range(2)]
    t = rng.choice([1, 2]); q = rng.choice([1, 1, 2])
    npg = rng.choice([1, 2, 3]) if rng.random() < 0.5 else [rng.choice([1, 2, 3, 4]) for _ in range(n)]
    nrp = rng.choice([1, 2, 4]) if rng.random() < 0.5 else [rng.choice([1, 2, 3]) for _ in range(n)]
    npl = [npg] * n if isinstance(npg, int) else npg; nrl = [nrp] * n if isinstance(nrp, int) else nrp
    rows = sum(a * b for a, b in zip(npl, nrl))
    return {"kind": "embv", "groute": rng.choice(["direct", "direct", "copy", "deepcopy", "select_taxa", "xosetter"]),
            "geno": geno, "xoprob": [fx(x) for x in xo], "nprogeny": npg, "nrep": nrp,
            "beta": [[rng.randint(-512, 512) for _ in range(t)] for _ in range(q)],            # numerators over 2^8
            "u": [[rng.randint(-256, 256) for _ in range(t)] for _ in range(p)],
            "pool": _pool(rng, xo, rows, 3)}

def _stat_xo(rng, p, layout):
    if layout == "map":                  # 1/2 at chromosome starts, small elsewhere
        starts = set([0] + rng.sample(range(1, p), min(2, p - 1)))
        return [0.5 if j in starts else rng.choice([0.02, 0.1, 0.25, 0.4, rng.random() * 0.5]) for j in range(p)]
    if layout == "free":                 # no 1/2 at the first marker: segregation is then not 1/2, the formulas still hold
        return [rng.choice([0.0, 0.05, 0.3, 0.5, 0.8, 1.0, rng.random()]) for j in range(p)]
    if layout == "sparse":               # mostly exact zeros (no crossover may ever happen there) and some ones
        return [0.5 if j == 0 else rng.choice([0.0, 0.0, 0.0, 1.0, 0.2]) for j in range(p)]
    raise ValueError(layout)

def _stat_case(rng, target, G, layout):
    p = rng.choice([2, 4, 6, 9, 12])
    c = {"kind": "stat", "target": list(target) if isinstance(target, tuple) else target, "p": p, "G": G, "seed": rng.randrange(2 ** 31), "layout": layout}
    if layout in ("haldane", "kosambi"):
        rows, labels = _gen_map(rng)
        c["map"] = {"rows": rows, "mk": _gen_markers(rng, rows, labels, single_ok=False), "fn": layout, "cls": rng.choice(["std", "ext"]), "units": "M"}
        c["p"] = len(c["map"]["mk"])
    else:
        c["xoprob"] = [fx(x) for x in _stat_xo(rng, p, layout)]
    if not isinstance(target, tuple):
        npar = NPAR[target]
        c["xconfig"] = [rng.sample(range(8), npar) for _ in range(2)]
        c["nself"] = 1 if (target in ("TwoWayCross", "FourWayCross") and rng.random() < 0.3) else 0
    return c

# ------------------------------------------------------------------ entry points (enumerated at run time, fail closed)
COVERED = {
    "pybrops.breed.prot.mate.util": {"mat_meiosis": ["geno", "sel", "xoprob", "rng"], "mat_dh": ["geno", "sel", "xoprob", "rng"],
                                     "mat_mate": ["fgeno", "mgeno", "fsel", "msel", "xoprob", "rng"]},
    "pybrops.core.util.mate": {"dense_meiosis": ["geno", "sel", "xoprob", "rng"], "dense_dh": ["geno", "sel", "xoprob", "rng"],
                               "dense_cross": ["fgeno", "mgeno", "fsel", "msel", "xoprob", "rng"]},
}
PROTO_SIG = {"__init__": ["self", "progeny_counter", "family_counter", "rng", "kwargs"],
             "mate": ["self", "pgmat", "xconfig", "nmating", "nprogeny", "miscout", "nself", "kwargs"]}
MAPFN_METHODS = {"mapfn": "through rprob1g / rprob1p and directly", "rprob1g": "covered", "rprob1p": "covered",
                 "invmapfn": "SKIPPED: inverse map function, no meiosis depends on it (C11)",
                 "rprob2g": "SKIPPED: pairwise matrices, not used by meiosis (C11, C12)", "rprob2p": "SKIPPED: pairwise matrices (C11, C12)"}
DGMM_METHODS = {"interp_genpos": "covered", "interp_xoprob": "covered"}
EMBV_METHODS = {"from_gmod": ["gmod", "pgmat", "nprogeny", "nrep", "kwargs"]}
SKIPPED = {
    "pybrops.breed.prot.mate.MatingProtocol": "abstract interface (no meiosis of its own)",
    "mate(**kwargs) / __init__(**kwargs)": "forwarded to the constructor of the progeny matrix / ignored; no effect on meiosis",
    "check_is_* functions": "type guards",
    "nphase != 2": "the meiosis functions read copies 0 and 1 only (diploid assumption stated in ASSUMPTIONS)",
}

def _audit():
    """every public function / class / method of the anchored modules is covered by a generator or listed with a reason;
    a new one (or a changed parameter list) makes the check fail until it is classified"""
    import importlib, inspect, pkgutil
    bad = []
    for mn, fns in COVERED.items():
        mod = importlib.import_module(mn)
        have = {n: v for n, v in vars(mod).items() if inspect.isfunction(v) and v.__module__ == mn and not n.startswith("_")}
        for n in sorted(set(have) - set(fns)): bad.append("%s.%s is not covered by the C02 generators" % (mn, n))
        for n, want in fns.items():
            if n not in have: bad.append("%s.%s disappeared" % (mn, n)); continue
            got = list(inspect.signature(have[n]).parameters)
            if got != want: bad.append("%s.%s has parameters %s, the generators drive %s" % (mn, n, got, want))
    import pybrops.breed.prot.mate as pm
    mods = sorted(m.name for m in pkgutil.iter_modules(pm.__path__))
    for m_ in mods:
        if m_ in ("util", "MatingProtocol"): continue
        if m_ not in PROTOS: bad.append("mating protocol module %s is not covered" % m_); continue
        mod = importlib.import_module("pybrops.breed.prot.mate." + m_)
        classes = [n for n, v in vars(mod).items() if inspect.isclass(v) and v.__module__ == mod.__name__]
        if classes != [m_]: bad.append("module %s defines classes %s" % (m_, classes)); continue
        cls = getattr(mod, m_)
        for meth, want in PROTO_SIG.items():
            got = list(inspect.signature(getattr(cls, meth)).parameters)
            if got != want: bad.append("%s.%s has parameters %s, the generators drive %s" % (m_, meth, got, want))
        pub = sorted(n for n, v in vars(cls).items() if not n.startswith("_") and callable(v))
        if pub != ["mate"]: bad.append("%s has public methods %s (only mate is driven)" % (m_, pub))
    for p_ in PROTOS:
        if p_ not in mods: bad.append("mating protocol %s disappeared" % p_)
    for mn in ("HaldaneMapFunction", "KosambiMapFunction"):
        cls = getattr(importlib.import_module("pybrops.popgen.gmap." + mn), mn)
        pub = sorted(n for n, v in vars(cls).items() if not n.startswith("_") and callable(v))
        if pub != sorted(MAPFN_METHODS): bad.append("%s has public methods %s, classified: %s" % (mn, pub, sorted(MAPFN_METHODS)))
    from pybrops.popgen.gmap.DenseGeneticMappableMatrix import DenseGeneticMappableMatrix as D
    pub = sorted(n for n, v in vars(D).items() if not n.startswith("_") and callable(v))
    if pub != sorted(DGMM_METHODS): bad.append("DenseGeneticMappableMatrix has public methods %s, classified: %s" % (pub, sorted(DGMM_METHODS)))
    from pybrops.model.embvmat.DenseExpectedMaximumBreedingValueMatrix import DenseExpectedMaximumBreedingValueMatrix as B
    pub = sorted(n for n, v in vars(B).items() if not n.startswith("_"))
    if pub != sorted(EMBV_METHODS): bad.append("DenseExpectedMaximumBreedingValueMatrix has public members %s, classified: %s" % (pub, sorted(EMBV_METHODS)))
    else:
        got = list(inspect.signature(B.from_gmod).parameters)
        if got != EMBV_METHODS["from_gmod"]: bad.append("from_gmod has parameters %s" % got)
    if bad: raise RuntimeError("C02 entry-point audit: " + "; ".join(bad))

def gen_cases(rng, tier):
    _audit()
    quick = tier == "quick"
    cases = _corner_cases()
    for module, fn in UTILS:
        for _ in range(40 if quick else 700): cases.append(_util_case(rng, module, fn))
        for _ in range(8 if quick else 120): cases.append(_util_case(rng, module, fn, real=True))
    for module in ("mat", "dense"):
        for m in (range(1, 6) if quick else range(1, 9)): cases.append(_sweep_case(module, m))
    for module, fn in UTILS:
        for t in range(2 if quick else 12): cases.append(_wide_case(rng, module, fn, big_n=(t % 2 == 0)))
    for proto in PROTOS:
        for _ in range(24 if quick else 420): cases.append(_proto_case(rng, proto))
        for _ in range(4 if quick else 60): cases.append(_proto_case(rng, proto, real=True))
    for _ in range(60 if quick else 900): cases.append(_map_case(rng))
    for _ in range(2 if quick else 12): cases.append(_map_case(rng, many=True))
    for _ in range(40 if quick else 600): cases.append(_embv_case(rng))
    # statistical monitor
    G = 40000 if quick else 200000
    layouts = ["map", "free", "sparse", "haldane", "kosambi"]
    targets = list(UTILS) + PROTOS
    k = 0
    for rep in range(2 if quick else 6):
        for tg in targets:
            cases.append(_stat_case(rng, tg, G, layouts[k % len(layouts)])); k += 1
    return cases

def search_cases(rng):
    return gen_cases(rng, "quick")

# ------------------------------------------------------------------ pedigree of the last meiosis
def _parents(proto, row, nself):
    """for progeny copy 0 and copy 1: (codes of side 0, codes of side 1) of the individual whose gamete the copy is;
    an individual is a pair (allele codes its copy 0 may carry, codes its copy 1 may carry); founder i carries 2i / 2i+1"""
    F = lambda i: (frozenset([2 * i]), frozenset([2 * i + 1]))
    X = lambda f, m: (f[0] | f[1], m[0] | m[1])
    if proto == "SelfCross": f, m = F(row[0]), F(row[0])
    elif proto in ("TwoWayCross", "TwoWayDHCross"): f, m = F(row[0]), F(row[1])
    elif proto in ("ThreeWayCross", "ThreeWayDHCross"): f, m = F(row[0]), X(F(row[1]), F(row[2]))
    else: f, m = X(F(row[2]), F(row[3])), X(F(row[0]), F(row[1]))
    for _ in range(nself):
        x = X(f, m); f, m = x, x
    if proto.endswith("DHCross"):
        x = X(f, m); f, m = x, x
    return [f, m]

def _lut(side):
    t = numpy.full(256, -1, dtype="int8")
    for code in side[0]: t[code + 128] = 0
    for code in side[1]: t[code + 128] = 1
    return t

def _observe_proto(proto, xconfig, nself, res, pc=0, fc=0, parents=None):
    """source side of every allele of both progeny copies, progeny in creation order; None where an allele is foreign.
    pc, fc: progeny / family counters before the call; parents(row) overrides the founder code sets (second generation)"""
    mat = res.mat; N = mat.shape[1]
    idx = numpy.array([int(str(t)[2:]) - pc for t in res.taxa], dtype=int) if N else numpy.zeros(0, dtype=int)
    if sorted(idx.tolist()) != list(range(N)): return None, "progeny names are not prefix + consecutive numbers"
    order = numpy.argsort(idx, kind="stable")
    mat = mat[:, order, :]; fam = numpy.asarray(res.taxa_grp)[order] - fc
    C = [numpy.zeros((N, mat.shape[2]), dtype="int8"), numpy.zeros((N, mat.shape[2]), dtype="int8")]
    if N and not set(fam.tolist()) <= set(range(len(xconfig))): return None, "family labels are not family_counter + row of the cross configuration"
    for r, row in enumerate(xconfig):
        sel = numpy.flatnonzero(fam == r)
        if not len(sel): continue
        par = _parents(proto, row, nself) if parents is None else parents(row)
        for k in (0, 1):
            C[k][sel] = _lut(par[k])[mat[k][sel].astype(int) + 128]
    if (C[0] < 0).any() or (C[1] < 0).any(): return None, "a progeny allele does not come from the designated parent of the last meiosis"
    return C, None

# ------------------------------------------------------------------ implementation driver
def _build_pg(n, p, xo, const=True, **kw):
    from pybrops.popgen.gmat.DensePhasedGenotypeMatrix import DensePhasedGenotypeMatrix
    geno = numpy.array(_geno(None, n, p, "const" if const else "walk"), dtype="int8").reshape(2, n, p)
    return DensePhasedGenotypeMatrix(geno, vrnt_xoprob=None if xo is None else numpy.array(xo, dtype=float), **kw)

def _mk_gmap(m):
    from pybrops.popgen.gmap.StandardGeneticMap import StandardGeneticMap
    from pybrops.popgen.gmap.ExtendedGeneticMap import ExtendedGeneticMap
    rows = m["rows"]
    chrs = numpy.array([r[0] for r in rows], dtype="int64"); phy = numpy.array([r[1] for r in rows], dtype="int64")
    gen = numpy.array([xf(r[2]) for r in rows], dtype="float64")
    if m["cls"] == "std": return StandardGeneticMap(chrs, phy, gen, vrnt_genpos_units=m["units"])
    return ExtendedGeneticMap(chrs, phy, phy + 1, gen, vrnt_genpos_units=m["units"])

def _fnobj(name):
    from pybrops.popgen.gmap.HaldaneMapFunction import HaldaneMapFunction
    from pybrops.popgen.gmap.KosambiMapFunction import KosambiMapFunction
    return HaldaneMapFunction() if name == "haldane" else KosambiMapFunction()

def _interp(g, m):
    """group the matrix and let the library assign genetic positions and crossover probabilities from the map"""
    g.group_vrnt()
    with numpy.errstate(all="ignore"):
        g.interp_xoprob(_mk_gmap(m), _fnobj(m["fn"]))

def _util_fn(module, fn):
    import importlib
    if module == "mat":
        mod = importlib.import_module("pybrops.breed.prot.mate.util"); names = {"meiosis": "mat_meiosis", "dh": "mat_dh", "mate": "mat_mate"}
    else:
        mod = importlib.import_module("pybrops.core.util.mate"); names = {"meiosis": "dense_meiosis", "dh": "dense_dh", "mate": "dense_cross"}
    return getattr(mod, names[fn])

def _snap(a): return (str(a.dtype), a.shape, a.tobytes())

def _run_util(case):
    f = _util_fn(case["module"], case["fn"])
    n, p = case["n"], case["p"]
    gdt = case.get("gdtype", "int8"); sdt = case.get("seldtype", "int64"); off = _goff(case)
    geno = numpy.array(_geno(None, n, p, case["gmode"], off), dtype=gdt).reshape(2, n, p)
    xo = numpy.array([xf(x) for x in case["xoprob"]], dtype=float); sel = numpy.array(case["sel"], dtype=sdt)
    rng = Real(case["seed"]) if "seed" in case else Pool(case["pool"])
    ins = [geno, xo, sel]
    if case["fn"] == "mate":
        geno2 = numpy.array(_geno(None, case["n2"], p, case["gmode"], off), dtype=gdt).reshape(2, case["n2"], p)
        sel2 = numpy.array(case["sel2"], dtype=sdt)
        ins += [geno2, sel2]
        b = [_snap(a) for a in ins]
        res = f(geno, geno2, sel, sel2, xo, rng)
    else:
        b = [_snap(a) for a in ins]
        res = f(geno, sel, xo, rng)
    out = {"res": res.tolist(), "dtype": str(res.dtype), "shape": list(res.shape), "shapes": rng.shapes,
           "ranges_ok": all(r == [0.0, 1.0] for r in rng.ranges), "unchanged": [_snap(a) for a in ins] == b}
    # aliasing: the result is a fresh, writable array; writing into one layer touches neither the other layer nor an input
    alias = []
    if isinstance(res, numpy.ndarray) and any(numpy.shares_memory(res, a) for a in ins): alias.append("result shares memory with an input")
    if res.ndim == 3 and res.shape[0] == 2 and res.size:
        keep = res[1].copy()
        try:
            res[0] += 1
            if not numpy.array_equal(res[1], keep): alias.append("the two layers of the result share memory")
        except ValueError:
            alias.append("result is not writable")
    elif res.size:
        try: res += 1
        except ValueError: alias.append("result is not writable")
    if [_snap(a) for a in ins] != b: alias.append("writing into the result changed an input")
    out["alias"] = sorted(set(alias))
    if "seed" in case: out["drawn"] = [_num53(a) for a in rng.drawn]
    return out

def _route_g(g, route):
    """the genotype matrix as the library itself hands it on"""
    import copy
    if route == "copy": return copy.copy(g)
    if route == "deepcopy": return copy.deepcopy(g)
    if route == "select_taxa": return g.select_taxa(numpy.arange(g.ntaxa))
    if route == "setter_mat":
        h = copy.deepcopy(g); m = g.mat.copy(); h.mat = numpy.zeros_like(m); h.mat = m
        return h
    return g

def _mk_proto(cls, rng, route, pc, fc):
    import importlib
    if route == "setter":
        prot = cls(progeny_counter=pc, family_counter=fc, rng=numpy.random.default_rng(1)); prot.rng = rng
    elif route == "global":
        mod = importlib.import_module(cls.__module__); old = mod.global_prng; mod.global_prng = rng
        try: prot = cls(progeny_counter=pc, family_counter=fc, rng=None)
        finally: mod.global_prng = old
    else:
        prot = cls(progeny_counter=pc, family_counter=fc, rng=rng)
    return prot

def _cnt(x): return x if isinstance(x, int) else numpy.array(x, dtype="int64")

def _run_proto(case):
    import importlib
    proto = case["proto"]
    cls = getattr(importlib.import_module("pybrops.breed.prot.mate." + proto), proto)
    xo = [xf(x) for x in case["xoprob"]]
    pre = case.get("pre"); pc = case.get("pc", 0); fc = case.get("fc", 0)
    g = _build_pg(case["n"], case["p"], [xf(x) for x in pre["xoprob0"]] if pre and pre["kind"] == "session" else xo)
    g = _route_g(g, case.get("groute", "direct"))
    rng = Real(case["seed"], keep=False) if "seed" in case else Pool(case["pool"])
    prot = _mk_proto(cls, rng, case.get("rngroute", "ctor"), pc, fc)
    parents = None; pre_n = 0
    if pre:
        r0 = prot.mate(g, numpy.array(pre["xconfig"], dtype="int64"), _cnt(pre["nmating"]), _cnt(pre["nprogeny"]), nself=case["nself"] if pre["kind"] == "session" else 0)
        pc += int(r0.mat.shape[1]); fc += len(pre["xconfig"]); pre_n = len(rng.shapes)
        if pre["kind"] == "session":
            if pre["update"] == "setter": g.vrnt_xoprob = numpy.array(xo, dtype=float)
            elif pre["update"] == "inplace": g.vrnt_xoprob[:] = numpy.array(xo, dtype=float)
            else: g = _route_g(_build_pg(case["n"], case["p"], xo), case.get("groute", "direct"))
        else:
            # parents of the observed call: progeny t of the first call carries codes of founder a on copy 0 and of founder b on copy 1
            fam = (numpy.asarray(r0.taxa_grp) - (fc - len(pre["xconfig"]))).tolist()
            side = [(frozenset([2 * pre["xconfig"][f][0], 2 * pre["xconfig"][f][0] + 1]), frozenset([2 * pre["xconfig"][f][1], 2 * pre["xconfig"][f][1] + 1])) for f in fam]
            parents = lambda row: [side[row[0]], side[row[1]]]
            g = r0
    xc = numpy.array(case["xconfig"], dtype="int64")
    snap = [_snap(g.mat), _snap(numpy.asarray(g.vrnt_xoprob)), _snap(xc)]
    misc = {} if case.get("miscout") else None
    res = prot.mate(g, xc, _cnt(case["nmating"]), _cnt(case["nprogeny"]), misc, case["nself"]) if case.get("miscout") is not None \
        else prot.mate(g, xc, _cnt(case["nmating"]), _cnt(case["nprogeny"]), nself=case["nself"])
    out = {"shapes": rng.shapes[pre_n:], "skip": sum(a * b for a, b in rng.shapes[:pre_n]), "ranges_ok": all(r == [0.0, 1.0] for r in rng.ranges), "N": int(res.mat.shape[1]),
           "homozygous": bool(numpy.array_equal(res.mat[0], res.mat[1])),
           "unchanged": [_snap(g.mat), _snap(numpy.asarray(g.vrnt_xoprob)), _snap(xc)] == snap,
           "xoprob_kept": res.vrnt_xoprob is not None and _snap(numpy.asarray(res.vrnt_xoprob, dtype=float)) == _snap(numpy.array(xo, dtype=float)),
           "counters": [int(prot.progeny_counter) - pc, int(prot.family_counter) - fc]}
    C, err = _observe_proto(proto, case["xconfig"], case["nself"], res, pc, fc, parents)
    out["obs_error"] = err
    if C is not None: out["src"] = [C[0].tolist(), C[1].tolist()]
    if "seed" in case: out["drawn"] = [_num53(a) for a in rng.drawn[-2:]]
    return out

def _run_map(case):
    from pybrops.popgen.gmat.DenseGenotypeMatrix import DenseGenotypeMatrix
    from pybrops.popgen.gmat.DensePhasedGenotypeMatrix import DensePhasedGenotypeMatrix
    mk = case["mk"]; nv = len(mk)
    qc = numpy.array([q[0] for q in mk], dtype="int64"); qp = numpy.array([q[1] for q in mk], dtype="int64")
    if case["gmat"] == "phased":
        g = DensePhasedGenotypeMatrix(numpy.zeros((2, 2, nv), dtype="int8"), vrnt_chrgrp=qc.copy(), vrnt_phypos=qp.copy())
    else:
        g = DenseGenotypeMatrix(numpy.zeros((2, nv), dtype="int8"), vrnt_chrgrp=qc.copy(), vrnt_phypos=qp.copy(), ploidy=2)
    g = _route_g(g, case.get("groute", "direct"))
    if case.get("pre"):                       # an earlier interpolation of the same object must leave no trace
        _interp(g, case["pre"])
    _interp(g, case)
    out = {"chr": [int(x) for x in g.vrnt_chrgrp], "phy": [int(x) for x in g.vrnt_phypos],
           "genpos": [fx(x) for x in g.vrnt_genpos], "xoprob": [fx(x) for x in g.vrnt_xoprob]}
    # the other entry points that hand out sequential crossover probabilities must agree bit for bit with what interp_xoprob stored
    gm = _mk_gmap(case); f = _fnobj(case["fn"])
    with numpy.errstate(all="ignore"):
        a1 = f.rprob1g(gm, g.vrnt_chrgrp, g.vrnt_genpos); a2 = f.rprob1p(gm, g.vrnt_chrgrp, g.vrnt_phypos)
        a3 = f.mapfn(gm.gdist1g(g.vrnt_chrgrp, g.vrnt_genpos)); a4 = f.mapfn(gm.gdist1p(g.vrnt_chrgrp, g.vrnt_phypos))
        gp = gm.interp_genpos(g.vrnt_chrgrp, g.vrnt_phypos)
    same = lambda a, b: numpy.asarray(a).shape == numpy.asarray(b).shape and bool(numpy.array_equal(numpy.asarray(a), numpy.asarray(b), equal_nan=True))
    out["routes"] = {"rprob1g": same(a1, g.vrnt_xoprob), "rprob1p": same(a2, g.vrnt_xoprob), "mapfn(gdist1g)": same(a3, g.vrnt_xoprob),
                     "mapfn(gdist1p)": same(a4, g.vrnt_xoprob), "interp_genpos": same(gp, g.vrnt_genpos)}
    out["fresh"] = not (numpy.shares_memory(g.vrnt_xoprob, g.vrnt_genpos) or numpy.shares_memory(g.vrnt_genpos, g.vrnt_phypos))
    return out

def _run_embv(case):
    import pybrops.model.embvmat.DenseExpectedMaximumBreedingValueMatrix as M
    from pybrops.model.gmod.DenseAdditiveLinearGenomicModel import DenseAdditiveLinearGenomicModel
    from pybrops.popgen.gmat.DensePhasedGenotypeMatrix import DensePhasedGenotypeMatrix
    geno = numpy.array(case["geno"], dtype="int8"); n = geno.shape[1]
    xo = numpy.array([xf(x) for x in case["xoprob"]], dtype=float)
    route = case.get("groute", "direct")
    pg = DensePhasedGenotypeMatrix(geno, vrnt_xoprob=(numpy.full(len(xo), 0.5) if route == "xosetter" else xo),
                                   taxa=numpy.array(["T%d" % i for i in range(n)], dtype=object), taxa_grp=numpy.arange(n, dtype="int64"))
    if route == "xosetter": pg.vrnt_xoprob = xo                       # crossover probabilities replaced after construction
    else: pg = _route_g(pg, route)
    beta = numpy.array(case["beta"], dtype=float) / 256.0; u = numpy.array(case["u"], dtype=float) / 256.0
    t = beta.shape[1]
    gmod = DenseAdditiveLinearGenomicModel(beta, None, u, trait=numpy.array(["t%d" % i for i in range(t)], dtype=object))
    rng = Pool(case["pool"])
    M.global_prng = rng                                             # the only generator from_gmod uses
    npg = case["nprogeny"] if isinstance(case["nprogeny"], int) else numpy.array(case["nprogeny"], dtype="int64")
    nrp = case["nrep"] if isinstance(case["nrep"], int) else numpy.array(case["nrep"], dtype="int64")
    before = _snap(geno)
    res = M.DenseExpectedMaximumBreedingValueMatrix.from_gmod(gmod, pg, npg, nrp)
    val = res.unscale()
    return {"embv": [[fx(x) for x in r] for r in numpy.asarray(val, dtype=float)], "shapes": rng.shapes, "used": rng.pos,
            "ranges_ok": all(r == [0.0, 1.0] for r in rng.ranges), "taxa": [str(x) for x in res.taxa],
            "unchanged": _snap(pg.mat) == before and _snap(numpy.asarray(pg.vrnt_xoprob)) == _snap(xo)}

def _counts(Cs):
    """sufficient statistics of the monitor; Cs: list of (N,p) 0/1 source matrices (one per progeny copy)"""
    C = numpy.vstack(Cs).astype(numpy.int64)
    X = C.copy(); X[:, 1:] ^= C[:, :-1]                               # crossover indicators (first marker: start copy)
    G = C.shape[0]
    out = {"G": int(G), "seg": C.sum(0).tolist(), "c11": (C.T @ C).tolist(), "xseg": X.sum(0).tolist(), "x11": (X.T @ X).tolist()}
    cons = numpy.zeros(C.shape[1], dtype=int); roweq = 0; gp = 0
    for Ck in Cs:                                                   # consecutive gametes of one call: rows 2g, 2g+1
        Xk = Ck.astype(numpy.int64); Xk = Xk.copy(); Xk[:, 1:] ^= Ck[:, :-1]
        m = Xk.shape[0] // 2
        A, B = Xk[0:2 * m:2], Xk[1:2 * m:2]
        cons += (A & B).sum(0); roweq += int((A == B).all(1).sum()); gp += m
    out["Gp"] = int(gp); out["cons"] = cons.tolist(); out["roweq"] = int(roweq)
    if len(Cs) == 2:                                                # the two gametes united in one progeny
        X0 = Cs[0].astype(numpy.int64).copy(); X0[:, 1:] ^= Cs[0][:, :-1]
        X1 = Cs[1].astype(numpy.int64).copy(); X1[:, 1:] ^= Cs[1][:, :-1]
        out["fm"] = (X0 & X1).sum(0).tolist(); out["fmeq"] = int((X0 == X1).all(1).sum()); out["Gfm"] = int(X0.shape[0])
    return out

def _run_stat(case):
    import importlib
    tg = case["target"]; G = case["G"]
    nf = 8
    out = {}
    if "map" in case:
        mk = case["map"]["mk"]; p = len(mk)
        g = _build_pg(nf, p, None, vrnt_chrgrp=numpy.array([q[0] for q in mk], dtype="int64"), vrnt_phypos=numpy.array([q[1] for q in mk], dtype="int64"))
        _interp(g, case["map"])
        out["chr"] = [int(x) for x in g.vrnt_chrgrp]; out["genpos"] = [fx(x) for x in g.vrnt_genpos]
    else:
        p = case["p"]
        g = _build_pg(nf, p, [xf(x) for x in case["xoprob"]])
    xo = numpy.asarray(g.vrnt_xoprob, dtype=float)
    out["xoprob"] = [fx(x) for x in xo]
    rng = Real(case["seed"], keep=False)
    if isinstance(tg, list):
        f = _util_fn(tg[0], tg[1]); geno = g.mat
        lut = _lut((frozenset([0, 2, 4, 6, 8, 10, 12, 14]), frozenset([1, 3, 5, 7, 9, 11, 13, 15])))   # copy = code mod 2
        if tg[1] == "mate":
            N = G // 2
            fs = numpy.arange(N, dtype="int64") % nf; ms = (numpy.arange(N, dtype="int64") * 3 + 1) % nf
            res = f(geno, geno, fs, ms, xo, rng)
            Cs = [lut[res[0].astype(int) + 128], lut[res[1].astype(int) + 128]]
            ok = bool((res[0] // 2 == fs[:, None]).all() and (res[1] // 2 == ms[:, None]).all())
        else:
            sel = numpy.arange(G, dtype="int64") % nf
            res = f(geno, sel, xo, rng)
            lay = res if tg[1] == "meiosis" else res[0]
            Cs = [lut[lay.astype(int) + 128]]
            ok = bool((lay // 2 == sel[:, None]).all()) and (tg[1] == "meiosis" or bool(numpy.array_equal(res[0], res[1])))
        out["obs_error"] = None if ok else "a gamete carries an allele of another individual (or the doubled haploid is not homozygous)"
    else:
        cls = getattr(importlib.import_module("pybrops.breed.prot.mate." + tg), tg)
        dh = tg.endswith("DHCross")
        per = G // (2 if dh else 4)                                  # two cross rows; DH: one gamete per progeny, else two
        nmat, nprog = 50, max(1, per // 50)
        prot = cls(progeny_counter=0, family_counter=0, rng=rng)
        res = prot.mate(g, numpy.array(case["xconfig"], dtype="int64"), nmat, nprog, nself=case["nself"])
        C, err = _observe_proto(tg, case["xconfig"], case["nself"], res)
        out["obs_error"] = err
        if C is None: return out
        if dh and not numpy.array_equal(C[0], C[1]): out["obs_error"] = "doubled haploid progeny are not homozygous"
        Cs = [C[0]] if dh else [C[0], C[1]]
    out["ranges_ok"] = all(r == [0.0, 1.0] for r in rng.ranges)
    last = rng.drawn[-len(Cs):]
    out["draw_shapes_ok"] = [list(a.shape) for a in last] == [list(c.shape) for c in Cs]
    # draw-for-draw: the observed provenance is the running parity of (draw < xoprob) on the matrices of the last meiosis
    if out["draw_shapes_ok"]:
        out["det_mismatch"] = int(sum(int(((numpy.cumsum(a < xo[None, :], axis=1) % 2) != c).any(1).sum()) for a, c in zip(last, Cs)))
        out["grid_ok"] = bool(all(numpy.array_equal(numpy.floor(a * D53), a * D53) and (a >= 0).all() and (a < 1).all() for a in last))
    out.update(_counts(Cs))
    return out

def run_impl(case):
    return {"util": _run_util, "proto": _run_proto, "map": _run_map, "embv": _run_embv, "stat": _run_stat}[case["kind"]](case)

# ------------------------------------------------------------------ emission
def _zl(xs): return "[" + ";".join(("(%d)" % x) if x < 0 else "%d" % x for x in xs) + "]"
def Zl2(xss): return "([" + ";".join(_zl(r) for r in xss) + "])%Z"
def Zl3(xsss): return "([" + ";".join("[" + ";".join(_zl(r) for r in m) + "]" for m in xsss) + "])%Z"
def Nl(xs): return "(%s)%%nat" % _zl(xs)
def _q53(k): return "(%d # 9007199254740992)" % k
def Q53ll(m): return "([" + ";".join("[" + ";".join(_q53(k) for k in r) + "]" for r in m) + "])%Q"
def Qf(h): return E.q(Fraction(xf(h)))
def Bll(m): return "[" + ";".join("[" + ";".join("true" if b else "false" for b in r) + "]" for r in m) + "]"
def _shapes(sh): return "[" + ";".join("(%d,%d)" % (a, b) for a, b in sh) + "]%nat"

def _carve(pool, shapes):
    out = []; pos = 0
    for sh in shapes:
        if len(sh) != 2: raise ValueError("non 2-D uniform request %r" % (sh,))
        r, c = sh
        if pos + r * c > len(pool): raise ValueError("pool shorter than the requests")
        out.append([pool[pos + i * c: pos + (i + 1) * c] for i in range(r)]); pos += r * c
    return out

def _draws(case, out):
    if "seed" in case:
        if any(d is None for d in out["drawn"]): raise ValueError("a generator draw is not on the 2^-53 grid")
        return out["drawn"]
    return _carve(case["pool"], out["shapes"])

def _decode_py(g0, g1, gam):
    c = []
    for a0, a1, a in zip(g0, g1, gam):
        if a == a1 and a != a0: c.append(1)
        elif a == a0 and a != a1: c.append(0)
        else: return None
    return c if len(gam) == len(g0) else None

def _util_layers(case, out):
    """[(geno, sel, gametes)] per uniform matrix"""
    n, p = case["n"], case["p"]
    G = _geno(None, n, p, case["gmode"], _goff(case))
    res = out["res"]
    if case["fn"] == "meiosis": return [(G, case["sel"], res)]
    if case["fn"] == "dh": return [(G, case["sel"], res[0])]
    return [(G, case["sel"], res[0]), (_geno(None, case["n2"], p, case["gmode"], _goff(case)), case["sel2"], res[1])]

def _obs_rows(G, sel, gams):
    rows = []
    for s, g in zip(sel, gams):
        c = _decode_py(G[0][s], G[1][s], g)
        if c is None: return None
        rows.append(c)
    return rows if len(gams) == len(sel) else None

def emit_case(case, out):
    if "exc" in out: return "false"
    kind = case["kind"]
    if kind == "stat": return None
    if kind == "util":
        X = E.lst(case["xoprob"], Qf)
        draws = _draws(case, out); layers = _util_layers(case, out)
        if len(draws) != len(layers): return "false"
        parts = []
        for (G, sel, gams), rnd in zip(layers, draws):
            obs = _obs_rows(G, sel, gams)
            if obs is None: return "false"
            if len(G[0]) > 8:
                # many individuals: ship only the selected ones (the model reads no other row); sel becomes positions in that list
                if any(not (0 <= t < len(G[0])) for t in sel): return "false"
                keep = sorted(set(sel)); G = [[G[c][t] for t in keep] for c in range(2)]; sel = [keep.index(t) for t in sel]
            parts.append("check_meiosis %s %s %s %s %s %s" % (Zl3(G), Nl(sel), X, Q53ll(rnd), Zl2(gams), Bll(obs)))
            if "seed" in case: parts.append("draws_ok %s %s" % (Q53ll(rnd), X))
        if case["fn"] == "dh": parts.append("zll_eqb %s %s" % (Zl2(out["res"][0]), Zl2(out["res"][1])))
        k = len(case["sel"]); p = case["p"]
        parts.append("shapes_eqb %s %s" % (_shapes(out["shapes"]), _shapes([[k, p]] * len(layers))))
        return "(" + "\n  && ".join(parts) + ")"
    if kind == "proto":
        if out.get("obs_error") or "src" not in out: return "false"
        X = E.lst(case["xoprob"], Qf)
        dh = case["proto"].endswith("DHCross")
        if "seed" in case:
            if any(d is None for d in out["drawn"]): return "false"
            last = out["drawn"][-(1 if dh else 2):]
        else:
            last = _carve(case["pool"][out.get("skip", 0):], out["shapes"])[-(1 if dh else 2):]
        N = out["N"]
        srcs = [out["src"][0]] if dh else out["src"]
        if len(last) != len(srcs): return "false"
        parts = ["check_final %s %d %s %s" % (X, N, Q53ll(rnd), Bll(obs)) for rnd, obs in zip(last, srcs)]
        if dh: parts.append(E.b(out["homozygous"]) + " && bll_eqb %s %s" % (Bll(out["src"][0]), Bll(out["src"][1])))
        if "seed" in case: parts += ["draws_ok %s %s" % (Q53ll(rnd), X) for rnd in last]
        return "(" + "\n  && ".join(parts) + ")"
    if kind == "map":
        return "(check_map %s %s %s %s)" % ("Haldane" if case["fn"] == "haldane" else "Kosambi", E.lst(out["chr"], E.z),
                                          E.lst(out["genpos"], Qf), E.lst(out["xoprob"], Qf))
    if kind == "embv":
        n = len(case["geno"][0])
        npl = [case["nprogeny"]] * n if isinstance(case["nprogeny"], int) else case["nprogeny"]
        nrl = [case["nrep"]] * n if isinstance(case["nrep"], int) else case["nrep"]
        betas, ucols = _embv_coeffs(case)
        draws = _carve(case["pool"], out["shapes"])
        return ("(check_embv %s %s %s %s %s %s %s %s %s)"
                % (Zl3(case["geno"]), E.lst(case["xoprob"], Qf), Nl(npl), Nl(nrl), E.lst(betas, E.q), E.lst2(ucols, E.q),
                   "([" + ";".join(Q53ll(m)[1:-3] for m in draws) + "])%Q", E.lst2(out["embv"], Qf), _shapes(out["shapes"])))
    return "false"

# ------------------------------------------------------------------ independent predicate
def _embv_coeffs(case):
    """intercept per trait as gebv() computes it (first fixed effect + mean of the others) and one effect column per trait"""
    beta = [[Fraction(x, 256) for x in r] for r in case["beta"]]; q = len(beta); t = len(beta[0])
    betas = [beta[0][k] + sum((beta[i][k] for i in range(1, q)), Fraction(0)) * Fraction(1, q) for k in range(t)]
    ucols = [[Fraction(r[k], 256) for r in case["u"]] for k in range(t)]
    return betas, ucols

def _ref_rows(xo, rnd):
    """the per-marker specification: start in copy 0, switch copy at marker j iff draw_j < xoprob_j"""
    rows = []
    for r in rnd:
        ph = 0; c = []
        for j, q in enumerate(xo):
            if Fraction(r[j], D53) < q: ph ^= 1
            c.append(ph)
        rows.append(c)
    return rows

def _pred_util(case, out):
    bad = []
    fn = case["fn"]; p = case["p"]; k = len(case["sel"])
    want_shape = [k, p] if fn == "meiosis" else [2, k, p]
    if out["shape"] != want_shape: return ["result shape %s, expected %s" % (out["shape"], want_shape)]
    if out["dtype"] != case.get("gdtype", "int8"): bad.append("result dtype %s, genotype dtype %s" % (out["dtype"], case.get("gdtype", "int8")))
    layers = _util_layers(case, out)
    if out["shapes"] != [[k, p]] * len(layers): return bad + ["uniform requests %s, expected %s" % (out["shapes"], [[k, p]] * len(layers))]
    if "seed" in case and any(d is None for d in out["drawn"]): return bad + ["a generator draw is not k/2^53 with 0 <= k < 2^53"]
    draws = _draws(case, out)
    xo = [Fraction(xf(x)) for x in case["xoprob"]]
    for li, ((G, sel, gams), rnd) in enumerate(zip(layers, draws)):
        obs = _obs_rows(G, sel, gams)
        if obs is None: bad.append("layer %d: a gamete allele is not from either copy of the selected individual at its marker" % li); continue
        ref = _ref_rows(xo, rnd)
        for i, (a, b) in enumerate(zip(obs, ref)):
            if a != b:
                j = next(j for j in range(p) if a[j] != b[j])
                bad.append("layer %d gamete %d: source copy at marker %d is %d, the draws of row %d against xoprob give %d "
                           "(draw %d/2^53, xoprob %s)" % (li, i, j, a[j], i, b[j], rnd[i][j], xf(case["xoprob"][j]))); break
    if fn == "dh" and out["res"][0] != out["res"][1]: bad.append("doubled haploid not homozygous")
    if not out["ranges_ok"]: bad.append("uniform draws requested outside [0,1)")
    if not out["unchanged"]: bad.append("an input array was modified")
    for a in out.get("alias", []): bad.append("aliasing: " + a)
    return bad

def _pred_proto(case, out):
    bad = []
    if out.get("obs_error"): return [out["obs_error"]]
    dh = case["proto"].endswith("DHCross"); p = case["p"]; N = out["N"]
    nc = len(case["xconfig"])
    nm = [case["nmating"]] * nc if isinstance(case["nmating"], int) else case["nmating"]
    np_ = [case["nprogeny"]] * nc if isinstance(case["nprogeny"], int) else case["nprogeny"]
    if N != sum(a * b for a, b in zip(nm, np_)): bad.append("%d progeny, expected sum(nmating*nprogeny) = %d" % (N, sum(a * b for a, b in zip(nm, np_))))
    nlast = 1 if dh else 2
    if len(out["shapes"]) < nlast or out["shapes"][-nlast:] != [[N, p]] * nlast:
        return bad + ["the last %d uniform requests are %s, expected %s" % (nlast, out["shapes"][-nlast:], [[N, p]] * nlast)]
    if "seed" in case:
        if any(d is None for d in out["drawn"]): return bad + ["a generator draw is not k/2^53 with 0 <= k < 2^53"]
        last = out["drawn"][-nlast:]
    else:
        last = _carve(case["pool"][out.get("skip", 0):], out["shapes"])[-nlast:]
    xo = [Fraction(xf(x)) for x in case["xoprob"]]
    for k, rnd in enumerate(last):
        ref = _ref_rows(xo, rnd); obs = out["src"][k]
        for i, (a, b) in enumerate(zip(obs, ref)):
            if a != b:
                j = next(j for j in range(p) if a[j] != b[j])
                bad.append("progeny %d copy %d: source side at marker %d is %d, row %d of the uniform matrix of the last meiosis gives %d"
                           % (i, k, j, a[j], i, b[j])); break
    if dh and (not out["homozygous"] or out["src"][0] != out["src"][1]): bad.append("doubled haploid progeny are not homozygous")
    if not out["ranges_ok"]: bad.append("uniform draws requested outside [0,1)")
    if not out.get("unchanged", True): bad.append("the parental genotype matrix, its crossover probabilities or the cross configuration were modified by mate()")
    if not out.get("xoprob_kept", True): bad.append("the progeny matrix does not carry the parents' crossover probabilities (the next generation would recombine differently)")
    if out.get("counters", [N, nc]) != [N, nc]: bad.append("progeny/family counters advanced by %s, expected %s" % (out.get("counters"), [N, nc]))
    return bad

def _mapfn(fn, d):
    if math.isinf(d): return 0.5
    return 0.5 * (1.0 - math.exp(-2.0 * d)) if fn == "haldane" else 0.5 * math.tanh(2.0 * d)

def _interp_exact(rows, units, c, x):
    """exact chord interpolation / extrapolation of the map at (chromosome c, position x), in Morgans"""
    kn = sorted((r[1], Fraction(xf(r[2])) / (100 if units == "cM" else 1)) for r in rows if r[0] == c)
    if len(kn) < 2: return None
    for a in range(len(kn) - 1):
        if kn[a][0] <= x <= kn[a + 1][0]: break
    else:
        a = 0 if x < kn[0][0] else len(kn) - 2
    (x0, g0), (x1, g1) = kn[a], kn[a + 1]
    return g0 + (g1 - g0) * Fraction(x - x0, x1 - x0)

def _pred_mapped(m, chr_, phy, genpos, xoprob, check_pos=True):
    """crossover probabilities assigned from a genetic map: 1/2 exactly at chromosome starts, mapfn(gap) elsewhere; Haldane composes"""
    bad = []
    n = len(chr_)
    if check_pos:
        want = sorted((c, x) for c, x in m["mk"])
        if sorted(zip(chr_, phy)) != want or list(zip(chr_, phy)) != sorted(zip(chr_, phy)): bad.append("markers are not the sorted input markers")
        for j in range(n):
            g = _interp_exact(m["rows"], m["units"], chr_[j], phy[j])
            if g is not None and abs(Fraction(genpos[j]) - g) > Fraction(1, 10 ** 9) * (1 + abs(g)):
                bad.append("genetic position of marker %d (%d,%d) is %r, the map's chord gives %r" % (j, chr_[j], phy[j], genpos[j], float(g)))
    for j in range(n):
        start = j == 0 or chr_[j] != chr_[j - 1]
        if start:
            if xoprob[j] != 0.5: bad.append("marker %d starts chromosome %d but its crossover probability is %r, not exactly 0.5" % (j, chr_[j], xoprob[j]))
        else:
            d = genpos[j] - genpos[j - 1]
            # interpolation on a flat map segment can round to a gap of -1 ulp (scipy's barycentric form): tolerated as rounding
            if d < -1e-12 * (1.0 + abs(genpos[j])): bad.append("harness: non-monotone map"); continue
            w = _mapfn(m["fn"], d)
            if not abs(xoprob[j] - w) <= 1e-12: bad.append("marker %d: crossover probability %r, map function of the gap %r is %r" % (j, xoprob[j], d, w))
            # beyond 9 Morgans the binary64 value of either map function is exactly 1/2 (1 - tanh(2d) and exp(-2d) drop below 2^-53)
            if not (-1e-12 <= xoprob[j] < 0.5 or (d >= 9.0 and xoprob[j] == 0.5)):
                bad.append("marker %d: crossover probability %r outside [0, 1/2)" % (j, xoprob[j]))
    if m["fn"] == "haldane":                    # independent adjacent crossovers compose to the pairwise map function
        for i in range(n):
            t = 1.0
            for j in range(i + 1, n):
                t *= 1.0 - 2.0 * xoprob[j]
                r = 0.5 * (1.0 - t)
                w = _mapfn("haldane", genpos[j] - genpos[i]) if chr_[i] == chr_[j] else 0.5
                if not abs(r - w) <= 1e-12:
                    bad.append("markers %d,%d: adjacent probabilities compose to %r, Haldane of their distance is %r" % (i, j, r, w)); break
    return bad

def _pred_map(case, out):
    bad = _pred_mapped(case, out["chr"], out["phy"], [xf(x) for x in out["genpos"]], [xf(x) for x in out["xoprob"]])
    for k, ok in sorted(out.get("routes", {}).items()):
        if not ok: bad.append("%s on the same map and markers differs from what interp_xoprob stored" % k)
    if out.get("fresh") is False: bad.append("aliasing: the stored crossover probabilities / genetic positions share memory with another label array")
    return bad

def _pred_embv(case, out):
    bad = []
    geno = case["geno"]; n = len(geno[0]); p = len(case["xoprob"])
    npl = [case["nprogeny"]] * n if isinstance(case["nprogeny"], int) else case["nprogeny"]
    nrl = [case["nrep"]] * n if isinstance(case["nrep"], int) else case["nrep"]
    want_shapes = [[npl[i], p] for i in range(n) for _ in range(nrl[i])]
    if out["shapes"] != want_shapes: return ["uniform requests %s, expected one (nprogeny_i, nmarkers) matrix per taxon and replicate: %s" % (out["shapes"][:6], want_shapes[:6])]
    betas, ucols = _embv_coeffs(case); t = len(betas)
    xo = [Fraction(xf(x)) for x in case["xoprob"]]
    draws = _carve(case["pool"], out["shapes"]); k = 0
    for i in range(n):
        acc = [Fraction(0)] * t
        for _ in range(nrl[i]):
            best = None
            for c in _ref_rows(xo, draws[k]):
                gam = [geno[c[j]][i][j] for j in range(p)]
                bv = [betas[tr] + sum(2 * gam[j] * ucols[tr][j] for j in range(p)) for tr in range(t)]
                best = bv if best is None else [max(a, b) for a, b in zip(best, bv)]
            acc = [a + b for a, b in zip(acc, best)]; k += 1
        for tr in range(t):
            w = acc[tr] / nrl[i]; got = xf(out["embv"][i][tr])
            if not abs(Fraction(got) - w) <= Fraction(1, 10 ** 9) * (1 + abs(w)):
                bad.append("EMBV of taxon %d trait %d is %r; the mean over replicates of the best doubled haploid (gametes of taxon %d on the same draws) is %r"
                           % (i, tr, got, i, float(w)))
    if out["taxa"] != ["T%d" % i for i in range(n)]: bad.append("taxa labels not carried over")
    if not out["ranges_ok"]: bad.append("uniform draws requested outside [0,1)")
    if not out["unchanged"]: bad.append("genotype matrix modified")
    return bad

_BCACHE = {}
def _accept(n, prob):
    """exact two-sided acceptance interval [lo, hi] of Binomial(n, prob): P(X < lo) <= ALPHA/2 and P(X > hi) <= ALPHA/2"""
    from scipy.stats import binom
    prob = min(1.0, max(0.0, float(prob)))
    if prob <= 0.0: return 0, 0
    if prob >= 1.0: return n, n
    key = (n, prob)
    if key in _BCACHE: return _BCACHE[key]
    lo = int(binom.ppf(ALPHA / 2, n, prob)); hi = int(binom.isf(ALPHA / 2, n, prob))
    while lo > 0 and binom.cdf(lo - 1, n, prob) > ALPHA / 2: lo -= 1
    while hi < n and binom.sf(hi, n, prob) > ALPHA / 2: hi += 1
    _BCACHE[key] = (lo, hi)
    return lo, hi

def _stat_tests(out):
    """(name, count, trials, probability) of every statistic of the monitor, from the stored crossover probabilities"""
    q = [xf(x) for x in out["xoprob"]]; p = len(q); G = out["G"]
    s = []; acc = 1.0
    for j in range(p): acc *= 1.0 - 2.0 * q[j]; s.append(acc)            # E sign(copy at j)
    T = [[1.0] * p for _ in range(p)]
    for i in range(p):
        acc = 1.0
        for j in range(i + 1, p): acc *= 1.0 - 2.0 * q[j]; T[i][j] = acc   # E sign(copy i) sign(copy j)
    tests = []
    for j in range(p):
        tests.append(("copy 1 transmitted at marker %d" % j, out["seg"][j], G, 0.5 * (1.0 - s[j])))
        tests.append(("start copy 1" if j == 0 else "markers %d,%d from different copies (adjacent)" % (j - 1, j), out["xseg"][j], G, q[j]))
        tests.append(("consecutive gametes both cross over at marker %d" % j, out["cons"][j], out["Gp"], q[j] * q[j]))
        if "fm"in out: tests.append(("both gametes of a progeny cross over at marker %d" % j, out["fm"][j], out["Gfm"], q[j] * q[j]))
    same = 1.0
    for x in q: same *= x * x + (1.0 - x) * (1.0 - x)
    tests.append(("consecutive gametes have identical crossover patterns", out["roweq"], out["Gp"], same))
    if "fm" in out: tests.append(("both gametes of a progeny have identical crossover patterns", out["fmeq"], out["Gfm"], same))
    for i in range(p):
        for j in range(i + 1, p):
            c11 = out["c11"][i][j]
            tests.append(("markers %d,%d from different copies" % (i, j), out["seg"][i] + out["seg"][j] - 2 * c11, G, 0.5 * (1.0 - T[i][j])))
            tests.append(("copy 1 at both markers %d,%d" % (i, j), c11, G, 0.25 * (1.0 - s[i] - s[j] + T[i][j])))
            tests.append(("copy 0 at both markers %d,%d" % (i, j), G - out["seg"][i] - out["seg"][j] + c11, G, 0.25 * (1.0 + s[i] + s[j] + T[i][j])))
            tests.append(("crossovers at both markers %d,%d" % (i, j), out["x11"][i][j], G, q[i] * q[j]))
    return tests

def _pred_stat(case, out):
    if out.get("obs_error"): return [out["obs_error"]]
    bad = []
    if not out.get("draw_shapes_ok"): bad.append("the uniform matrices of the last meiosis do not have one row per gamete and one column per marker")
    elif out.get("det_mismatch"): bad.append("%d gametes differ from the running parity of (draw < xoprob) on their own row of draws" % out["det_mismatch"])
    if out.get("grid_ok") is False: bad.append("generator draws are not on the 2^-53 grid in [0,1)")
    if not out.get("ranges_ok", True): bad.append("uniform draws requested outside [0,1)")
    tg = case["target"]
    if isinstance(tg, list) and out["G"] != (2 * (case["G"] // 2) if tg[1] == "mate" else case["G"]): bad.append("number of gametes %d" % out["G"])
    if "map" in case:
        m = case["map"]
        bad += _pred_mapped(m, out["chr"], None, [xf(x) for x in out["genpos"]], [xf(x) for x in out["xoprob"]], check_pos=False)
    for name, cnt, n, prob in _stat_tests(out):
        lo, hi = _accept(n, prob)
        if not (lo <= cnt <= hi):
            bad.append("%s: %d of %d gametes; Binomial(%d, %.12g) lies in [%d, %d] with probability > 1 - %g" % (name, cnt, n, n, prob, lo, hi, ALPHA))
            if len(bad) >= 6: break
    return bad

def pred(case, out):
    if "exc" in out:
        return ["implementation raised %s: %s" % (out["exc"], out["msg"])]
    bad = {"util": _pred_util, "proto": _pred_proto, "map": _pred_map, "embv": _pred_embv, "stat": _pred_stat}[case["kind"]](case, out)
    seen = []
    for b in bad:
        if b not in seen: seen.append(b)
    return seen[:8]

def classify(case, out, clauses):
    return None

def nontrivial(case, out):
    if "exc" in out: return False
    k = case["kind"]
    if k == "util":
        obs = [_obs_rows(G, sel, gams) for G, sel, gams in _util_layers(case, out)]
        if any(o is None for o in obs): return False
        bits = [b for o in obs for r in o for b in r]
        return 0 in bits and 1 in bits
    if k == "proto":
        bits = [b for m in out.get("src", []) for r in m for b in r]
        return 0 in bits and 1 in bits
    if k == "map":
        c = out["chr"]
        return len(set(c)) >= 2 and any(c[j] == c[j - 1] for j in range(1, len(c)))
    if k == "embv": return True
    return out.get("G", 0) > 0

def describe(case, out):
    k = case["kind"]
    d = {"kind": k, "raised": "exc" in out}
    if k == "util": d.update({"target": case["module"] + "_" + case["fn"], "draws": "pcg64" if "seed" in case else "scripted", "markers": case["p"], "gametes": min(len(case["sel"]), 9)})
    elif k == "proto": d.update({"target": case["proto"], "draws": "pcg64" if "seed" in case else "scripted", "markers": case["p"], "nself": case["nself"]})
    elif k == "map": d.update({"target": "interp_xoprob/" + case["fn"], "mapcls": case["cls"], "units": case["units"], "gmat": case["gmat"]})
    elif k == "embv": d.update({"target": "embv.from_gmod", "markers": len(case["xoprob"])})
    else: d.update({"target": "stat:" + (case["target"] if isinstance(case["target"], str) else "_".join(case["target"])), "layout": case["layout"]})
    return d


def translate(repo, gen_dir):
    """regenerate Gen/C02_Kernel.v (bodies of mat_meiosis/dense_meiosis, dh/mate wrappers, map functions, gdist1g expressions,
    rprob1g/interp_xoprob/from_gmod wiring) from the current source; fail closed"""
    from translate import c02_kernel
    return [c02_kernel.translate(repo, gen_dir)]
