"""C17 — sampling utilities (pybrops/core/random/sampling.py + core/util/array.py:sliceaxisix):
correspondence between Model/C17_Sampling.v and the implementation, plus the independent predicate."""
import math, itertools, copy
from fractions import Fraction
import numpy
import coqemit as E

ID = "C17"
LEVEL_TEXT = ("Coq theorems over an executable model of the four sampling utilities and sliceaxisix. Stochastic universal sampling: "
              "exactly k draws, every element drawn floor or ceiling of its expected count and never a zero-weight element, for every "
              "non-negative weight vector, every descending layout (any tie-breaking of the sort), every k >= 0, every offset in [0, tot/k) and "
              "every shuffle (exact-rational pointers); for the binary64 pointers and cumulative sums exactly as the code computes them, "
              "whatever the rounding: exactly k draws for every k >= 0 and never an element of zero weight (full strength: the walk is "
              "confined to the elements of positive weight); for an arbitrary non-decreasing pointer list the count of an element is the "
              "number of pointers in its cumulative-weight cell, and the binary64 walk equals the ideal walk whenever its pointers fall in the "
              "same cells; floor/ceiling itself fails for the binary64 pointers (one rounding counterexample is proved as a _refuted theorem and "
              "reproduced on the implementation) - what is proved instead is that every element is drawn at most one draw away from "
              "floor/ceiling whenever the binary64 pointers and cumulative sums stay within tot/(8k) of the exact ones, a condition "
              "evaluated inside Coq for every generated case; the four repaired defects (pointer count, strict comparison, zero-weight tail, output size zero) are "
              "proved as _refuted theorems about definitions of the former code. Tiled choice uses every option q or q+1 times; an axis "
              "shuffle permutes the values inside every slice produced by sliceaxisix, the slices being pairwise disjoint and covering the "
              "array; outcross shuffling preserves the multiset, never raises the duplicate count, needs at most score+1 passes for every "
              "oracle and stops only at a 2-exchange local optimum (a second call then leaves the table alone after one pass); stochastic "
              "universal sampling is invariant under a common positive scaling of weights and offset. The expressions on which these "
              "theorems turn (the early return k == 0, tot_fit / k, offset + ptr_dist * arange(k), count_nonzero(p > 0.0) - 1, the while "
              "test (ix < last) and (cumsum[ix] <= ptr), the argument order of rng.uniform; divmod(nsample, noption) and the slice bounds "
              "of the tiles; numpy.sum(c-1), score < gbest_score, the unfiltered exchange list, the exchange statement and its undo, "
              "iterate = not local_optima; the argument order of sliceaxisix and its leaf test) are regenerated from the source on every "
              "run (Gen/C17_Kernel.v), the four utilities are assembled from them (Model/C17_KernelProg.v), the assembled programs are "
              "proved equal to the hand model for all inputs, and the property theorems are restated about them, so that a changed "
              "expression breaks the proof build whatever the sampled cases exercise; the binary64 comparisons of the source are proved "
              "to be the exact-value comparisons of the model on finite doubles. The model (bit-exact binary64 for pointer distance, "
              "pointers and cumulative sums) is evaluated inside Coq against the implementation's outputs on generated inputs with scripted draws")
LEVEL_NOTE = ("trusted: Coq kernel + vm_compute, PrimFloat primitives (Prim2SF gives the exact value of a double); numpy's sum of "
              "fewer than 8 doubles is left-to-right (checked differentially), longer weight vectors are generated with exact sums; "
              "scripted numpy Generator stands for every generator state (draw values are universally quantified in the theorems); "
              "theorems are about the Gallina model, the tie to the code is differential on generated inputs; a second stream with real "
              "PCG64 / RandomState generators is checked by the independent predicate only; the kernel translator "
              "(harness/translate/c17_kernel.py over pyexpr.py) is trusted to render the located expressions faithfully and pins the "
              "statement shapes around them textually (fail closed: any other shape is reported as a broken correspondence)")
TECHNIQUE = "Coq proof over an executable model (Q + PrimFloat); in-Coq vm_compute correspondence with the implementation"
PROPS = "Props/C17.v"
IMPORTS = "From Coq Require Import PrimFloat.\nFrom PV Require Import Lib.Common Model.C17_Sampling."
SHARD = 40
RULE = ("case = (function in {sus, sus_session, tiled, axis, sliceaxisix, outcross, audit}, arguments, scripted draws | PCG64 or RandomState seed); one PRNG; "
        "every scripted case may pass rng=None with the scripted generator installed as the module's global generator; "
        "sus: 1..12 weights from {small integers with ties, zeros, dyadic grid, m*2^e with e in -20..20, whole vectors scaled by 2^-60..2^-30 or 2^20..2^40 "
        "with exact zeros next to the tiny weights, arbitrary doubles for n<8} or 13..300 small-integer weights, "
        "sizes 1..12/49/98/130/200/260 as int or tuple shapes (incl. () and shapes with a zero extent), offsets {0, pred(tot/k) (preferred when a weight is zero), "
        "mid, random, placed on a cumulative-weight boundary}; sus_session: 2-3 calls on the same element and weight arrays, weights overwritten in place in between; "
        "tiled: 0..6 or 130..260 options of dtype int64/int32/int16/float64, sizes 0..20, up to 2n+3 and 2-D shapes, with/without replacement, with/without p; axis: 1-3 dimensions of "
        "extent 0..4, every axis subset incl. all, negative and out-of-range axes, C/F/strided views, and the documented TypeErrors (list/None axis, list array, foreign rng); "
        "outcross: 0..4 x 0..4 tables from a small pool of individuals (labels also shifted beyond int8/uint8/int32 or colliding modulo 2^8/2^16/2^32), C/transposed/strided views, "
        "score+1 scripted exchange-order permutations, followed by a second call on the result; results are checked for memory shared with the inputs; "
        "audit: the public functions of the module and their parameters must be exactly the ones driven here; non-trivial = weights/values not all "
        "equal and output size >= 2; distinct by SHA-256 of the case")
TRUSTED = ["numpy float64 elementwise + - * / and comparisons are IEEE-754 binary64 (modelled by Coq PrimFloat)",
           "numpy.ndarray.sum of < 8 doubles adds left to right; for >= 8 weights the generator only produces vectors whose partial sums are exact",
           "numpy.cumsum adds left to right",
           "rngscript.Scripted: shuffle(x) with script pm sets x[i] = x[pm[i]]; choice returns a[ix] for the scripted index list",
           "harness/translate/c17_kernel.py + pyexpr.py: the kernel expressions are located by function and statement shape and rendered into Gallina (Q, Z and PrimFloat sorts); "
           "Python's tuple assignment evaluates its right-hand side first; numpy.unique(row, return_counts=True) returns the multiplicities of the distinct values"]
ASSUMPTIONS = ["weights finite, non-negative, positive sum (the documented restrictions of stochastic_universal_sampling)",
               "the uniform offset lies in [0, tot/k) as numpy's Generator.uniform(0, high) guarantees for high > 0",
               "axis values of axis_shuffle are judged by the predicate only when they lie in 0..ndim-1 (negative values are silently ignored by the code: modelled, reported)"]

F = Fraction
def _fh(h): return float.fromhex(h)
def _hx(x): return float(x).hex()

# ------------------------------------------------------------------ generators
def _weights(rng, tier, nfix=None):
    kind = rng.choice(["ints", "ints", "zeros", "grid", "wide", "arb", "ties", "one", "tiny", "huge", "many"])
    if nfix is not None and kind == "many": kind = "ints"
    nmax = 12 if kind in ("ints", "grid", "wide", "zeros", "ties", "tiny", "huge") else 7
    n = rng.randint(1, nmax) if rng.random() < 0.8 else rng.randint(1, 4)
    if nfix is not None: n = nfix
    if kind == "ints": w = [float(rng.randint(1, 6)) for _ in range(n)]
    elif kind == "ties": w = [float(rng.choice([1, 1, 2, 3])) for _ in range(n)]
    elif kind == "zeros": w = [float(rng.choice([0, 0, 1, 2, 5])) for _ in range(n)]
    elif kind == "grid": w = [rng.randint(0, 2 ** 14) / 256.0 for _ in range(n)]
    elif kind == "wide": w = [rng.randint(0, 7) * 2.0 ** rng.randint(-20, 20) for _ in range(n)]
    elif kind == "one": w = [0.0] * n; w[rng.randrange(n)] = float(rng.choice([1, 3, 0.1]))
    elif kind in ("tiny", "huge"):
        # the whole vector far from 1 (still dyadic: every sum is exact): exact zeros next to tiny non-zeros, so that a
        # tolerance in place of the exact test p > 0.0 (or k == 0) changes the selection
        sc = 2.0 ** (rng.choice([-60, -40, -30]) if kind == "tiny" else rng.choice([20, 30, 40]))
        w = [float(rng.choice([0, 1, 1, 2, 3, 5])) * sc for _ in range(n)]
        if sum(w) <= 0: w[rng.randrange(n)] = sc
    elif kind == "many":
        # more elements than a narrow integer type can index (small integer weights: every partial sum is exact)
        n = rng.choice([130, 200, 260, 300]) if rng.random() < 0.5 else rng.randint(13, 40)
        w = [float(rng.choice([0, 1, 1, 2, 3])) for _ in range(n)]
    else: w = [rng.choice([0.1, 0.2, 0.3, 0.7, 1e-5, 1e10, 1.0 / 3, 2.5, rng.random(), 0.0]) for _ in range(n)]
    if sum(w) <= 0: w[rng.randrange(n)] = 1.0
    return kind, w

def _size(rng):
    r = rng.random()
    if r < 0.04: return rng.choice([130, 200, 260, [2, 65], [13, 10, 2]])     # more draws than int8 / uint8 can count
    if r < 0.45: return rng.randint(1, 12)
    if r < 0.55: return rng.choice([49, 98, 6, 3, 10, 20])
    if r < 0.65: return [rng.randint(1, 12)]
    if r < 0.85: return [rng.randint(1, 4), rng.randint(1, 4)]
    if r < 0.93: return [rng.randint(1, 3), rng.randint(1, 2), rng.randint(1, 3)]
    if r < 0.97: return []
    return rng.choice([0, [0], [2, 0]])

def _prod(size): return int(numpy.prod(size)) if not isinstance(size, int) else size

def _sus_case(rng, tier, seeded=False, nfix=None):
    kind, w = _weights(rng, tier, nfix)
    size = _size(rng)
    k = _prod(size)
    n = len(w)
    labels = rng.sample(range(-50, 400), n)
    case = {"fn": "sus", "wkind": kind, "p": [_hx(x) for x in w], "size": size, "a": labels}
    if seeded:
        case["seed"] = rng.randrange(2 ** 32)
        if rng.random() < 0.3: case["rs"] = True                 # the legacy numpy.random.RandomState is accepted as well
        return case
    if rng.random() < 0.15: case["rng_none"] = True              # rng=None: the module's global generator must be used
    tot = numpy.array(w, dtype=float).sum()
    d = float(tot / numpy.int64(k)) if k > 0 else 0.0
    okind = rng.choice(["zero", "pred", "mid", "rand", "rand", "boundary", "boundary", "boundary"])
    if 0.0 in w and rng.random() < 0.35: okind = "pred"      # the last pointer may round up to the total: zero-weight tail
    if k == 0 or not (d > 0.0) or math.isinf(d): off = 0.0; okind = "zero"
    elif okind == "zero": off = 0.0
    elif okind == "pred": off = math.nextafter(d, 0.0)
    elif okind == "mid": off = d / 2
    elif okind == "rand": off = d * (rng.randrange(1024) / 1024.0)
    else:
        cs = numpy.cumsum(sorted(w, reverse=True))
        c = float(cs[rng.randrange(len(cs))])
        off = math.fmod(c, d)
        if rng.random() < 0.3: off = math.nextafter(off, rng.choice([0.0, d]))
        if not (0.0 <= off < d): off = 0.0
    perm = list(range(k)); rng.shuffle(perm)
    case.update({"off": _hx(off), "okind": okind, "perm": perm})
    return case

def _sus_session_case(rng, tier):
    """two or three calls on the SAME element and weight arrays, the weights overwritten in place between the calls: every
    result must be a function of the state at its call (no cache keyed by the identity of an array)"""
    n = rng.randint(2, 6)
    steps = []
    for _ in range(rng.randint(2, 3)):
        st = _sus_case(rng, tier, nfix=n)
        while _prod(st["size"]) > 30: st = _sus_case(rng, tier, nfix=n)
        st.pop("rng_none", None)
        steps.append(st)
    a = steps[0]["a"]
    for st in steps: st["a"] = a
    return {"fn": "sus_session", "a": a, "steps": steps}

def _tiled_case(rng, tier, seeded=False):
    n = rng.choice([0, 1, 1, 2, 3, 3, 4, 5, 6])
    a = rng.sample(range(-20, 60), n)
    r = rng.random()
    if r < 0.6: size = rng.randint(0, 20)
    elif r < 0.8: size = [rng.randint(0, 4), rng.randint(1, 5)]
    elif r < 0.9: size = [rng.randint(1, 20)]
    else: size = [rng.randint(1, 3), rng.randint(1, 3), rng.randint(1, 3)]
    replace = rng.random() < 0.2
    pk = rng.choice(["none", "none", "uniform", "skew"])
    if rng.random() < 0.04:
        # more options / samples than a narrow integer type can count
        n = rng.choice([130, 200, 260]); a = rng.sample(range(-200, 400), n)
        size = rng.choice([n - 1, n, n + 1, 2 * n + 3, [3, n]]); ns = _prod(size); replace = False; pk = "none"
    case = {"fn": "tiled", "a": a, "size": size, "replace": replace, "pkind": pk,
            "adtype": rng.choice(["int64", "int64", "int32", "int16", "float64"])}
    if not seeded and rng.random() < 0.15: case["rng_none"] = True
    if seeded and rng.random() < 0.3: case["rs"] = True
    if n and pk == "uniform": case["p"] = [1.0 / n] * n
    elif n and pk == "skew":
        raw = [rng.randint(1, 8) for _ in range(n)]; s = float(sum(raw)); case["p"] = [x / s for x in raw]
        case["p"][-1] = 1.0 - sum(case["p"][:-1])
    else: case["p"] = None
    ns = _prod(size)
    if seeded:
        if n == 0: case["replace"] = False
        case["seed"] = rng.randrange(2 ** 32); return case
    if replace:
        case["choice"] = [rng.randrange(n) for _ in range(ns)] if n else []
        if n == 0: case["replace"] = False; case["choice"] = []
        case["perm"] = None if case["replace"] else list(range(ns))
    if not case["replace"]:
        re = ns % n if n else 0
        case["choice"] = rng.sample(range(n), re) if n else []
        perm = list(range(ns)); rng.shuffle(perm); case["perm"] = perm
    return case

def _axis_case(rng, tier, seeded=False):
    nd = rng.choice([1, 2, 2, 2, 3, 3])
    shape = [rng.choice([1, 2, 2, 3, 3, 4]) for _ in range(nd)]
    if rng.random() < 0.06: shape[rng.randrange(nd)] = 0
    r = rng.random()
    if r < 0.35: axis = rng.randrange(nd)
    elif r < 0.8: axis = sorted(rng.sample(range(nd), rng.randint(0, max(0, nd - 1))))
    elif r < 0.86: axis = list(range(nd))                      # every dimension fixed: a[s] is a scalar
    elif r < 0.93: axis = rng.choice([-1, -nd, [-1], [0, -1]]) # negative axes are silently ignored by the code
    else: axis = rng.choice([nd, [nd + 1], [0, nd]])           # out of range: ignored as well
    if isinstance(axis, list) and rng.random() < 0.3: rng.shuffle(axis)
    N = int(numpy.prod(shape))
    data = rng.sample(range(0, 500), N)
    layout = rng.choice(["C", "C", "F", "strided"])
    case = {"fn": "axis", "shape": shape, "axis": axis, "data": data, "layout": layout}
    if seeded:
        case["seed"] = rng.randrange(2 ** 32)
        r = rng.random()
        if r < 0.3: case["rs"] = True
        elif r < 0.45: case["bad"] = rng.choice(["axis_list", "axis_none", "a_list", "rng_bad"])   # the documented TypeErrors
        return case
    if rng.random() < 0.15: case["rng_none"] = True
    ax = [axis] if isinstance(axis, int) else list(axis)
    fixed = [d for d in range(nd) if d in ax]
    free = [d for d in range(nd) if d not in ax]
    nsl = int(numpy.prod([shape[d] for d in fixed])) if fixed else 1
    perms = []
    if free:
        L = shape[free[0]]
        for _ in range(nsl):
            pm = list(range(L)); rng.shuffle(pm); perms.append(pm)
    case["perms"] = perms
    return case

def _sax_case(rng, tier):
    nd = rng.choice([1, 2, 2, 3, 3, 4])
    shape = [rng.choice([0, 1, 2, 2, 3, 4]) for _ in range(nd)]
    r = rng.random()
    if r < 0.75: axis = rng.sample(range(nd), rng.randint(0, nd))
    elif r < 0.9: axis = rng.sample(range(-nd, nd + 2), rng.randint(0, nd))
    else: axis = [rng.randrange(nd)] * 2
    return {"fn": "sliceaxisix", "shape": shape, "axis": axis}

def _score(rows):
    return sum(len(r) - len(set(r)) for r in rows)

def _outcross_case(rng, tier, seeded=False):
    nc = rng.choice([0, 1, 2, 2, 3, 3, 4])
    m = rng.choice([0, 1, 2, 2, 2, 3, 3, 4])
    if nc * m > 12: m = 3
    pool = rng.randint(1, 5)
    kind = rng.choice(["random", "random", "rowdup", "solved"])
    if kind == "random": x = [[rng.randint(1, pool) for _ in range(m)] for _ in range(nc)]
    elif kind == "rowdup": x = [[i + 1] * m for i in range(nc)]
    else: x = [[(i + j) % max(m, 1) for j in range(m)] for i in range(nc)]
    if rng.random() < 0.2:
        off = rng.choice([-3, 126, 254, 1000, 2 ** 31 - 3]); x = [[v + off for v in r] for r in x]   # labels beyond narrow integer types
    elif rng.random() < 0.15:
        # distinct individuals whose labels collide in a narrower integer type
        x = [[v + rng.choice([0, 0, 256, 65536, 2 ** 32]) for v in r] for r in x]; kind = "wrap"
    layout = rng.choice(["C", "C", "T", "strided"])
    case = {"fn": "outcross", "x": x, "nc": nc, "m": m, "xkind": kind, "layout": layout}
    if seeded:
        case["seed"] = rng.randrange(2 ** 32)
        if rng.random() < 0.3: case["rs"] = True
        return case
    if rng.random() < 0.15: case["rng_none"] = True
    N = nc * m
    npairs = N * (N - 1) // 2
    perms = []
    for _ in range(_score(x) + 1):
        pm = list(range(npairs)); rng.shuffle(pm); perms.append(pm)
    case["perms"] = perms
    return case

def _fixed_cases():
    """hand-placed corners: the repaired defects, ties at a boundary, one element, zero tail"""
    cs = []
    def sus(p, size, off, perm=None, a=None):
        k = _prod(size)
        cs.append({"fn": "sus", "wkind": "fixed", "p": [_hx(x) for x in p], "size": size, "a": a or list(range(10, 10 + len(p))),
                   "off": _hx(off), "okind": "fixed", "perm": perm or list(range(k))})
    sus([1, 1], 2, 0.0)                                   # '<' picked the first element twice
    sus([2.5, 1], 4, 0.875 * (1 - 2 ** -53))              # arange gave 3 pointers
    sus([2.5, 1], 4, 0.0)
    sus([1, 2, 3], 6, 0.0); sus([1, 2, 3], 6, 0.5); sus([1, 2, 3], 3, math.nextafter(2.0, 0))
    sus([1, 1, 1, 1], 4, 0.0, [3, 1, 0, 2]); sus([1, 1, 1, 1], 2, 1.0)
    sus([5], 3, 0.0); sus([0, 0, 3], 2, 1.0); sus([3, 0, 0], [2, 2], 0.25)
    sus([1, 1], 6, 0.0); sus([1, 1], 20, 0.0)
    sus([2 ** 30, 2 ** -20], 4, 0.0); sus([2 ** 30, 2 ** -20], 1, 2.0 ** 30)
    sus([0.1, 0.2, 0.7], 10, 0.0); sus([0.1, 0.2, 0.7], 10, 0.05)
    # last pointer rounds up to the total weight: must stay on the last element of positive weight (repaired in eabf766a)
    sus([2.5, 1, 0], 4, 0.875 * (1 - 2 ** -53)); sus([0, 2.5, 0, 1, 0], 4, 0.875 * (1 - 2 ** -53), [2, 0, 3, 1])
    sus([0, 0, 3], 3, math.nextafter(1.0, 0)); sus([0.1, 0.0, 0.2], 3, math.nextafter(0.1, 0)); sus([0, 7, 0], [2, 2], math.nextafter(1.75, 0))
    # an output size of zero: empty array of the requested shape, no draws requested (repaired in f3dafbe4)
    sus([1, 2], 0, 0.0); sus([1, 2], [0], 0.0); sus([1, 0, 2], [2, 0], 0.0); sus([3], [0, 3], 0.0)
    return cs

def gen_cases(rng, tier):
    q = tier == "quick"
    cases = [{"fn": "audit"}] + _fixed_cases()
    for b in ("axis_list", "axis_none", "a_list", "rng_bad"):          # the documented argument checks of axis_shuffle
        cases.append({"fn": "axis", "shape": [2, 3], "axis": 0, "data": [5, 1, 4, 2, 3, 0], "layout": "C", "seed": 7, "bad": b})
    for _ in range(260 if q else 3000): cases.append(_sus_case(rng, tier))
    for _ in range(40 if q else 400): cases.append(_sus_session_case(rng, tier))
    for _ in range(110 if q else 1200): cases.append(_tiled_case(rng, tier))
    for _ in range(120 if q else 1200): cases.append(_axis_case(rng, tier))
    for _ in range(50 if q else 400): cases.append(_sax_case(rng, tier))
    for _ in range(110 if q else 1000): cases.append(_outcross_case(rng, tier))
    # second stream: real PCG64 generators, independent predicate only
    for _ in range(60 if q else 1500): cases.append(_sus_case(rng, tier, seeded=True))
    for _ in range(40 if q else 600): cases.append(_tiled_case(rng, tier, seeded=True))
    for _ in range(40 if q else 600): cases.append(_axis_case(rng, tier, seeded=True))
    for _ in range(40 if q else 600): cases.append(_outcross_case(rng, tier, seeded=True))
    return cases

def search_cases(rng):
    return gen_cases(rng, "thorough")

# ------------------------------------------------------------------ implementation driver
class _Limited(numpy.random.Generator):
    """a real PCG64 generator that refuses to serve more than `limit` shuffles (guards the descent loop)"""
    def __new__(cls, seed, limit):
        return super().__new__(cls, numpy.random.PCG64(seed))
    def __init__(self, seed, limit):
        super().__init__(numpy.random.PCG64(seed))
        self.limit = limit; self.nshuffle = 0
    def shuffle(self, x, axis=0):
        self.nshuffle += 1
        if self.nshuffle > self.limit:
            raise RuntimeError("more than %d shuffle passes requested" % self.limit)
        return super().shuffle(x, axis)

def _scripted(**kw):
    """rngscript.Scripted that also records the probability vector handed to choice()"""
    from rngscript import Scripted
    class _Scr(Scripted):
        def choice(self, a, size=None, replace=True, p=None, axis=0, shuffle=True):
            self.plog = getattr(self, "plog", []) + [None if p is None else [float(v) for v in p]]
            return super().choice(a, size, replace, p, axis, shuffle)
    return _Scr(**kw)

def _mk_view(data, shape, layout):
    """returns (base, view) with view.shape == shape holding `data` in C order"""
    arr = numpy.array(data, dtype=numpy.int64).reshape(shape)
    if layout == "C" or arr.ndim == 0:
        base = arr.copy(); return base, base
    if layout in ("F", "T"):
        base = numpy.asfortranarray(arr).copy(order="F"); return base, base
    # strided: every other element along every axis of a larger base
    base = numpy.full([2 * s + 1 for s in shape], -777, dtype=numpy.int64)
    sl = tuple(slice(1, 2 * s + 1, 2) for s in shape)
    base[sl] = arr
    return base, base[sl]

def _log(rng):
    out = []
    for e in rng.log:
        out.append([e[0]] + [(_hx(v) if isinstance(v, (float, numpy.floating)) else (None if v is None else (list(map(int, v)) if isinstance(v, tuple) else (bool(v) if isinstance(v, (bool, numpy.bool_)) else int(v))))) for v in e[1:]])
    return out

def run_impl(case):
    with numpy.errstate(all="ignore"):
        return _run_impl(case)

class _LimitedRS(numpy.random.RandomState):
    """the legacy generator class, with the same guard on the number of shuffles"""
    def __init__(self, seed, limit):
        super().__init__(seed)
        self.limit = limit; self.nshuffle = 0
    def shuffle(self, x):
        self.nshuffle += 1
        if self.nshuffle > self.limit:
            raise RuntimeError("more than %d shuffle passes requested" % self.limit)
        return super().shuffle(x)

def _seeded_rng(case, limit=None):
    if case.get("rs"):
        return _LimitedRS(case["seed"], limit) if limit is not None else numpy.random.RandomState(case["seed"])
    return _Limited(case["seed"], limit) if limit is not None else numpy.random.Generator(numpy.random.PCG64(case["seed"]))

class _Global:
    """rng=None must mean the module's global generator: install `rng` as sampling.global_prng for the duration of the call"""
    def __init__(self, sampling, case, rng):
        self.m, self.on, self.rng = sampling, bool(case.get("rng_none")), rng
    def __enter__(self):
        if self.on: self.saved = self.m.global_prng; self.m.global_prng = self.rng
        return None if self.on else self.rng
    def __exit__(self, *a):
        if self.on: self.m.global_prng = self.saved

# the public entry points this module drives, with the parameters it varies (A.1 of tools/PHASE2_BRIEF.md); anything else that
# appears in the anchored module makes the audit case fail until it is classified here
COVERED = {"stochastic_universal_sampling": ["a", "p", "size", "rng"],
           "tiled_choice": ["a", "size", "replace", "p", "rng"],
           "axis_shuffle": ["a", "axis", "rng"],
           "outcross_shuffle": ["xconfig", "rng"]}
SKIPPED = {"stochastic_universal_sampling(size=None)": "the default size is not usable: numpy.prod(None) is None and the division raises TypeError",
           "tiled_choice(size=None)": "same: numpy.empty(None) raises",
           "tiled_choice(a: Integral)": "documented but not implemented (a.dtype is read first); outside the property statement",
           "outcross_shuffle(xconfig.ndim != 2)": "the documented shape is (ncross, nparent)"}

def _audit():
    import inspect
    from pybrops.core.random import sampling
    from pybrops.core.util import array
    found = {}
    for name, obj in vars(sampling).items():
        if name.startswith("_"): continue
        if inspect.isfunction(obj) and obj.__module__ == sampling.__name__:
            found[name] = list(inspect.signature(obj).parameters)
        elif inspect.isclass(obj) and obj.__module__ == sampling.__name__:
            found[name] = "class"
    return {"functions": found, "all": sorted(getattr(sampling, "__all__", [])),
            "sliceaxisix": list(inspect.signature(array.sliceaxisix).parameters)}

def _sus_call(sampling, a, p, size, case):
    from rngscript import Scripted
    out = {}
    p0, a0 = p.copy(), a.copy()
    out["order"] = [int(i) for i in p.argsort()[::-1]]
    if "seed" in case: rng = _seeded_rng(case)
    else: rng = Scripted(uniforms=[_fh(case["off"])], perms=[case["perm"]])
    try:
        with _Global(sampling, case, rng) as arg:
            r = sampling.stochastic_universal_sampling(a, p, size, arg)
        out["aliases"] = bool(isinstance(r, numpy.ndarray) and r.size and (numpy.shares_memory(r, a) or numpy.shares_memory(r, p)))
        r = numpy.asarray(r)
        out["shape"] = list(r.shape); out["out"] = [int(x) for x in r.ravel()]; out["dtype"] = str(r.dtype)
    except Exception as e:
        out["raised"] = type(e).__name__; out["msg"] = str(e)[:200]
    if "seed" not in case:
        out["log"] = _log(rng); out["left"] = [len(rng.q["uniform"]), len(rng.q["perm"])]
    out["inputs_unchanged"] = bool(numpy.array_equal(p, p0) and numpy.array_equal(a, a0))
    return out

def _run_impl(case):
    from rngscript import Scripted
    from pybrops.core.random import sampling
    from pybrops.core.util.array import sliceaxisix
    fn = case["fn"]
    out = {}
    if fn == "audit":
        return _audit()
    if fn == "sus":
        p = numpy.array([_fh(h) for h in case["p"]], dtype=float)
        a = numpy.array(case["a"], dtype=numpy.int64)
        size = case["size"] if isinstance(case["size"], int) else tuple(case["size"])
        return _sus_call(sampling, a, p, size, case)
    if fn == "sus_session":
        # one pair of arrays for the whole session; the weights are overwritten in place between the calls
        a = numpy.array(case["a"], dtype=numpy.int64)
        p = numpy.zeros(len(case["a"]), dtype=float)
        outs = []
        for st in case["steps"]:
            p[:] = [_fh(h) for h in st["p"]]
            size = st["size"] if isinstance(st["size"], int) else tuple(st["size"])
            outs.append(_sus_call(sampling, a, p, size, st))
        return {"steps": outs}
    if fn == "tiled":
        a = numpy.array(case["a"], dtype=case.get("adtype", "int64"))
        size = case["size"] if isinstance(case["size"], int) else tuple(case["size"])
        p = None if case.get("p") is None else numpy.array(case["p"], dtype=float)
        a0 = a.copy()
        if "seed" in case: rng = _seeded_rng(case)
        else: rng = _scripted(choices=[case["choice"]], perms=[] if case["perm"] is None else [case["perm"]])
        try:
            with _Global(sampling, case, rng) as arg:
                r = sampling.tiled_choice(a, size, case["replace"], p, arg)
            out["aliases"] = bool(isinstance(r, numpy.ndarray) and r.size and numpy.shares_memory(r, a))
            r = numpy.asarray(r)
            out["shape"] = list(r.shape); out["out"] = [int(x) for x in r.ravel()]; out["dtype"] = str(r.dtype)
        except Exception as e:
            out["raised"] = type(e).__name__; out["msg"] = str(e)[:200]
        if "seed" not in case:
            out["log"] = _log(rng); out["left"] = [len(rng.q["choice"]), len(rng.q["perm"])]; out["choice_p"] = getattr(rng, "plog", [])
        out["inputs_unchanged"] = bool(numpy.array_equal(a, a0))
        return out
    if fn == "axis":
        base, view = _mk_view(case["data"], case["shape"], case["layout"])
        base0 = base.copy()
        axis = case["axis"] if isinstance(case["axis"], int) else tuple(case["axis"])
        if "seed" in case: rng = _seeded_rng(case)
        else: rng = Scripted(perms=case["perms"])
        bad = case.get("bad")
        arr = view
        if bad == "axis_list": axis = list(axis) if isinstance(axis, tuple) else [axis]
        elif bad == "axis_none": axis = None
        elif bad == "a_list": arr = view.tolist()
        elif bad == "rng_bad":
            import random as _random
            rng = _random.Random(0)
        try:
            with _Global(sampling, case, rng) as arg:
                r = sampling.axis_shuffle(arr, axis, arg)
            out["ret_none"] = r is None
        except Exception as e:
            out["raised"] = type(e).__name__; out["msg"] = str(e)[:200]
        out["out"] = [int(x) for x in numpy.ascontiguousarray(view).ravel()]
        if "seed" not in case:
            out["log"] = _log(rng); out["left"] = [len(rng.q["perm"])]
        if case["layout"] == "strided":
            mask = numpy.ones(base.shape, dtype=bool); mask[tuple(slice(1, 2 * s + 1, 2) for s in case["shape"])] = False
            out["outside_unchanged"] = bool(numpy.array_equal(base[mask], base0[mask]))
        else: out["outside_unchanged"] = True
        return out
    if fn == "sliceaxisix":
        try:
            res = list(sliceaxisix(tuple(case["shape"]), tuple(case["axis"])))
            enc = []
            for t in res:
                row = []
                for e in t:
                    if isinstance(e, slice):
                        if e != slice(None): raise ValueError("unexpected slice %r" % (e,))
                        row.append(None)
                    else: row.append(int(e))
                enc.append(row)
            out["out"] = enc
        except Exception as e:
            out["raised"] = type(e).__name__; out["msg"] = str(e)[:200]
        return out
    if fn == "outcross":
        nc, m = case["nc"], case["m"]
        flat = [v for r in case["x"] for v in r]
        base, view = _mk_view(flat, [nc, m], case["layout"])
        base0 = base.copy()
        s0 = _score(case["x"])
        if "seed" in case: rng = _seeded_rng(case, s0 + 2)
        else: rng = Scripted(perms=case["perms"])
        try:
            with _Global(sampling, case, rng) as arg:
                r = sampling.outcross_shuffle(view, arg)
            out["ret_none"] = r is None
        except Exception as e:
            out["raised"] = type(e).__name__; out["msg"] = str(e)[:200]
        out["out"] = [[int(v) for v in row] for row in numpy.ascontiguousarray(view)]
        out["passes"] = rng.nshuffle if "seed" in case else sum(1 for e in rng.log if e[0] == "shuffle")
        if "seed" not in case: out["log"] = _log(rng)
        if case["layout"] == "strided":
            mask = numpy.ones(base.shape, dtype=bool); mask[tuple(slice(1, 2 * s + 1, 2) for s in (nc, m))] = False
            out["outside_unchanged"] = bool(numpy.array_equal(base[mask], base0[mask]))
        else: out["outside_unchanged"] = True
        if "raised" not in out:
            # a second call on the result (same array object): a local optimum is left alone after exactly one pass
            N = nc * m
            rng2 = _Limited(case.get("seed", 0) + 1, 1) if "seed" in case else Scripted(perms=[list(range(N * (N - 1) // 2))])
            before = numpy.ascontiguousarray(view).copy()
            again = {}
            try:
                sampling.outcross_shuffle(view, rng2)
                again["same"] = bool(numpy.array_equal(numpy.ascontiguousarray(view), before))
                again["passes"] = rng2.nshuffle if "seed" in case else sum(1 for e in rng2.log if e[0] == "shuffle")
            except Exception as e:
                again["raised"] = type(e).__name__; again["msg"] = str(e)[:200]
            out["again"] = again
        return out
    raise ValueError(fn)

# ------------------------------------------------------------------ Coq emitter
def _nl(xs): return E.lst(xs, E.nat)
def _zl(xs): return E.lst(xs, E.z)

def _sus_exact(case):
    """True when no binary64 operation of the pointer computation rounds (then the ideal model must agree too)"""
    p = [_fh(h) for h in case["p"]]
    k = _prod(case["size"])
    if k == 0: return True
    tot = F(0)
    for x in p: tot += F(x)
    ft = float(numpy.array(p, dtype=float).sum())
    if F(ft) != tot: return False
    d = ft / k
    if F(d) != tot / k: return False
    off = _fh(case["off"])
    for i in range(k):
        if F(off + d * i) != F(off) + F(d) * i: return False
    acc = F(0); facc = 0.0
    for x in sorted(p, reverse=True):
        acc += F(x); facc = facc + x
        if F(facc) != acc: return False
    return True

def emit_case(case, out):
    if "seed" in case: return None
    if "exc" in out: return "false"
    fn = case["fn"]
    if fn == "audit": return None
    if fn == "sus_session":
        terms = [emit_case(st, o) for st, o in zip(case["steps"], out["steps"])]
        if len(terms) != len(case["steps"]) or any(t is None for t in terms): return "false"
        return "(%s)" % " && ".join(terms)
    if fn == "sus":
        p = [_fh(h) for h in case["p"]]
        k = _prod(case["size"])
        if k > 400: return None
        size = [case["size"]] if isinstance(case["size"], int) else list(case["size"])
        args = "%s %s %s %s %s" % (E.lst(p, E.fhex), _nl(out["order"]), E.nat(k), E.fhex(_fh(case["off"])), _nl(case["perm"]))
        if "raised" in out:
            return "(onatl_eqb (sus_f %s) None)" % args
        if out["shape"] != size: return "false"
        if k == 0:
            # nothing to draw: no request to the generator at all
            if out["log"] != [] or out["left"] != [1, 1]: return "false"
            high = None
        else:
            hl = [e for e in out["log"] if e[0] == "uniform"]
            if len(hl) != 1 or [e[0] for e in out["log"]] != ["uniform", "shuffle"] or out["left"] != [0, 0]: return "false"
            if _fh(hl[0][1]) != 0.0 or out["log"][1][1] != k: return "false"
            high = _fh(hl[0][2])
        return "(agree_sus %s %s %s %s %s)" % (args, _zl(case["a"]), E.b(_sus_exact(case)), E.opt(high, E.fhex),
                                                E.opt(out["out"], _zl))
    if fn == "tiled":
        ns = _prod(case["size"])
        size = [case["size"]] if isinstance(case["size"], int) else list(case["size"])
        perm = case["perm"] if case["perm"] is not None else []
        term = "(tiled_choice %s %s %s %s %s)" % (_zl(case["a"]), E.nat(ns), E.b(case["replace"]), _nl(case["choice"]), _nl(perm))
        if "raised" in out:
            return "(ozl_eqb %s None)" % term
        if out["shape"] != size: return "false"
        # the requests made to the generator: choice(len(a), size|re, replace) then shuffle(nsample)
        n = len(case["a"])
        log = out["log"]
        if out["choice_p"] != [case["p"]]: return "false"          # the probability vector must reach rng.choice unchanged
        if case["replace"]:
            if len(log) != 1 or log[0][0] != "choice" or log[0][1] != n or log[0][3] is not True: return "false"
            req = log[0][2] if isinstance(log[0][2], list) else [log[0][2]]
            if req != size: return "false"
            return "(ozl_eqb %s %s)" % (term, E.opt(out["out"], _zl))
        if [e[0] for e in log] != ["choice", "shuffle"] or log[0][1] != n or log[0][3] is not False or log[1][1] != ns: return "false"
        return "(ozl_eqb %s %s && Nat.eqb (tiled_re %s %s) %s)" % (term, E.opt(out["out"], _zl), E.nat(n), E.nat(ns), E.nat(log[0][2]))
    if fn == "axis":
        axis = [case["axis"]] if isinstance(case["axis"], int) else list(case["axis"])
        term = "(axis_shuffle %s %s %s %s)" % (_nl(case["shape"]), _zl(axis), E.lst(case["perms"], _nl), _zl(case["data"]))
        if "raised" in out:
            kind = {"TypeError": "EType", "RecursionError": "ERecursion"}.get(out["raised"], "EOther")
            return "(res_eqb %s (inl %s))" % (term, kind)
        if not out["outside_unchanged"] or not out.get("ret_none") or out["left"] != [0]: return "false"
        return "(res_eqb %s (inr %s))" % (term, _zl(out["out"]))
    if fn == "sliceaxisix":
        term = "(sliceaxisix %s %s)" % (_nl(case["shape"]), _zl(case["axis"]))
        if "raised" in out:
            return "(opt_eqb slices_eqb %s None)" % term
        return "(opt_eqb slices_eqb %s (Some %s))" % (term, E.lst(out["out"], lambda r: E.lst(r, lambda e: E.opt(e, E.nat))))
    if fn == "outcross":
        flat = [v for r in case["x"] for v in r]
        term = "(outcross %s %s %s)" % (E.nat(case["m"]), _zl(flat), E.lst(case["perms"], _nl))
        if "raised" in out:
            return "(oc_eqb %s None)" % term
        if not out["outside_unchanged"] or not out.get("ret_none"): return "false"
        oflat = [v for r in out["out"] for v in r]
        return "(oc_eqb %s (Some (%s, %s)))" % (term, _zl(oflat), E.nat(out["passes"]))
    return "false"

# ------------------------------------------------------------------ independent predicate
def _floor(fr): return fr.numerator // fr.denominator
def _ceil(fr): return -((-fr.numerator) // fr.denominator)

def _pred_sus(case, out):
    bad = []
    p = [F(_fh(h)) for h in case["p"]]
    k = _prod(case["size"])
    size = [case["size"]] if isinstance(case["size"], int) else list(case["size"])
    tot = sum(p)
    n = len(p)
    if "raised" in out:
        if n >= 1 and tot > 0 and all(x >= 0 for x in p):
            return ["stochastic_universal_sampling raised %s for size %r (requested %d draws): %s" % (out["raised"], case["size"], k, out["msg"])]
        return []
    if not (n >= 1 and tot > 0): return []
    if out["shape"] != size: bad.append("output shape %r != requested %r" % (out["shape"], size))
    if len(out["out"]) != k: bad.append("%d draws returned, %d requested" % (len(out["out"]), k))
    lab = case["a"]
    for v in out["out"]:
        if v not in lab: bad.append("output value %r is not an element of a" % v); break
    for i in range(n):
        c = sum(1 for v in out["out"] if v == lab[i])
        e = p[i] * k / tot
        if p[i] == 0 and c != 0: bad.append("element %d has zero weight but was selected %d times" % (i, c))
        elif not (_floor(e) <= c <= _ceil(e)):
            far = "" if _floor(e) - 1 <= c <= _ceil(e) + 1 else " - more than one draw away"
            bad.append("element %d selected %d times, expected count %s (floor %d, ceil %d)%s" % (i, c, float(e), _floor(e), _ceil(e), far))
    if not out["inputs_unchanged"]: bad.append("input arrays modified")
    if out.get("aliases"): bad.append("the result shares memory with an input array")
    if "left" in out and k > 0 and out["left"] != [0, 0]:
        bad.append("the offset and the shuffle were not both drawn from the generator in use (%s): requests %r"
                   % ("rng=None: the module's global generator" if case.get("rng_none") else "the rng argument", [e[0] for e in out.get("log", [])]))
    return bad

def _pred_session(case, out):
    bad = []
    if len(out.get("steps", [])) != len(case["steps"]): return ["session: %d of %d calls recorded" % (len(out.get("steps", [])), len(case["steps"]))]
    for i, (st, o) in enumerate(zip(case["steps"], out["steps"])):
        bad += ["call %d on the same arrays: %s" % (i, b) for b in _pred_sus(st, o)]
    return bad

def _pred_audit(case, out):
    bad = []
    for name, params in out["functions"].items():
        if name not in COVERED: bad.append("entry point %s%r of pybrops.core.random.sampling is neither driven nor classified by the C17 check" % (name, params))
        elif params != COVERED[name]: bad.append("parameters of %s are %r, the C17 check drives %r" % (name, params, COVERED[name]))
    for name in COVERED:
        if name not in out["functions"]: bad.append("entry point %s is missing from pybrops.core.random.sampling" % name)
    if sorted(out["all"]) != sorted(COVERED): bad.append("__all__ of the module is %r" % (out["all"],))
    if out["sliceaxisix"] != ["shape", "axis"]: bad.append("parameters of sliceaxisix are %r" % (out["sliceaxisix"],))
    return bad

def _pred_tiled(case, out):
    bad = []
    a = case["a"]; n = len(a)
    ns = _prod(case["size"])
    size = [case["size"]] if isinstance(case["size"], int) else list(case["size"])
    if "raised" in out:
        if n == 0 and ns > 0: return []                        # nothing to draw from
        return ["tiled_choice raised %s: %s" % (out["raised"], out["msg"])]
    if out["shape"] != size: bad.append("output shape %r != requested %r" % (out["shape"], size))
    if len(out["out"]) != ns: bad.append("%d samples returned, %d requested" % (len(out["out"]), ns))
    if any(v not in a for v in out["out"]): bad.append("output contains a value that is not an option")
    if not case["replace"] and n > 0:
        qu, re = divmod(ns, n)
        cnt = [sum(1 for v in out["out"] if v == x) for x in a]
        if any(c not in (qu, qu + 1) for c in cnt): bad.append("option counts %r are not all %d or %d" % (cnt, qu, qu + 1))
        if sum(1 for c in cnt if c == qu + 1) != re and re != 0: bad.append("%d options used %d times, remainder is %d" % (sum(1 for c in cnt if c == qu + 1), qu + 1, re))
        if max(cnt) - min(cnt) > 1: bad.append("option usage differs by more than one: %r" % cnt)
    if not out["inputs_unchanged"]: bad.append("option array modified")
    if out.get("aliases"): bad.append("the result shares memory with the option array")
    if "left" in out and out["left"] != [0, 0]:
        bad.append("the draws were not all taken from the generator in use (%s): requests %r"
                   % ("rng=None: the module's global generator" if case.get("rng_none") else "the rng argument", [e[0] for e in out.get("log", [])]))
    want = str(numpy.dtype(case.get("adtype", "int64")))
    if out.get("dtype") != want: bad.append("the result has dtype %s, the options have dtype %s" % (out.get("dtype"), want))
    return bad

def _pred_axis(case, out):
    bad = []
    shape = case["shape"]; nd = len(shape)
    ax = [case["axis"]] if isinstance(case["axis"], int) else list(case["axis"])
    inrange = all(0 <= v < nd for v in ax)
    old = numpy.array(case["data"], dtype=numpy.int64).reshape(shape)
    if case.get("bad"):
        # the documented argument checks: a must be an ndarray, axis an Integral or a tuple, rng a Generator / RandomState
        bad = []
        if out.get("raised") != "TypeError": bad.append("axis_shuffle accepted %s (TypeError expected, got %s)" % (case["bad"], out.get("raised", "no exception")))
        if out["out"] != case["data"]: bad.append("array modified by a rejected call")
        return bad
    if "raised" in out:
        if all(d in ax for d in range(nd)) and old.size > 0: return []           # nothing left to shuffle: a[s] is a scalar
        if out["raised"] == "ScriptExhausted" or "scripted" in out.get("msg", ""):
            return ["axis_shuffle requested other shuffles than one per requested slice along its first free axis (requests %r): %s"
                    % ([e[1] for e in out.get("log", [])], out["msg"])]
        return ["axis_shuffle raised %s: %s" % (out["raised"], out["msg"])]
    new = numpy.array(out["out"], dtype=numpy.int64).reshape(shape)
    if sorted(out["out"]) != sorted(case["data"]): bad.append("multiset of entries changed")
    if not out["outside_unchanged"]: bad.append("memory outside the array view modified")
    if not out.get("ret_none"): bad.append("axis_shuffle returned a value")
    if inrange:
        fixed = sorted(set(ax))
        for comb in itertools.product(*[range(shape[d]) for d in fixed]):
            s = [slice(None)] * nd
            for d, i in zip(fixed, comb): s[d] = i
            s = tuple(s)
            if sorted(numpy.asarray(new[s]).ravel().tolist()) != sorted(numpy.asarray(old[s]).ravel().tolist()):
                bad.append("values moved across the requested slice %r" % (list(comb),)); break
    if "left" in out and out["left"] != [0]: bad.append("fewer shuffles requested than there are requested slices")
    return bad

def _pred_sax(case, out):
    shape = case["shape"]; nd = len(shape); ax = case["axis"]
    if "raised" in out: return ["sliceaxisix raised %s: %s" % (out["raised"], out["msg"])]
    fixed = [d for d in range(nd) if d in ax]
    want = []
    for comb in itertools.product(*[range(shape[d]) for d in fixed]):
        t = [None] * nd
        for d, i in zip(fixed, comb): t[d] = i
        want.append(t)
    return [] if out["out"] == want else ["sliceaxisix(%r, %r) is not the row-major product over the listed axes" % (shape, ax)]

def _pred_outcross(case, out):
    bad = []
    x = case["x"]
    if "raised" in out:
        if "shuffle passes" in out.get("msg", "") or out["raised"] == "ScriptExhausted":
            return ["outcross_shuffle did not stop within score+1 = %d passes" % (_score(x) + 1)]
        if "bad scripted permutation" in out.get("msg", ""):
            N = case["nc"] * case["m"]
            return ["outcross_shuffle does not consider every pair of table entries: its exchange list has %s entries, the table has %d pairs (%s)"
                    % ([e[1] for e in out.get("log", []) if e[0] == "shuffle"][-1:], N * (N - 1) // 2, out["msg"])]
        return ["outcross_shuffle raised %s: %s" % (out["raised"], out["msg"])]
    y = out["out"]
    if sorted(v for r in x for v in r) != sorted(v for r in y for v in r): bad.append("multiset of entries changed")
    if [len(r) for r in y] != [len(r) for r in x]: bad.append("table shape changed")
    s0, s1 = _score(x), _score(y)
    if s1 > s0: bad.append("repeated individuals within crosses increased from %d to %d" % (s0, s1))
    flat = [v for r in y for v in r]; m = case["m"]
    N = len(flat)
    for i in range(N):
        for j in range(i + 1, N):
            f = list(flat); f[i], f[j] = f[j], f[i]
            if _score([f[r * m:(r + 1) * m] for r in range(len(y))]) < s1:
                bad.append("stopped although exchanging flat entries %d and %d lowers the repeats from %d" % (i, j, s1)); break
        else: continue
        break
    if out["passes"] > s0 + 1: bad.append("%d passes, more than score+1 = %d" % (out["passes"], s0 + 1))
    if out["passes"] < 1: bad.append("no pass over the exchanges was made")
    if not out["outside_unchanged"]: bad.append("memory outside the table view modified")
    if not out.get("ret_none"): bad.append("outcross_shuffle returned a value")
    ag = out.get("again")
    if ag is not None:
        if "raised" in ag: bad.append("a second call on the result did not stop after one pass (%s: %s)" % (ag["raised"], ag.get("msg", "")))
        else:
            if not ag["same"]: bad.append("a second call on the result changed the table again")
            if ag["passes"] != 1: bad.append("a second call on the result made %d passes" % ag["passes"])
    return bad

def pred(case, out):
    """the property, stated directly on the implementation's outputs (independent of the Coq model)"""
    if "exc" in out:
        return ["harness driver raised %s: %s" % (out["exc"], out["msg"])]
    fn = case["fn"]
    bad = {"sus": _pred_sus, "tiled": _pred_tiled, "axis": _pred_axis, "sliceaxisix": _pred_sax, "outcross": _pred_outcross,
           "sus_session": _pred_session, "audit": _pred_audit}[fn](case, out)
    seen = []
    for b in bad:
        if b not in seen: seen.append(b)
    return seen[:8]

# ------------------------------------------------------------------ known findings
def _float_walk(case, order):
    """the selection (before the shuffle) the binary64 arithmetic of the current algorithm produces — harness' own arithmetic"""
    p = numpy.array([_fh(h) for h in case["p"]], dtype=float)
    k = _prod(case["size"])
    cs = p[numpy.array(order, dtype=int)].cumsum()
    d = p.sum() / numpy.int64(k)
    ptrs = _fh(case["off"]) + d * numpy.arange(k)
    last = int(numpy.count_nonzero(p > 0.0)) - 1
    ix = 0; sel = []
    for ptr in ptrs:
        while ix < last and cs[ix] <= ptr: ix += 1
        sel.append(order[ix])
    return sel

def _exact_walk(case, order):
    """the same walk in exact rational arithmetic (same offset)"""
    p = [F(_fh(h)) for h in case["p"]]
    k = _prod(case["size"])
    cs = []; acc = F(0)
    for i in order: acc += p[i]; cs.append(acc)
    d = sum(p) / k; off = F(_fh(case["off"]))
    last = sum(1 for x in p if x > 0) - 1
    ix = 0; sel = []
    for t in range(k):
        ptr = off + d * t
        while ix < last and cs[ix] <= ptr: ix += 1
        sel.append(order[ix])
    return sel

def _rounding_case(case, out):
    """the implementation did exactly what the binary64 arithmetic of the current algorithm gives, and that differs from the
    exact-arithmetic walk with the same offset (or the offset, below fl(fl(sum)/k), is not below the exact sum/k)"""
    k = _prod(case["size"])
    if "off" not in case or k <= 0 or "raised" in out: return False
    fw = _float_walk(case, out["order"])
    if sorted(out["out"]) != sorted(case["a"][i] for i in fw): return False
    p = [F(_fh(h)) for h in case["p"]]
    return sorted(fw) != sorted(_exact_walk(case, out["order"])) or not (F(_fh(case["off"])) < sum(p) / k)

def classify(case, out, clauses):
    """only the floor/ceiling rounding of the binary64 pointers is a known finding, and only when every count is within one draw of
    floor/ceiling (C17_sus_float_within_one); a zero-weight element in the output or an exception for an output size of zero
    (both repaired) are violations"""
    if case["fn"] == "sus_session" and clauses:
        # every failing call of the session must itself be the known rounding pattern
        import re
        per = {}
        for c in clauses:
            m = re.match(r"call (\d+) on the same arrays: (.*)$", c, re.S)
            if not m: return None
            per.setdefault(int(m.group(1)), []).append(m.group(2))
        if all(i < len(case["steps"]) and classify(case["steps"][i], out["steps"][i], cl) == "C17-sus-rounding-floor-ceil" for i, cl in per.items()):
            return "C17-sus-rounding-floor-ceil"
        return None
    if case["fn"] == "sus" and clauses:
        if all(("selected" in c and "zero weight" not in c and "more than one draw away" not in c) for c in clauses) and _rounding_case(case, out):
            return "C17-sus-rounding-floor-ceil"
    return None

# ------------------------------------------------------------------ evidence helpers
def nontrivial(case, out):
    fn = case["fn"]
    if fn == "sus": return len(set(case["p"])) >= 2 and _prod(case["size"]) >= 2
    if fn == "sus_session": return any(nontrivial(st, o) for st, o in zip(case["steps"], out.get("steps", [])))
    if fn == "tiled": return len(case["a"]) >= 2 and _prod(case["size"]) >= 2
    if fn == "axis": return int(numpy.prod(case["shape"])) >= 2 and len(case["shape"]) >= 2
    if fn == "sliceaxisix": return len(case["shape"]) >= 2 and len(case["axis"]) >= 1
    if fn == "outcross": return _score(case["x"]) >= 1 and case["nc"] >= 2
    return False

def describe(case, out):
    fn = case["fn"]
    d = {"fn": fn, "stream": ("randomstate" if case.get("rs") else "pcg64") if "seed" in case else "scripted", "raised": out.get("raised", out.get("exc", "no")),
         "rng_none": bool(case.get("rng_none"))}
    if fn == "sus_session": d["calls"] = len(case["steps"])
    if case.get("bad"): d["bad_argument"] = case["bad"]
    if fn == "sus":
        k = _prod(case["size"])
        d.update({"weights": case["wkind"], "offset": case.get("okind", "pcg64"), "k": "0" if k == 0 else ("1" if k == 1 else ("2-12" if k <= 12 else ">12")),
                  "shape_rank": 1 if isinstance(case["size"], int) else len(case["size"]),
                  "has_zero_weight": any(_fh(h) == 0.0 for h in case["p"]), "has_ties": len(set(case["p"])) < len(case["p"]),
                  "exact_pointers": _sus_exact(case) if "off" in case else "n/a"})
    elif fn == "tiled":
        d.update({"noption": min(len(case["a"]), 7), "replace": case["replace"], "p": case["pkind"], "dtype": case.get("adtype", "int64"),
                  "remainder": (_prod(case["size"]) % len(case["a"])) if case["a"] else "n/a"})
    elif fn == "axis":
        ax = [case["axis"]] if isinstance(case["axis"], int) else list(case["axis"])
        nd = len(case["shape"])
        d.update({"ndim": nd, "layout": case["layout"], "axis_kind": "all" if set(ax) == set(range(nd)) else ("negative/out-of-range" if any(v < 0 or v >= nd for v in ax) else ("none" if not ax else "some")),
                  "empty": 0 in case["shape"]})
    elif fn == "sliceaxisix": d.update({"ndim": len(case["shape"]), "naxis": len(case["axis"])})
    elif fn == "outcross":
        d.update({"layout": case["layout"], "table": case["xkind"], "score0": min(_score(case["x"]), 5), "passes": out.get("passes")})
    return d

def shrink(case, fails):
    """drop weights (sus) / crosses (outcross) / options (tiled) while the predicate still fails and the scripted draws stay valid"""
    cur = copy.deepcopy(case)
    fn = cur["fn"]
    if fn == "sus":
        changed = True
        while changed and len(cur["p"]) > 1:
            changed = False
            for i in range(len(cur["p"])):
                t = copy.deepcopy(cur); del t["p"][i]; del t["a"][i]
                w = [_fh(h) for h in t["p"]]; k = _prod(t["size"])
                if sum(w) <= 0: continue
                if "off" in t:
                    if k <= 0: continue
                    d = float(numpy.array(w, dtype=float).sum() / numpy.int64(k))
                    if not (0.0 <= _fh(t["off"]) < d): continue
                if fails(t): cur = t; changed = True; break
    elif fn == "outcross":
        changed = True
        while changed and len(cur["x"]) > 1:
            changed = False
            for i in range(len(cur["x"])):
                t = copy.deepcopy(cur); del t["x"][i]; t["nc"] -= 1
                if "perms" in t:
                    N = t["nc"] * t["m"]; t["perms"] = [list(range(N * (N - 1) // 2)) for _ in range(_score(t["x"]) + 1)]
                if fails(t): cur = t; changed = True; break
    elif fn == "tiled" and "seed" in cur:
        while len(cur["a"]) > 1:
            t = copy.deepcopy(cur); t["a"] = t["a"][:-1]
            if t.get("p") is not None: t["p"] = [1.0 / len(t["a"])] * len(t["a"])
            if fails(t): cur = t
            else: break
    return cur


def translate(repo, gen_dir):
    """regenerate Gen/C17_Kernel.v (the kernel expressions of the four sampling utilities and of sliceaxisix) from the current
    source; fail closed"""
    from translate import c17_kernel
    return [c17_kernel.translate(repo, gen_dir)]
