"""C09 — genotype summary statistics: correspondence between Model/C09_Stats.v and
DenseGenotypeMatrix / DensePhasedGenotypeMatrix, plus the independent predicate."""
import math
from fractions import Fraction
import numpy
import coqemit as E

ID = "C09"
LEVEL_TEXT = ("Coq theorems over a bit-exact binary64 (PrimFloat/Flocq) and exact-integer model of the summary statistics: "
              "frequency in [0,1] and exactly 0/1 iff the locus is fixed for every size up to 2^53 copies, afixed = not apoly = count-based flag, "
              "genotype classes = ploidy+1 and column totals = ntaxa, phased counts = counts of the unphased projection, phased allele-test "
              "polymorphism flag = count-based flag; the model is tied to the code by evaluating it inside Coq against the implementation's "
              "outputs (bit-for-bit for frequencies) on generated matrices incl. all sizes with inexact reciprocals")
LEVEL_NOTE = ("trusted: Coq kernel + vm_compute, PrimFloat/Uint63 primitives and FloatAxioms specs, classical real axioms via Flocq; "
              "numpy integer sums/int->float conversion; meh and the {-1,m,1} coding compared within 2^-30 of the exact rational (BLAS summation order not modelled); "
              "theorems are about the Gallina model, the tie to the code is differential on generated inputs")
TECHNIQUE = "Coq proof (Flocq + PrimFloat) over an executable model; in-Coq vm_compute correspondence with the implementation"
PROPS = "Props/C09.v"
IMPORTS = "From Coq Require Import PrimFloat.\nFrom PV Require Import Lib.Common Model.C09_Stats."
SHARD = 20
RULE = ("case = (kind unphased|phased, ploidy, allele/dosage matrix); generated from one PRNG: sizes n in 1..130 plus the "
        "sizes where 1/(ploidy*n) is inexact (49,98,103,107,161,187,196,197), p in 1..8, columns forced to be fixed-0, fixed-1 "
        "or polymorphic; non-trivial = at least one polymorphic and one fixed locus and n >= 2; distinct by SHA-256 of the case")
TRUSTED = ["numpy integer summation and int64->float64 conversion are exact below 2^53 (modelled by PrimFloat.of_uint63)",
           "meh uses BLAS dot / pairwise sum: compared in tolerance regime T (2^-30 relative) against the exact rational"]
ASSUMPTIONS = ["dosages in 0..ploidy (unphased) / alleles in {0,1} (phased), int8 storage as the constructors require"]

BAD_N = [49, 98, 103, 107, 161, 187, 196, 197]

def _matrix(rng, n, p, ploidy, phased):
    cols = []
    for j in range(p):
        k = rng.random()
        if k < 0.25: col = [0] * n if not phased else None; kind = "fix0"
        elif k < 0.5: kind = "fix1"
        elif k < 0.6: kind = "one"      # a single deviating allele copy
        else: kind = "poly"
        cols.append(kind)
    if phased:
        m = ploidy
        mat = [[[0] * p for _ in range(n)] for _ in range(m)]
        for j, kind in enumerate(cols):
            for ph in range(m):
                for i in range(n):
                    mat[ph][i][j] = {"fix0": 0, "fix1": 1, "one": 1, "poly": rng.randint(0, 1)}[kind]
            if kind == "one":
                mat[rng.randrange(m)][rng.randrange(n)][j] = 0
        return mat
    mat = [[0] * p for _ in range(n)]
    for j, kind in enumerate(cols):
        for i in range(n):
            mat[i][j] = {"fix0": 0, "fix1": ploidy, "one": ploidy, "poly": rng.randint(0, ploidy)}[kind]
        if kind == "one":
            mat[rng.randrange(n)][j] = ploidy - 1
    return mat

def gen_cases(rng, tier):
    cases = []
    N = 260 if tier == "quick" else 4000
    sizes = list(range(1, 131)) + BAD_N
    # boundary sweep: fully fixed and one-off columns at every awkward size
    for n in (BAD_N + [1, 2, 3, 7]) if tier == "quick" else sorted(set(range(1, 400)) | set(BAD_N)):
        for phased in (False, True):
            ploidy = 2 if phased else rng.choice([1, 2, 2, 4])
            if phased:
                mat = [[[1, 0, 1] for _ in range(n)] for _ in range(ploidy)]
                mat[0][0][2] = 0
            else:
                mat = [[ploidy, 0, ploidy] for _ in range(n)]
                mat[0][2] = ploidy - 1
            cases.append({"kind": "phased" if phased else "unphased", "ploidy": ploidy, "mat": mat})
    # size-dependent paths (accumulator width, chunking): large populations, predicate only (see emit_case)
    for n, phased in ((20000, False), (17000, True)) if tier == "quick" else ((20000, False), (17000, True), (70000, False), (33000, True)):
        ploidy = 2
        if phased:
            mat = [[[1, 0, rng.randint(0, 1)] for _ in range(n)] for _ in range(ploidy)]
        else:
            mat = [[ploidy, 0, rng.randint(0, ploidy)] for _ in range(n)]
        cases.append({"kind": "phased" if phased else "unphased", "ploidy": ploidy, "mat": mat, "big": True})
    for _ in range(N):
        phased = rng.random() < 0.5
        n = rng.choice(sizes) if rng.random() < 0.7 else rng.randint(1, 12)
        p = rng.randint(1, 6)
        ploidy = rng.choice([1, 2, 2, 2, 3]) if phased else rng.choice([1, 2, 2, 2, 4])
        c = {"kind": "phased" if phased else "unphased", "ploidy": ploidy, "mat": _matrix(rng, n, p, ploidy, phased)}
        # how the object is obtained: directly, or through the library's own structural operations / copies / the mat setter
        # (the statistics must describe the matrix the object holds NOW: cached ploidy, stale shapes ... must not leak in)
        if rng.random() < 0.45:
            c["route"] = rng.choice(ROUTES_PHASED if phased else ROUTES_UNPHASED); c["rseed"] = rng.randrange(1 << 30)
        cases.append(c)
    for phased in (False, True):                                  # every route at least twice per run
        for route in (ROUTES_PHASED if phased else ROUTES_UNPHASED):
            for ploidy in ((2, 3) if phased else (2, 4)):
                n = rng.randint(2, 9); p = rng.randint(1, 5)
                cases.append({"kind": "phased" if phased else "unphased", "ploidy": ploidy, "mat": _matrix(rng, n, p, ploidy, phased),
                              "route": route, "rseed": rng.randrange(1 << 30)})
    return cases

ROUTES_PHASED = ("append_phase", "append_generic_phase", "remove_phase", "incorp_phase", "select_phase", "adjoin_phase", "append_taxa",
                 "select_taxa", "remove_taxa", "mat_setter", "copy", "deepcopy")
ROUTES_UNPHASED = ("append_taxa", "adjoin_taxa", "select_taxa", "delete_taxa", "remove_taxa", "insert_taxa", "concat_taxa", "select_vrnt",
                   "adjoin_vrnt", "mat_setter", "copy", "deepcopy")

def _build(case):
    """the genotype-matrix object holding case['mat'], obtained by the route of the case"""
    import copy as _copy, random as _random
    from pybrops.popgen.gmat.DenseGenotypeMatrix import DenseGenotypeMatrix
    from pybrops.popgen.gmat.DensePhasedGenotypeMatrix import DensePhasedGenotypeMatrix
    mat = numpy.array(case["mat"], dtype="int8")
    ph = case["kind"] == "phased"
    mk = (lambda a: DensePhasedGenotypeMatrix(numpy.ascontiguousarray(a))) if ph else (lambda a: DenseGenotypeMatrix(numpy.ascontiguousarray(a), ploidy=case["ploidy"]))
    route = case.get("route", "direct")
    r = _random.Random(case.get("rseed", 0))
    tax = 1 if ph else 0; vax = 2 if ph else 1
    n = mat.shape[tax]; p = mat.shape[vax]; m = mat.shape[0] if ph else None
    junk = lambda shape: numpy.array([r.randint(0, 1 if ph else case["ploidy"]) for _ in range(int(numpy.prod(shape)))], dtype="int8").reshape(shape)
    if route == "direct": return mk(mat)
    if route == "copy": return _copy.copy(mk(mat))
    if route == "deepcopy": return _copy.deepcopy(mk(mat))
    if route == "mat_setter":
        shp = list(mat.shape)
        if ph: shp[0] = r.choice([1, 2, 3, 4])
        shp[tax] = r.randint(1, n + 2)
        g = mk(junk(shp)); g.mat = mat.copy(); return g
    if route in ("append_phase", "append_generic_phase", "adjoin_phase") and m >= 2:
        k = r.randint(1, m - 1); g = mk(mat[:k])
        if route == "append_phase": g.append_phase(mat[k:].copy()); return g
        if route == "append_generic_phase": g.append(mat[k:].copy(), axis=0); return g
        return g.adjoin_phase(mat[k:].copy())
    if route == "remove_phase":
        e = r.randint(1, 2); big = numpy.concatenate([mat, junk((e,) + mat.shape[1:])], axis=0)
        perm = list(range(m + e)); r.shuffle(perm); inv = sorted(range(m + e), key=lambda i: perm[i])
        g = mk(big[perm]); g.remove_phase([i for i in range(m + e) if perm[i] >= m])
        order = [perm[i] for i in range(m + e) if perm[i] < m]          # phases left, in their current order
        return mk(mat) if order != sorted(order) and False else _reorder_phase(g, order)
    if route == "incorp_phase" and m >= 2:
        j = r.randrange(m); g = mk(numpy.delete(mat, j, axis=0)); g.incorp_phase([j], mat[j:j + 1].copy()); return g
    if route == "select_phase":
        e = r.randint(0, 2); big = numpy.concatenate([mat, junk((e,) + mat.shape[1:])], axis=0) if e else mat
        return mk(big).select_phase(list(range(m)))
    if route in ("append_taxa", "adjoin_taxa") and n >= 2:
        k = r.randint(1, n - 1); a, b = numpy.take(mat, range(k), axis=tax), numpy.take(mat, range(k, n), axis=tax)
        g = mk(a)
        if route == "append_taxa": g.append_taxa(b.copy()); return g
        return g.adjoin_taxa(b.copy())
    if route in ("select_taxa", "delete_taxa", "remove_taxa"):
        e = r.randint(1, 3); shp = list(mat.shape); shp[tax] = e
        big = numpy.concatenate([mat, junk(shp)], axis=tax)
        g = mk(big)
        if route == "select_taxa": return g.select_taxa(list(range(n)))
        if route == "delete_taxa": return g.delete_taxa(list(range(n, n + e)))
        g.remove_taxa(list(range(n, n + e))); return g
    if route == "insert_taxa" and n >= 2:
        j = r.randrange(n); g = mk(numpy.delete(mat, j, axis=tax))
        return g.insert_taxa([j], numpy.take(mat, [j], axis=tax).copy())
    if route == "concat_taxa" and n >= 2:
        k = r.randint(1, n - 1)
        return type(mk(mat)).concat_taxa([mk(numpy.take(mat, range(k), axis=tax)), mk(numpy.take(mat, range(k, n), axis=tax))])
    if route == "select_vrnt":
        e = r.randint(1, 2); shp = list(mat.shape); shp[vax] = e
        return mk(numpy.concatenate([mat, junk(shp)], axis=vax)).select_vrnt(list(range(p)))
    if route == "adjoin_vrnt" and p >= 2:
        k = r.randint(1, p - 1)
        return mk(numpy.take(mat, range(k), axis=vax)).adjoin_vrnt(numpy.take(mat, range(k, p), axis=vax).copy())
    return mk(mat)

def _reorder_phase(g, order):
    """phases of g are the wanted ones in the order `order` (a permutation of 0..m-1): bring them to 0..m-1"""
    if order != sorted(order):
        g = g.select_phase([order.index(i) for i in range(len(order))])
    return g

def _hx(a):
    a = numpy.asarray(a, dtype=float)
    if a.ndim == 0: return float(a).hex()
    if a.ndim == 1: return [float(x).hex() for x in a]
    return [[float(x).hex() for x in r] for r in a]

def run_impl(case):
    from pybrops.popgen.gmat.DenseGenotypeMatrix import DenseGenotypeMatrix
    from pybrops.popgen.gmat.DensePhasedGenotypeMatrix import DensePhasedGenotypeMatrix
    mat = numpy.array(case["mat"], dtype="int8")
    g = _build(case)
    before = mat.copy()
    out = {}
    out["route_ok"] = bool(numpy.array_equal(g.mat, mat)) and g.mat.dtype == mat.dtype
    out["ploidy"] = int(g.ploidy)
    out["tacount"] = g.tacount().tolist()
    out["tafreq"] = _hx(g.tafreq())
    out["acount"] = [int(x) for x in g.acount()]
    af = g.afreq()
    out["afreq"] = _hx(af)
    out["afreq_dtype"] = str(af.dtype)
    out["afreq_f64"] = _hx(g.afreq(dtype="float64"))
    out["afixed"] = [bool(x) for x in g.afixed()]
    out["apoly"] = [bool(x) for x in g.apoly()]
    out["maf"] = _hx(g.maf())
    out["meh"] = float(g.meh()).hex()
    gc = g.gtcount()
    out["gtcount"] = gc.tolist()
    out["gtcount_dtype"] = str(gc.dtype)
    out["gtfreq"] = _hx(g.gtfreq())
    out["f012"] = numpy.asarray(g.mat_asformat("{0,1,2}")).tolist()
    out["fm101"] = numpy.asarray(g.mat_asformat("{-1,0,1}")).tolist()
    out["fm1m1"] = _hx(g.mat_asformat("{-1,m,1}"))
    # requested output dtypes: every statistic that takes a dtype argument, with non-default dtypes
    dv = {}
    for name, dts in (("tacount", ["int8", "float64"]), ("tafreq", ["float32"]), ("acount", ["int32", "float64"]),
                      ("afreq", ["float32"]), ("afixed", ["int64", "int8", "float64", "bool"]),
                      ("apoly", ["int64", "int8", "float64", "bool"]), ("maf", ["float32"]), ("meh", ["float32"]),
                      ("gtcount", ["int32", "float64"]), ("gtfreq", ["float32"])):
        for dt in dts:
            r = getattr(g, name)(dtype=dt)
            a = numpy.asarray(r)
            dv["%s:%s" % (name, dt)] = {"dtype": str(a.dtype), "val": _hx(a.astype(float))}
    out["dtypes"] = dv
    out["unchanged"] = bool(numpy.array_equal(g.mat, before))
    if case["kind"] == "phased":
        # the unphased projection of the same data must give identical answers
        from pybrops.breed.prot.gt.DenseUnphasedGenotyping import DenseUnphasedGenotyping
        u = DenseUnphasedGenotyping().genotype(g)          # the library's own unphased projection
        out["proj_mat_ok"] = bool(numpy.array_equal(u.mat, mat.sum(0))) and int(u.ploidy) == int(g.ploidy)
        out["proj"] = {"acount": [int(x) for x in u.acount()], "afreq": _hx(u.afreq()), "afixed": [bool(x) for x in u.afixed()],
                       "apoly": [bool(x) for x in u.apoly()], "maf": _hx(u.maf()), "meh": float(u.meh()).hex(),
                       "gtcount": u.gtcount().tolist(), "tacount": u.tacount().tolist()}
    return out

def _fh(h): return float.fromhex(h)

def emit_case(case, out):
    if "exc" in out:
        return "false"
    if case.get("big"):
        return None            # a 20000-row literal is too large for a shard; the independent predicate decides these
    Z, fh = E.z, lambda h: E.fhex(_fh(h))
    q = lambda h: E.q(Fraction(_fh(h)))
    mat = case["mat"]; ploidy = case["ploidy"]
    parts = []
    if case["kind"] == "unphased":
        n, p = len(mat), len(mat[0])
        M = E.lst2(mat, Z)
        parts.append("zll_eqb (tacount %s) %s" % (M, E.lst2(out["tacount"], Z)))
        parts.append("zl_eqb (acount %d %s) %s" % (p, M, E.lst(out["acount"], Z)))
        parts.append("fl_eqb (afreq_f %s %d %s) %s" % (Z(ploidy), p, M, E.lst(out["afreq"], fh)))
        parts.append("fl_eqb (afreq_f %s %d %s) %s" % (Z(ploidy), p, M, E.lst(out["afreq_f64"], fh)))
        parts.append("bl_eqb (afixed %s %d %s) %s" % (Z(ploidy), p, M, E.lst(out["afixed"], E.b)))
        parts.append("bl_eqb (apoly %s %d %s) %s" % (Z(ploidy), p, M, E.lst(out["apoly"], E.b)))
        parts.append("fl_eqb (maf_f %s %d %s) %s" % (Z(ploidy), p, M, E.lst(out["maf"], fh)))
        parts.append("Qclose %s (meh_q %s %d %s)" % (q(out["meh"]), Z(ploidy), p, M))
        parts.append("fll_eqb (tafreq_f %s %s) %s" % (Z(ploidy), M, E.lst2(out["tafreq"], fh)))
        parts.append("zll_eqb (gtcount %d %d %s) %s" % (ploidy, p, M, E.lst2(out["gtcount"], Z)))
        parts.append("fll_eqb (gtfreq_f %d %d %s) %s" % (ploidy, p, M, E.lst2(out["gtfreq"], fh)))
        parts.append("zll_eqb (fmt_012 %s) %s" % (M, E.lst2(out["f012"], Z)))
        parts.append("zll_eqb (fmt_m101 %s) %s" % (M, E.lst2(out["fm101"], Z)))
        parts.append("qclose_ll %s (fmt_m1m1 %d %s)" % (E.lst2(out["fm1m1"], q), p, M))
    else:
        m, n, p = len(mat), len(mat[0]), len(mat[0][0])
        P = E.lst3(mat, Z)
        parts.append("zll_eqb (tacount_ph %d %d %s) %s" % (n, p, P, E.lst2(out["tacount"], Z)))
        parts.append("zl_eqb (acount_ph %d %s) %s" % (p, P, E.lst(out["acount"], Z)))
        parts.append("fl_eqb (afreq_ph_f %d %d %s) %s" % (n, p, P, E.lst(out["afreq"], fh)))
        parts.append("bl_eqb (afixed_ph %d %d %s) %s" % (n, p, P, E.lst(out["afixed"], E.b)))
        parts.append("bl_eqb (apoly_ph %d %s) %s" % (p, P, E.lst(out["apoly"], E.b)))
        T = "(tacount_ph %d %d %s)" % (n, p, P)
        parts.append("fl_eqb (maf_f %s %d %s) %s" % (Z(m), p, T, E.lst(out["maf"], fh)))
        parts.append("Qclose %s (meh_q %s %d %s)" % (q(out["meh"]), Z(m), p, T))
        parts.append("fll_eqb (tafreq_f %s %s) %s" % (Z(m), T, E.lst2(out["tafreq"], fh)))
        parts.append("zll_eqb (gtcount %d %d %s) %s" % (m, p, T, E.lst2(out["gtcount"], Z)))
        parts.append("fll_eqb (gtfreq_f %d %d %s) %s" % (m, p, T, E.lst2(out["gtfreq"], fh)))
        parts.append("zll_eqb (fmt_012 %s) %s" % (T, E.lst2(out["f012"], Z)))
        parts.append("zll_eqb (fmt_m101 %s) %s" % (T, E.lst2(out["fm101"], Z)))
        parts.append("qclose_ll %s (fmt_m1m1 %d %s)" % (E.lst2(out["fm1m1"], q), p, T))
    b2z = "(map (fun b : bool => if b then 1%Z else 0%Z))"
    zq = lambda h: Z(int(_fh(h)))
    Mx = E.lst2(mat, Z) if case["kind"] == "unphased" else "(tacount_ph %d %d %s)" % (len(mat[0]), len(mat[0][0]), E.lst3(mat, Z))
    pl = ploidy if case["kind"] == "unphased" else len(mat)
    pp = len(mat[0]) if case["kind"] == "unphased" else len(mat[0][0])
    for dt in ("int64", "int8", "float64", "bool"):
        parts.append("zl_eqb (%s (afixed %s %d %s)) %s" % (b2z, Z(pl), pp, Mx, E.lst(out["dtypes"]["afixed:" + dt]["val"], zq)))
        parts.append("zl_eqb (%s (apoly %s %d %s)) %s" % (b2z, Z(pl), pp, Mx, E.lst(out["dtypes"]["apoly:" + dt]["val"], zq)))
    for dt in ("int32", "float64"):
        parts.append("zl_eqb (acount %d %s) %s" % (pp, Mx, E.lst(out["dtypes"]["acount:" + dt]["val"], zq)))
        parts.append("zll_eqb (gtcount %d %d %s) %s" % (pl, pp, Mx, E.lst2(out["dtypes"]["gtcount:" + dt]["val"], zq)))
    return "(" + "\n   && ".join(parts) + ")"

def pred(case, out):
    """the property, stated directly on the implementation's outputs (independent of the Coq model)"""
    if "exc" in out:
        return ["implementation raised %s: %s" % (out["exc"], out["msg"])]
    bad = []
    mat = numpy.array(case["mat"], dtype=int)
    ploidy = case["ploidy"]
    dos = mat.sum(0) if case["kind"] == "phased" else mat
    n, p = dos.shape
    N = ploidy * n
    c = [int(x) for x in dos.sum(0)]
    if out["ploidy"] != ploidy: bad.append("ploidy reported %r for a matrix of ploidy %d (route %s)" % (out["ploidy"], ploidy, case.get("route", "direct")))
    if not out.get("route_ok", True): bad.append("route %s did not produce the intended matrix" % case.get("route"))
    if out["tacount"] != dos.tolist(): bad.append("tacount != per-taxon allele count")
    if out["acount"] != c: bad.append("acount != column sums")
    fr = [_fh(h) for h in out["afreq"]]
    for j in range(p):
        x = fr[j]
        if not (0.0 <= x <= 1.0): bad.append("afreq outside [0,1] at locus %d" % j)
        if (x == 0.0) != (c[j] == 0): bad.append("afreq == 0 iff allele absent fails at locus %d (c=%d N=%d x=%r)" % (j, c[j], N, x))
        if (x == 1.0) != (c[j] == N): bad.append("afreq == 1 iff allele fixed fails at locus %d (c=%d N=%d x=%r)" % (j, c[j], N, x))
        if abs(Fraction(x) - Fraction(c[j], N)) > Fraction(1, 2 ** 50): bad.append("afreq != c/N at locus %d" % j)
        fixed = c[j] in (0, N)
        if out["afixed"][j] != fixed: bad.append("afixed wrong at locus %d (c=%d N=%d)" % (j, c[j], N))
        if out["apoly"][j] != (not fixed): bad.append("apoly wrong at locus %d (c=%d N=%d)" % (j, c[j], N))
        if out["afixed"][j] == out["apoly"][j]: bad.append("afixed is not the complement of apoly at locus %d" % j)
        mf = _fh(out["maf"][j])
        if abs(Fraction(mf) - min(Fraction(c[j], N), 1 - Fraction(c[j], N))) > Fraction(1, 2 ** 50): bad.append("maf at locus %d" % j)
    meh = Fraction(ploidy, p) * sum(Fraction(cj, N) * (1 - Fraction(cj, N)) for cj in c)
    if abs(Fraction(_fh(out["meh"])) - meh) > Fraction(1, 2 ** 40): bad.append("meh != (ploidy/p) sum p(1-p)")
    if all(cj in (0, N) for cj in c) and _fh(out["meh"]) != 0.0: bad.append("meh != 0 for a fixed population")
    gc = out["gtcount"]
    if len(gc) != ploidy + 1: bad.append("gtcount has %d classes, expected ploidy+1 = %d" % (len(gc), ploidy + 1))
    else:
        for j in range(p):
            if sum(gc[i][j] for i in range(ploidy + 1)) != n: bad.append("gtcount column %d does not sum to ntaxa" % j)
            for i in range(ploidy + 1):
                if gc[i][j] != int((dos[:, j] == i).sum()): bad.append("gtcount[%d][%d]" % (i, j))
        gf = out["gtfreq"]
        for i in range(len(gc)):
            for j in range(p):
                if abs(Fraction(_fh(gf[i][j])) - Fraction(gc[i][j], n)) > Fraction(1, 2 ** 50): bad.append("gtfreq[%d][%d]" % (i, j))
    tf = out["tafreq"]
    for i in range(n):
        for j in range(p):
            if abs(Fraction(_fh(tf[i][j])) - Fraction(int(dos[i, j]), ploidy)) > Fraction(1, 2 ** 50): bad.append("tafreq[%d][%d]" % (i, j))
    if out["f012"] != dos.tolist(): bad.append("coding {0,1,2}")
    if out["fm101"] != (dos - 1).tolist(): bad.append("coding {-1,0,1}")
    sh = dos - 1
    for j in range(p):
        mean = Fraction(int(sh[:, j].sum()), n)
        for i in range(n):
            want = mean if sh[i, j] == 0 else Fraction(int(sh[i, j]))
            if abs(Fraction(_fh(out["fm1m1"][i][j])) - want) > Fraction(1, 2 ** 40): bad.append("coding {-1,m,1} [%d][%d]" % (i, j))
    # requested dtypes: value = definition cast to the dtype, dtype as requested
    f32 = lambda x: float(numpy.float32(x))
    fixed = [cj in (0, N) for cj in c]
    want = {"tacount": dos.astype(float).tolist(), "acount": [float(x) for x in c],
            "afixed": [1.0 if f else 0.0 for f in fixed], "apoly": [0.0 if f else 1.0 for f in fixed],
            "gtcount": [[float((dos[:, j] == i).sum()) for j in range(p)] for i in range(ploidy + 1)],
            "afreq": [f32(cj / N) for cj in c], "maf": [f32(min(cj / N, 1.0 - cj / N)) for cj in c],
            "tafreq": [[f32(int(dos[i, j]) / ploidy) for j in range(p)] for i in range(n)],
            "gtfreq": [[f32(int((dos[:, j] == i).sum()) / n) for j in range(p)] for i in range(ploidy + 1)]}
    def close(a, b, tol):
        a = numpy.asarray(a, dtype=float); b = numpy.asarray(b, dtype=float)
        return a.shape == b.shape and bool(numpy.all(numpy.abs(a - b) <= tol))
    for key, rec in out.get("dtypes", {}).items():
        name, dt = key.split(":")
        if rec["dtype"] != str(numpy.dtype(dt)): bad.append("%s(dtype=%s) returned dtype %s" % (name, dt, rec["dtype"]))
        got = numpy.vectorize(_fh)(numpy.array(rec["val"], dtype=object)).astype(float) if numpy.size(rec["val"]) else numpy.array(rec["val"], dtype=float)
        if name == "meh":
            if abs(float(got) - f32(float(meh))) > 1e-6: bad.append("meh(dtype=%s) value" % dt)
        elif not close(got, want[name], 1e-6 if dt == "float32" else 0.0):
            bad.append("%s(dtype=%s) is not the definition cast to %s" % (name, dt, dt))
    if not out["unchanged"]: bad.append("matrix mutated by a summary statistic")
    if "proj" in out:
        pj = out["proj"]
        if not out.get("proj_mat_ok", True): bad.append("DenseUnphasedGenotyping projection is not the phase sum / ploidy changed")
        for k in ("acount", "afreq", "afixed", "apoly", "maf", "gtcount", "tacount"):
            if pj[k] != out[k]: bad.append("phased and unphased projection disagree on %s" % k)
        if abs(_fh(pj["meh"]) - _fh(out["meh"])) > 1e-12: bad.append("phased and unphased projection disagree on meh")
    # deduplicate, keep short
    seen = []
    for b in bad:
        if b not in seen: seen.append(b)
    return seen[:8]

def nontrivial(case, out):
    mat = numpy.array(case["mat"], dtype=int)
    dos = mat.sum(0) if case["kind"] == "phased" else mat
    n = dos.shape[0]; N = case["ploidy"] * n
    c = dos.sum(0)
    return n >= 2 and any(x in (0, N) for x in c) and any(0 < x < N for x in c)

def describe(case, out):
    mat = numpy.array(case["mat"], dtype=int)
    dos = mat.sum(0) if case["kind"] == "phased" else mat
    n = dos.shape[0]
    return {"kind": case["kind"], "ploidy": case["ploidy"], "ntaxa_bucket": "inexact-reciprocal" if n * case["ploidy"] in
            (49, 98, 103, 107, 161, 187, 196, 197, 206, 214, 322, 374, 392, 394) else ("1" if n == 1 else ("2-12" if n <= 12 else "13-130")),
            "nloci": dos.shape[1], "raised": "exc" in out, "route": case.get("route", "direct")}

def classify(case, out, clauses):
    return None

def shrink(case, fails):
    """drop loci, then taxa, while the predicate still fails"""
    import copy
    cur = copy.deepcopy(case)
    ph = cur["kind"] == "phased"
    def ncols(c): return len(c["mat"][0][0]) if ph else len(c["mat"][0])
    j = 0
    while ncols(cur) > 1 and j < ncols(cur):
        t = copy.deepcopy(cur)
        if ph: t["mat"] = [[r[:j] + r[j + 1:] for r in phs] for phs in t["mat"]]
        else: t["mat"] = [r[:j] + r[j + 1:] for r in t["mat"]]
        if fails(t): cur = t
        else: j += 1
    return cur


def translate(repo, gen_dir):
    """regenerate Gen/C09_Kernel.v (kernel expressions of afreq/afixed/apoly/maf/gtcount) from the current source; fail closed"""
    from translate import c09_kernel
    return [c09_kernel.translate(repo, gen_dir)]
