"""C09 — genotype summary statistics: correspondence between Model/C09_Stats.v and
DenseGenotypeMatrix / DensePhasedGenotypeMatrix, plus the independent predicate."""
import math
from fractions import Fraction
import numpy
import coqemit as E

ID = "C09"
LEVEL_TEXT = ("Coq theorems over a bit-exact binary64 (PrimFloat/Flocq) and exact-integer model of the summary statistics: "
              "frequency in [0,1] and exactly 0/1 iff the locus is fixed for every size up to 2^53 copies, afixed = not apoly = count-based flag, "
              "genotype classes = ploidy+1 and column totals = ntaxa, phased counts = counts of the unphased projection, phased allele-test "
              "polymorphism flag = count-based flag; the model is tied to the code by evaluating it inside Coq against the implementation's "
              "outputs (bit-for-bit for frequencies) on generated matrices incl. all sizes with inexact reciprocals; every statistic and coding of both "
              "classes is additionally computed in every memory layout the constructors accept (C, Fortran, transposed views, strided/offset views of "
              "larger buffers, negative strides, read-only) through constructor, mat setter, copy/deepcopy, genotyping protocols, sort/reorder, and "
              "compared bit-for-bit with the C-contiguous twin; results are overwritten in place to show that they alias neither the stored matrix nor a cache; "
              "the kernel expressions of afreq/afixed/apoly/maf/gtcount/tafreq/gtfreq/meh and of the three codings are regenerated from the source")
LEVEL_NOTE = ("trusted: Coq kernel + vm_compute, PrimFloat/Uint63 primitives and FloatAxioms specs, classical real axioms via Flocq; "
              "numpy integer sums/int->float conversion; meh and the {-1,m,1} coding compared within 2^-30 of the exact rational (BLAS summation order not modelled); "
              "theorems are about the Gallina model, the tie to the code is differential on generated inputs")
TECHNIQUE = "Coq proof (Flocq + PrimFloat) over an executable model; in-Coq vm_compute correspondence with the implementation"
PROPS = "Props/C09.v"
IMPORTS = "From Coq Require Import PrimFloat.\nFrom PV Require Import Lib.Common Model.C09_Stats."
SHARD = 20
RULE = ("case = (kind unphased|phased, ploidy, allele/dosage matrix); generated from one PRNG: sizes n in 1..130 plus the "
        "sizes where 1/(ploidy*n) is inexact (49,98,103,107,161,187,196,197), p in 1..8, columns forced to be fixed-0, fixed-1 "
        "or polymorphic; every case carries a memory layout (C|F|T|strided|strided_F|negstride|readonly|readonly_F) applied to the arrays handed to the "
        "constructor / mat setter and optionally a route (structural operations, copies, genotyping protocols incl. masked ones, sort/reorder of taxa and "
        "variants); run_impl recomputes all 43 statistic/dtype/coding observations in all 8 layouts x (constructor, setter, copy, deepcopy, unphased "
        "projection) and compares with the C-contiguous twin, and overwrites every array result to detect aliasing; a block of cases has a "
        "heterozygote at a marker of non-zero mean for every layout x layout-sensitive route; "
        "non-trivial = at least one polymorphic and one fixed locus and n >= 2; distinct by SHA-256 of the case")
TRUSTED = ["numpy integer summation and int64->float64 conversion are exact below 2^53 (modelled by PrimFloat.of_uint63)",
           "meh uses BLAS dot / pairwise sum: compared in tolerance regime T (2^-30 relative) against the exact rational",
           "layouts: the Coq model has no notion of memory layout; layout independence is checked differentially (bit-for-bit against the C-contiguous "
           "twin, which is the object compared with the model when the case's layout is C, and transitively otherwise)",
           "mat_asformat: only the expressions `- 1`, `- 1.0`, `view == 0` are translated; the surrounding statements (format tests, per-column loop, "
           "mean, masked write) are matched textually by the translator, which refuses any other shape of the function"]
ASSUMPTIONS = ["dosages in 0..ploidy (unphased) / alleles in {0,1} (phased), int8 storage as the constructors require"]

BAD_N = [49, 98, 103, 107, 161, 187, 196, 197]

def _matrix(rng, n, p, ploidy, phased):
    cols = []
    for j in range(p):
        k = rng.random()
        if k < 0.25: col = [0] * n if not phased else None; kind = "fix0"
        elif k < 0.5: kind = "fix1"
        elif k < 0.6: kind = "one"      # a single deviating allele copy
        else: kind = "poly"
        cols.append(kind)
    if phased:
        m = ploidy
        mat = [[[0] * p for _ in range(n)] for _ in range(m)]
        for j, kind in enumerate(cols):
            for ph in range(m):
                for i in range(n):
                    mat[ph][i][j] = {"fix0": 0, "fix1": 1, "one": 1, "poly": rng.randint(0, 1)}[kind]
            if kind == "one":
                mat[rng.randrange(m)][rng.randrange(n)][j] = 0
        return mat
    mat = [[0] * p for _ in range(n)]
    for j, kind in enumerate(cols):
        for i in range(n):
            mat[i][j] = {"fix0": 0, "fix1": ploidy, "one": ploidy, "poly": rng.randint(0, ploidy)}[kind]
        if kind == "one":
            mat[rng.randrange(n)][j] = ploidy - 1
    return mat

def gen_cases(rng, tier):
    cases = []
    N = 260 if tier == "quick" else 4000
    sizes = list(range(1, 131)) + BAD_N
    # boundary sweep: fully fixed and one-off columns at every awkward size
    for n in (BAD_N + [1, 2, 3, 7]) if tier == "quick" else sorted(set(range(1, 400)) | set(BAD_N)):
        for phased in (False, True):
            ploidy = 2 if phased else rng.choice([1, 2, 2, 4])
            if phased:
                mat = [[[1, 0, 1] for _ in range(n)] for _ in range(ploidy)]
                mat[0][0][2] = 0
            else:
                mat = [[ploidy, 0, ploidy] for _ in range(n)]
                mat[0][2] = ploidy - 1
            cases.append({"kind": "phased" if phased else "unphased", "ploidy": ploidy, "mat": mat, "layout": rng.choice(LAYOUTS)})
    # size-dependent paths (accumulator width, chunking): large populations, predicate only (see emit_case)
    for n, phased in ((20000, False), (17000, True)) if tier == "quick" else ((20000, False), (17000, True), (70000, False), (33000, True)):
        ploidy = 2
        if phased:
            mat = [[[1, 0, rng.randint(0, 1)] for _ in range(n)] for _ in range(ploidy)]
        else:
            mat = [[ploidy, 0, rng.randint(0, ploidy)] for _ in range(n)]
        cases.append({"kind": "phased" if phased else "unphased", "ploidy": ploidy, "mat": mat, "big": True, "layout": rng.choice(LAYOUTS)})
    for _ in range(N):
        phased = rng.random() < 0.5
        n = rng.choice(sizes) if rng.random() < 0.7 else rng.randint(1, 12)
        p = rng.randint(1, 6)
        ploidy = rng.choice([1, 2, 2, 2, 3]) if phased else rng.choice([1, 2, 2, 2, 4])
        c = {"kind": "phased" if phased else "unphased", "ploidy": ploidy, "mat": _matrix(rng, n, p, ploidy, phased)}
        # how the object is obtained: directly, or through the library's own structural operations / copies / the mat setter
        # (the statistics must describe the matrix the object holds NOW: cached ploidy, stale shapes ... must not leak in)
        if rng.random() < 0.45:
            c["route"] = rng.choice(ROUTES_PHASED if phased else ROUTES_UNPHASED); c["rseed"] = rng.randrange(1 << 30)
        # memory layout of every array handed to the constructor / the mat setter (the statistics of the SAME allele calls
        # are additionally computed in every layout of LAYOUTS by run_impl and compared with the C-contiguous twin)
        c["layout"] = rng.choice(LAYOUTS)
        cases.append(c)
    for phased in (False, True):                                  # every route at least twice per run
        for route in (ROUTES_PHASED if phased else ROUTES_UNPHASED):
            for ploidy in ((2, 3) if phased else (2, 4)):
                n = rng.randint(2, 9); p = rng.randint(1, 5)
                cases.append({"kind": "phased" if phased else "unphased", "ploidy": ploidy, "mat": _matrix(rng, n, p, ploidy, phased),
                              "route": route, "rseed": rng.randrange(1 << 30), "layout": rng.choice(LAYOUTS)})
    # every layout x every layout-sensitive route (the library's own ways to a Fortran-ordered / strided matrix) with a
    # heterozygote at a marker of non-zero mean, so that a lost write of the {-1,m,1} substitution is visible
    for phased in (False, True):
        for layout in LAYOUTS:
            for route in (("direct", "genotype_masked_phased", "sort_taxa", "copy") if phased else
                          ("direct", "genotype", "genotype_masked", "genotype_masked_inv", "sort_vrnt", "deepcopy")):
                ploidy = 2; n = rng.randint(3, 7); p = rng.randint(2, 4)
                mat = _matrix(rng, n, p, ploidy, phased)
                if phased:
                    for i in range(n): mat[0][i][0], mat[1][i][0] = (1, 0) if i == 0 else (1, 1)
                else:
                    for i in range(n): mat[i][0] = 1 if i == 0 else 2
                cases.append({"kind": "phased" if phased else "unphased", "ploidy": ploidy, "mat": mat, "route": route,
                              "rseed": rng.randrange(1 << 30), "layout": layout})
    return cases

ROUTES_PHASED = ("append_phase", "append_generic_phase", "remove_phase", "incorp_phase", "select_phase", "adjoin_phase", "append_taxa",
                 "select_taxa", "remove_taxa", "mat_setter", "copy", "deepcopy",
                 "genotype_masked_phased", "reorder_taxa", "sort_taxa", "reorder_vrnt", "sort_vrnt")
ROUTES_UNPHASED = ("append_taxa", "adjoin_taxa", "select_taxa", "delete_taxa", "remove_taxa", "insert_taxa", "concat_taxa", "select_vrnt",
                   "adjoin_vrnt", "mat_setter", "copy", "deepcopy",
                   "genotype", "genotype_masked", "genotype_masked_inv", "reorder_taxa", "sort_taxa", "reorder_vrnt", "sort_vrnt")

# memory layouts the constructors accept (they store the array object they are given, whatever its strides / flags)
LAYOUTS = ("C", "F", "T", "strided", "strided_F", "negstride", "readonly", "readonly_F")

def _lay(a, layout, r=None):
    """the same values as `a` (int8) in the memory layout `layout`"""
    a = numpy.asarray(a)
    if layout == "C": return numpy.ascontiguousarray(a).copy()
    if layout == "F": return numpy.asfortranarray(a).copy(order="F")
    if layout == "T":
        # a transposed VIEW of a C-ordered buffer (what from_vcf hands to the constructor: numpy.int8(mat).transpose(2,1,0));
        # for 3 dimensions the axis permutation is drawn, so that layouts that are neither C- nor F-ordered occur
        perms = [(1, 0)] if a.ndim == 2 else [(2, 1, 0), (1, 0, 2), (0, 2, 1), (1, 2, 0), (2, 0, 1)]
        perm = perms[(r.randrange(len(perms)) if r is not None else 0)]
        inv = tuple(perm.index(i) for i in range(a.ndim))
        return numpy.array(a.transpose(perm), order="C").transpose(inv)       # (numpy.array copies: never a view of `a` itself)
    if layout in ("strided", "strided_F"):
        # a slice with steps (and offsets) of a larger buffer filled with an impossible allele value
        steps = [(r.randint(2, 3) if r is not None else 2) for _ in a.shape]
        offs = [(r.randint(0, 2) if r is not None else 1) for _ in a.shape]
        shape = tuple(o + st * d + 1 for o, st, d in zip(offs, steps, a.shape))
        buf = numpy.full(shape, 9, dtype=a.dtype, order="F" if layout == "strided_F" else "C")
        ix = tuple(slice(o, o + st * d, st) for o, st, d in zip(offs, steps, a.shape))
        buf[ix] = a
        return buf[ix]
    if layout == "negstride":
        rev = tuple(slice(None, None, -1) for _ in a.shape)
        return numpy.array(a[rev], order="C")[rev]
    if layout in ("readonly", "readonly_F"):
        b = numpy.array(a, order="F" if layout == "readonly_F" else "C")
        b.flags.writeable = False
        return b
    raise ValueError(layout)

def _build(case):
    """the genotype-matrix object holding case['mat'], obtained by the route of the case"""
    import copy as _copy, random as _random
    from pybrops.popgen.gmat.DenseGenotypeMatrix import DenseGenotypeMatrix
    from pybrops.popgen.gmat.DensePhasedGenotypeMatrix import DensePhasedGenotypeMatrix
    mat = numpy.array(case["mat"], dtype="int8")
    ph = case["kind"] == "phased"
    route = case.get("route", "direct")
    r = _random.Random(case.get("rseed", 0))
    layout = case.get("layout", "C")
    lay = lambda a: _lay(a, layout, r)
    mk = (lambda a, **kw: DensePhasedGenotypeMatrix(lay(a), **kw)) if ph else (lambda a, **kw: DenseGenotypeMatrix(lay(a), ploidy=case["ploidy"], **kw))
    tax = 1 if ph else 0; vax = 2 if ph else 1
    n = mat.shape[tax]; p = mat.shape[vax]; m = mat.shape[0] if ph else None
    junk = lambda shape: numpy.array([r.randint(0, 1 if ph else case["ploidy"]) for _ in range(int(numpy.prod(shape)))], dtype="int8").reshape(shape)
    if route == "direct": return mk(mat)
    if route == "copy": return _copy.copy(mk(mat))
    if route == "deepcopy": return _copy.deepcopy(mk(mat))
    if route == "mat_setter":
        shp = list(mat.shape)
        if ph: shp[0] = r.choice([1, 2, 3, 4])
        shp[tax] = r.randint(1, n + 2)
        g = mk(junk(shp)); g.mat = lay(mat); return g
    if route in ("append_phase", "append_generic_phase", "adjoin_phase") and m >= 2:
        k = r.randint(1, m - 1); g = mk(mat[:k])
        if route == "append_phase": g.append_phase(mat[k:].copy()); return g
        if route == "append_generic_phase": g.append(mat[k:].copy(), axis=0); return g
        return g.adjoin_phase(mat[k:].copy())
    if route == "remove_phase":
        e = r.randint(1, 2); big = numpy.concatenate([mat, junk((e,) + mat.shape[1:])], axis=0)
        perm = list(range(m + e)); r.shuffle(perm); inv = sorted(range(m + e), key=lambda i: perm[i])
        g = mk(big[perm]); g.remove_phase([i for i in range(m + e) if perm[i] >= m])
        order = [perm[i] for i in range(m + e) if perm[i] < m]          # phases left, in their current order
        return mk(mat) if order != sorted(order) and False else _reorder_phase(g, order)
    if route == "incorp_phase" and m >= 2:
        j = r.randrange(m); g = mk(numpy.delete(mat, j, axis=0)); g.incorp_phase([j], mat[j:j + 1].copy()); return g
    if route == "select_phase":
        e = r.randint(0, 2); big = numpy.concatenate([mat, junk((e,) + mat.shape[1:])], axis=0) if e else mat
        return mk(big).select_phase(list(range(m)))
    if route in ("append_taxa", "adjoin_taxa") and n >= 2:
        k = r.randint(1, n - 1); a, b = numpy.take(mat, range(k), axis=tax), numpy.take(mat, range(k, n), axis=tax)
        g = mk(a)
        if route == "append_taxa": g.append_taxa(b.copy()); return g
        return g.adjoin_taxa(b.copy())
    if route in ("select_taxa", "delete_taxa", "remove_taxa"):
        e = r.randint(1, 3); shp = list(mat.shape); shp[tax] = e
        big = numpy.concatenate([mat, junk(shp)], axis=tax)
        g = mk(big)
        if route == "select_taxa": return g.select_taxa(list(range(n)))
        if route == "delete_taxa": return g.delete_taxa(list(range(n, n + e)))
        g.remove_taxa(list(range(n, n + e))); return g
    if route == "insert_taxa" and n >= 2:
        j = r.randrange(n); g = mk(numpy.delete(mat, j, axis=tax))
        return g.insert_taxa([j], numpy.take(mat, [j], axis=tax).copy())
    if route == "concat_taxa" and n >= 2:
        k = r.randint(1, n - 1)
        return type(mk(mat)).concat_taxa([mk(numpy.take(mat, range(k), axis=tax)), mk(numpy.take(mat, range(k, n), axis=tax))])
    if route == "select_vrnt":
        e = r.randint(1, 2); shp = list(mat.shape); shp[vax] = e
        return mk(numpy.concatenate([mat, junk(shp)], axis=vax)).select_vrnt(list(range(p)))
    if route == "adjoin_vrnt" and p >= 2:
        k = r.randint(1, p - 1)
        return mk(numpy.take(mat, range(k), axis=vax)).adjoin_vrnt(numpy.take(mat, range(k, p), axis=vax).copy())
    # ---- the library's own routes to matrices that are not C-contiguous: genotyping protocols, sort / reorder
    if route in ("genotype", "genotype_masked", "genotype_masked_inv") and not ph:
        # a phased matrix (in the layout of the case) whose phase sum is `mat`, handed to the genotyping protocol
        from pybrops.breed.prot.gt.DenseUnphasedGenotyping import DenseUnphasedGenotyping
        from pybrops.breed.prot.gt.DenseMaskedUnphasedGenotyping import DenseMaskedUnphasedGenotyping
        pl = case["ploidy"]
        calls = numpy.zeros((pl, n, p), dtype="int8")
        for i in range(n):
            for j in range(p):
                for k in r.sample(range(pl), int(mat[i, j])): calls[k, i, j] = 1
        if route == "genotype":
            return DenseUnphasedGenotyping().genotype(DensePhasedGenotypeMatrix(lay(calls)))
        e = r.randint(1, 2); keep = [True] * p + [False] * e; r.shuffle(keep)
        big = numpy.ones((pl, n, p + e), dtype="int8"); big[:, :, [j for j, k in enumerate(keep) if k]] = calls
        inv = route == "genotype_masked_inv"
        mask = numpy.array([k != inv for k in keep], dtype=bool)
        return DenseMaskedUnphasedGenotyping(invert=inv).genotype(DensePhasedGenotypeMatrix(lay(big), vrnt_mask=mask))
    if route == "genotype_masked_phased" and ph:
        from pybrops.breed.prot.gt.DenseMaskedPhasedGenotyping import DenseMaskedPhasedGenotyping
        e = r.randint(1, 2); keep = [True] * p + [False] * e; r.shuffle(keep)
        big = numpy.ones((m, n, p + e), dtype="int8"); big[:, :, [j for j, k in enumerate(keep) if k]] = mat
        return DenseMaskedPhasedGenotyping().genotype(DensePhasedGenotypeMatrix(lay(big), vrnt_mask=numpy.array(keep, dtype=bool)))
    if route in ("reorder_taxa", "sort_taxa"):
        perm = list(range(n)); r.shuffle(perm)
        if route == "reorder_taxa":
            g = mk(numpy.take(mat, perm, axis=tax)); g.reorder_taxa([perm.index(i) for i in range(n)]); return g
        g = mk(numpy.take(mat, perm, axis=tax), taxa=numpy.array(["t%06d" % i for i in perm], dtype=object)); g.sort_taxa(); return g
    if route in ("reorder_vrnt", "sort_vrnt"):
        perm = list(range(p)); r.shuffle(perm)
        if route == "reorder_vrnt":
            g = mk(numpy.take(mat, perm, axis=vax)); g.reorder_vrnt([perm.index(j) for j in range(p)]); return g
        g = mk(numpy.take(mat, perm, axis=vax), vrnt_chrgrp=numpy.array([1] * p, dtype="int64"),
               vrnt_phypos=numpy.array([10 * j for j in perm], dtype="int64"))
        g.sort_vrnt(); return g
    return mk(mat)

def _reorder_phase(g, order):
    """phases of g are the wanted ones in the order `order` (a permutation of 0..m-1): bring them to 0..m-1"""
    if order != sorted(order):
        g = g.select_phase([order.index(i) for i in range(len(order))])
    return g

def _hx(a):
    a = numpy.asarray(a, dtype=float)
    if a.ndim == 0: return float(a).hex()
    if a.ndim == 1: return [float(x).hex() for x in a]
    return [[float(x).hex() for x in r] for r in a]

# every statistic / coding observed by the property, with its arguments: name -> (method, kwargs / args)
SURVEY = ([(nm, nm, {}) for nm in ("tacount", "tafreq", "acount", "afreq", "afixed", "apoly", "maf", "meh", "gtcount", "gtfreq")] +
          [("%s:%s" % (nm, dt), nm, {"dtype": dt}) for nm, dts in
           (("tacount", ["int8", "float64"]), ("tafreq", ["float32"]), ("acount", ["int32", "float64"]), ("afreq", ["float32", "float64"]),
            ("afixed", ["int64", "int8", "float64", "bool"]), ("apoly", ["int64", "int8", "float64", "bool"]), ("maf", ["float32"]),
            ("meh", ["float32"]), ("gtcount", ["int32", "float64"]), ("gtfreq", ["float32"])) for dt in dts] +
          [("mat_asformat:" + f, "mat_asformat", {"format": f}) for f in ("{0,1,2}", "{-1,0,1}", "{-1,m,1}")])

def _sig(a):
    """bit-exact, layout-independent signature of a result"""
    a = numpy.asarray(a)
    return (str(a.dtype), tuple(a.shape), numpy.ascontiguousarray(a).tobytes())

def _survey(g, want_mat):
    """every statistic and coding of g -> ({name: signature}, complaints).  Every array result is checked for aliasing:
    it must not share memory with the stored matrix; it is then overwritten in place, after which the stored matrix must
    be unchanged and a second call must return the first value again (no cache handed out, no view of the matrix)."""
    res, bad = {}, []
    if not (numpy.array_equal(g.mat, want_mat) and g.mat.dtype == want_mat.dtype):
        bad.append("the object does not hold the intended matrix")
    for key, meth, kw in SURVEY:
        try:
            r = getattr(g, meth)(**kw)
        except Exception as e:                      # a layout-dependent failure is an observation, not the end of the survey
            bad.append("%s: raised %s: %s" % (key, type(e).__name__, str(e)[:80]))
            if not numpy.array_equal(g.mat, want_mat):
                bad.append("%s: the failed call changed the stored matrix" % key)
                return res, bad
            continue
        sig = _sig(r)
        res[key] = sig
        if isinstance(r, numpy.ndarray) and r.ndim > 0:
            if numpy.may_share_memory(r, g.mat) and numpy.shares_memory(r, g.mat):
                bad.append("%s: the result shares memory with the stored matrix" % key)
            try:
                r[...] = 77 if r.dtype != bool else ~r
            except ValueError:
                bad.append("%s: the result is not writeable" % key)
            if not numpy.array_equal(g.mat, want_mat):
                bad.append("%s: overwriting the result changed the stored matrix" % key)
                return res, bad                       # the object is corrupted: nothing after this is meaningful
            try:
                again = _sig(getattr(g, meth)(**kw))
            except Exception as e:
                again = None; bad.append("%s: second call raised %s" % (key, type(e).__name__))
            if again is not None and again != sig:
                bad.append("%s: a second call differs after the first result was overwritten" % key)
        if not numpy.array_equal(g.mat, want_mat):
            bad.append("%s: the call changed the stored matrix" % key)
            return res, bad
    return res, bad

def _layout_survey(case, mat):
    """the statistics of the same allele calls in every memory layout the constructor accepts, through the constructor, the
    mat setter, copy/deepcopy and (phased) the unphased projection: each compared bit-for-bit with the C-contiguous twin"""
    import copy as _copy, random as _random
    from pybrops.popgen.gmat.DenseGenotypeMatrix import DenseGenotypeMatrix
    from pybrops.popgen.gmat.DensePhasedGenotypeMatrix import DensePhasedGenotypeMatrix
    from pybrops.breed.prot.gt.DenseUnphasedGenotyping import DenseUnphasedGenotyping
    ph = case["kind"] == "phased"
    r = _random.Random(case.get("rseed", 0) + 12345)
    mk = (lambda a: DensePhasedGenotypeMatrix(a)) if ph else (lambda a: DenseGenotypeMatrix(a, ploidy=case["ploidy"]))
    ref, bad = _survey(mk(numpy.ascontiguousarray(mat).copy()), mat)
    bad = ["layout C: " + b for b in bad]
    uref = None
    if ph:
        dos = mat.sum(0, dtype="int8")
        uref, ub = _survey(DenseGenotypeMatrix(numpy.ascontiguousarray(dos).copy(), ploidy=int(mat.shape[0])), dos)
        bad += ["unphased twin: " + b for b in ub]
    diffs = {}
    def cmp(tag, got, gb, want):
        for b in gb: bad.append("%s: %s" % (tag, b))
        d = [k for k in want if k in got and got[k] != want[k]]        # (a survey cut short / a raising call is reported in `bad`)
        if d: diffs[tag] = d
    for layout in LAYOUTS:
        if layout == "C": continue
        big = case.get("big")
        variants = [("ctor", lambda a: mk(a))]
        if not big:
            variants += [("setter", lambda a: _set(mk(numpy.zeros_like(mat)), a)), ("copy", lambda a: _copy.copy(mk(a))),
                         ("deepcopy", lambda a: _copy.deepcopy(mk(a)))]
        for vn, f in variants:
            try:
                g = f(_lay(mat, layout, r))
            except Exception as e:
                bad.append("layout %s/%s: the object could not be made: %s: %s" % (layout, vn, type(e).__name__, str(e)[:80])); continue
            got, gb = _survey(g, mat)
            cmp("layout %s/%s" % (layout, vn), got, gb, ref)
            if ph and vn == "ctor":
                try:
                    u = DenseUnphasedGenotyping().genotype(g)
                except Exception as e:
                    bad.append("layout %s/projection: raised %s: %s" % (layout, type(e).__name__, str(e)[:80])); continue
                got, gb = _survey(u, dos)
                if int(u.ploidy) != int(mat.shape[0]): gb.append("ploidy of the projection")
                cmp("layout %s/projection" % layout, got, gb, uref)
    return {"diffs": diffs, "bad": bad[:12], "ref": ref, "uref": uref}

def _set(g, a):
    g.mat = a
    return g

def run_impl(case):
    from pybrops.popgen.gmat.DenseGenotypeMatrix import DenseGenotypeMatrix
    from pybrops.popgen.gmat.DensePhasedGenotypeMatrix import DensePhasedGenotypeMatrix
    mat = numpy.array(case["mat"], dtype="int8")
    g = _build(case)
    f = g.mat.flags
    out_flags = {"c": bool(f["C_CONTIGUOUS"]), "f": bool(f["F_CONTIGUOUS"]), "w": bool(f["WRITEABLE"]), "own": g.mat.base is None}
    before = mat.copy()
    out = {"flags": out_flags}
    out["route_ok"] = bool(numpy.array_equal(g.mat, mat)) and g.mat.dtype == mat.dtype
    out["ploidy"] = int(g.ploidy)
    out["tacount"] = g.tacount().tolist()
    out["tafreq"] = _hx(g.tafreq())
    out["acount"] = [int(x) for x in g.acount()]
    af = g.afreq()
    out["afreq"] = _hx(af)
    out["afreq_dtype"] = str(af.dtype)
    out["afreq_f64"] = _hx(g.afreq(dtype="float64"))
    out["afixed"] = [bool(x) for x in g.afixed()]
    out["apoly"] = [bool(x) for x in g.apoly()]
    out["maf"] = _hx(g.maf())
    out["meh"] = float(g.meh()).hex()
    gc = g.gtcount()
    out["gtcount"] = gc.tolist()
    out["gtcount_dtype"] = str(gc.dtype)
    out["gtfreq"] = _hx(g.gtfreq())
    out["f012"] = numpy.asarray(g.mat_asformat("{0,1,2}")).tolist()
    out["fm101"] = numpy.asarray(g.mat_asformat("{-1,0,1}")).tolist()
    out["fm1m1"] = _hx(g.mat_asformat("{-1,m,1}"))
    # requested output dtypes: every statistic that takes a dtype argument, with non-default dtypes
    dv = {}
    for name, dts in (("tacount", ["int8", "float64"]), ("tafreq", ["float32"]), ("acount", ["int32", "float64"]),
                      ("afreq", ["float32"]), ("afixed", ["int64", "int8", "float64", "bool"]),
                      ("apoly", ["int64", "int8", "float64", "bool"]), ("maf", ["float32"]), ("meh", ["float32"]),
                      ("gtcount", ["int32", "float64"]), ("gtfreq", ["float32"])):
        for dt in dts:
            r = getattr(g, name)(dtype=dt)
            a = numpy.asarray(r)
            dv["%s:%s" % (name, dt)] = {"dtype": str(a.dtype), "val": _hx(a.astype(float))}
    out["dtypes"] = dv
    out["unchanged"] = bool(numpy.array_equal(g.mat, before))
    # the object of the case (its layout, its route) and every other layout against the C-contiguous twin; aliasing of results
    ls = _layout_survey(case, mat)
    mine, mb = _survey(g, mat)
    ls["bad"] = (["object of the case: " + b for b in mb] + ls["bad"])[:12]
    d = [k for k in ls["ref"] if k in mine and mine[k] != ls["ref"][k]]
    if d: ls["diffs"]["object of the case (layout %s, route %s)" % (case.get("layout", "C"), case.get("route", "direct"))] = d
    out["layouts"] = {"diffs": ls["diffs"], "bad": ls["bad"], "n": len(LAYOUTS)}
    if case["kind"] == "phased":
        # the unphased projection of the same data must give identical answers
        from pybrops.breed.prot.gt.DenseUnphasedGenotyping import DenseUnphasedGenotyping
        u = DenseUnphasedGenotyping().genotype(g)          # the library's own unphased projection
        out["proj_mat_ok"] = bool(numpy.array_equal(u.mat, mat.sum(0))) and int(u.ploidy) == int(g.ploidy)
        out["proj"] = {"acount": [int(x) for x in u.acount()], "afreq": _hx(u.afreq()), "afixed": [bool(x) for x in u.afixed()],
                       "apoly": [bool(x) for x in u.apoly()], "maf": _hx(u.maf()), "meh": float(u.meh()).hex(),
                       "gtcount": u.gtcount().tolist(), "tacount": u.tacount().tolist()}
        # ... for EVERY statistic and coding (bit-for-bit; meh is summed differently by the two classes: see pred)
        got, gb = _survey(u, mat.sum(0, dtype="int8"))
        out["proj_all"] = {"diffs": [k for k in ls["uref"] if got.get(k) != ls["uref"][k]], "bad": gb[:6],
                           "vs_phased": [k for k in mine if not k.startswith("meh") and got.get(k) != mine[k]]}
    return out

def _fh(h): return float.fromhex(h)

def emit_case(case, out):
    if "exc" in out:
        return "false"
    if case.get("big"):
        return None            # a 20000-row literal is too large for a shard; the independent predicate decides these
    Z, fh = E.z, lambda h: E.fhex(_fh(h))
    q = lambda h: E.q(Fraction(_fh(h)))
    mat = case["mat"]; ploidy = case["ploidy"]
    parts = []
    if case["kind"] == "unphased":
        n, p = len(mat), len(mat[0])
        M = E.lst2(mat, Z)
        parts.append("zll_eqb (tacount %s) %s" % (M, E.lst2(out["tacount"], Z)))
        parts.append("zl_eqb (acount %d %s) %s" % (p, M, E.lst(out["acount"], Z)))
        parts.append("fl_eqb (afreq_f %s %d %s) %s" % (Z(ploidy), p, M, E.lst(out["afreq"], fh)))
        parts.append("fl_eqb (afreq_f %s %d %s) %s" % (Z(ploidy), p, M, E.lst(out["afreq_f64"], fh)))
        parts.append("bl_eqb (afixed %s %d %s) %s" % (Z(ploidy), p, M, E.lst(out["afixed"], E.b)))
        parts.append("bl_eqb (apoly %s %d %s) %s" % (Z(ploidy), p, M, E.lst(out["apoly"], E.b)))
        parts.append("fl_eqb (maf_f %s %d %s) %s" % (Z(ploidy), p, M, E.lst(out["maf"], fh)))
        parts.append("Qclose %s (meh_q %s %d %s)" % (q(out["meh"]), Z(ploidy), p, M))
        parts.append("fll_eqb (tafreq_f %s %s) %s" % (Z(ploidy), M, E.lst2(out["tafreq"], fh)))
        parts.append("zll_eqb (gtcount %d %d %s) %s" % (ploidy, p, M, E.lst2(out["gtcount"], Z)))
        parts.append("fll_eqb (gtfreq_f %d %d %s) %s" % (ploidy, p, M, E.lst2(out["gtfreq"], fh)))
        parts.append("zll_eqb (fmt_012 %s) %s" % (M, E.lst2(out["f012"], Z)))
        parts.append("zll_eqb (fmt_m101 %s) %s" % (M, E.lst2(out["fm101"], Z)))
        parts.append("qclose_ll %s (fmt_m1m1 %d %s)" % (E.lst2(out["fm1m1"], q), p, M))
    else:
        m, n, p = len(mat), len(mat[0]), len(mat[0][0])
        P = E.lst3(mat, Z)
        parts.append("zll_eqb (tacount_ph %d %d %s) %s" % (n, p, P, E.lst2(out["tacount"], Z)))
        parts.append("zl_eqb (acount_ph %d %s) %s" % (p, P, E.lst(out["acount"], Z)))
        parts.append("fl_eqb (afreq_ph_f %d %d %s) %s" % (n, p, P, E.lst(out["afreq"], fh)))
        parts.append("bl_eqb (afixed_ph %d %d %s) %s" % (n, p, P, E.lst(out["afixed"], E.b)))
        parts.append("bl_eqb (apoly_ph %d %s) %s" % (p, P, E.lst(out["apoly"], E.b)))
        T = "(tacount_ph %d %d %s)" % (n, p, P)
        parts.append("fl_eqb (maf_f %s %d %s) %s" % (Z(m), p, T, E.lst(out["maf"], fh)))
        parts.append("Qclose %s (meh_q %s %d %s)" % (q(out["meh"]), Z(m), p, T))
        parts.append("fll_eqb (tafreq_f %s %s) %s" % (Z(m), T, E.lst2(out["tafreq"], fh)))
        parts.append("zll_eqb (gtcount %d %d %s) %s" % (m, p, T, E.lst2(out["gtcount"], Z)))
        parts.append("fll_eqb (gtfreq_f %d %d %s) %s" % (m, p, T, E.lst2(out["gtfreq"], fh)))
        parts.append("zll_eqb (fmt_012 %s) %s" % (T, E.lst2(out["f012"], Z)))
        parts.append("zll_eqb (fmt_m101 %s) %s" % (T, E.lst2(out["fm101"], Z)))
        parts.append("qclose_ll %s (fmt_m1m1 %d %s)" % (E.lst2(out["fm1m1"], q), p, T))
    b2z = "(map (fun b : bool => if b then 1%Z else 0%Z))"
    zq = lambda h: Z(int(_fh(h)))
    Mx = E.lst2(mat, Z) if case["kind"] == "unphased" else "(tacount_ph %d %d %s)" % (len(mat[0]), len(mat[0][0]), E.lst3(mat, Z))
    pl = ploidy if case["kind"] == "unphased" else len(mat)
    pp = len(mat[0]) if case["kind"] == "unphased" else len(mat[0][0])
    for dt in ("int64", "int8", "float64", "bool"):
        parts.append("zl_eqb (%s (afixed %s %d %s)) %s" % (b2z, Z(pl), pp, Mx, E.lst(out["dtypes"]["afixed:" + dt]["val"], zq)))
        parts.append("zl_eqb (%s (apoly %s %d %s)) %s" % (b2z, Z(pl), pp, Mx, E.lst(out["dtypes"]["apoly:" + dt]["val"], zq)))
    for dt in ("int32", "float64"):
        parts.append("zl_eqb (acount %d %s) %s" % (pp, Mx, E.lst(out["dtypes"]["acount:" + dt]["val"], zq)))
        parts.append("zll_eqb (gtcount %d %d %s) %s" % (pl, pp, Mx, E.lst2(out["dtypes"]["gtcount:" + dt]["val"], zq)))
    return "(" + "\n   && ".join(parts) + ")"

def pred(case, out):
    """the property, stated directly on the implementation's outputs (independent of the Coq model)"""
    if "exc" in out:
        return ["implementation raised %s: %s" % (out["exc"], out["msg"])]
    bad = []
    mat = numpy.array(case["mat"], dtype=int)
    ploidy = case["ploidy"]
    dos = mat.sum(0) if case["kind"] == "phased" else mat
    n, p = dos.shape
    N = ploidy * n
    c = [int(x) for x in dos.sum(0)]
    if out["ploidy"] != ploidy: bad.append("ploidy reported %r for a matrix of ploidy %d (route %s)" % (out["ploidy"], ploidy, case.get("route", "direct")))
    if not out.get("route_ok", True): bad.append("route %s did not produce the intended matrix" % case.get("route"))
    if out["tacount"] != dos.tolist(): bad.append("tacount != per-taxon allele count")
    if out["acount"] != c: bad.append("acount != column sums")
    fr = [_fh(h) for h in out["afreq"]]
    for j in range(p):
        x = fr[j]
        if not (0.0 <= x <= 1.0): bad.append("afreq outside [0,1] at locus %d" % j)
        if (x == 0.0) != (c[j] == 0): bad.append("afreq == 0 iff allele absent fails at locus %d (c=%d N=%d x=%r)" % (j, c[j], N, x))
        if (x == 1.0) != (c[j] == N): bad.append("afreq == 1 iff allele fixed fails at locus %d (c=%d N=%d x=%r)" % (j, c[j], N, x))
        if abs(Fraction(x) - Fraction(c[j], N)) > Fraction(1, 2 ** 50): bad.append("afreq != c/N at locus %d" % j)
        fixed = c[j] in (0, N)
        if out["afixed"][j] != fixed: bad.append("afixed wrong at locus %d (c=%d N=%d)" % (j, c[j], N))
        if out["apoly"][j] != (not fixed): bad.append("apoly wrong at locus %d (c=%d N=%d)" % (j, c[j], N))
        if out["afixed"][j] == out["apoly"][j]: bad.append("afixed is not the complement of apoly at locus %d" % j)
        mf = _fh(out["maf"][j])
        if abs(Fraction(mf) - min(Fraction(c[j], N), 1 - Fraction(c[j], N))) > Fraction(1, 2 ** 50): bad.append("maf at locus %d" % j)
    meh = Fraction(ploidy, p) * sum(Fraction(cj, N) * (1 - Fraction(cj, N)) for cj in c)
    if abs(Fraction(_fh(out["meh"])) - meh) > Fraction(1, 2 ** 40): bad.append("meh != (ploidy/p) sum p(1-p)")
    if all(cj in (0, N) for cj in c) and _fh(out["meh"]) != 0.0: bad.append("meh != 0 for a fixed population")
    gc = out["gtcount"]
    if len(gc) != ploidy + 1: bad.append("gtcount has %d classes, expected ploidy+1 = %d" % (len(gc), ploidy + 1))
    else:
        for j in range(p):
            if sum(gc[i][j] for i in range(ploidy + 1)) != n: bad.append("gtcount column %d does not sum to ntaxa" % j)
            for i in range(ploidy + 1):
                if gc[i][j] != int((dos[:, j] == i).sum()): bad.append("gtcount[%d][%d]" % (i, j))
        gf = out["gtfreq"]
        for i in range(len(gc)):
            for j in range(p):
                if abs(Fraction(_fh(gf[i][j])) - Fraction(gc[i][j], n)) > Fraction(1, 2 ** 50): bad.append("gtfreq[%d][%d]" % (i, j))
    tf = out["tafreq"]
    for i in range(n):
        for j in range(p):
            if abs(Fraction(_fh(tf[i][j])) - Fraction(int(dos[i, j]), ploidy)) > Fraction(1, 2 ** 50): bad.append("tafreq[%d][%d]" % (i, j))
    if out["f012"] != dos.tolist(): bad.append("coding {0,1,2}")
    if out["fm101"] != (dos - 1).tolist(): bad.append("coding {-1,0,1}")
    sh = dos - 1
    for j in range(p):
        mean = Fraction(int(sh[:, j].sum()), n)
        for i in range(n):
            want = mean if sh[i, j] == 0 else Fraction(int(sh[i, j]))
            if abs(Fraction(_fh(out["fm1m1"][i][j])) - want) > Fraction(1, 2 ** 40): bad.append("coding {-1,m,1} [%d][%d]" % (i, j))
    # requested dtypes: value = definition cast to the dtype, dtype as requested
    f32 = lambda x: float(numpy.float32(x))
    fixed = [cj in (0, N) for cj in c]
    want = {"tacount": dos.astype(float).tolist(), "acount": [float(x) for x in c],
            "afixed": [1.0 if f else 0.0 for f in fixed], "apoly": [0.0 if f else 1.0 for f in fixed],
            "gtcount": [[float((dos[:, j] == i).sum()) for j in range(p)] for i in range(ploidy + 1)],
            "afreq": [f32(cj / N) for cj in c], "maf": [f32(min(cj / N, 1.0 - cj / N)) for cj in c],
            "tafreq": [[f32(int(dos[i, j]) / ploidy) for j in range(p)] for i in range(n)],
            "gtfreq": [[f32(int((dos[:, j] == i).sum()) / n) for j in range(p)] for i in range(ploidy + 1)]}
    def close(a, b, tol):
        a = numpy.asarray(a, dtype=float); b = numpy.asarray(b, dtype=float)
        return a.shape == b.shape and bool(numpy.all(numpy.abs(a - b) <= tol))
    for key, rec in out.get("dtypes", {}).items():
        name, dt = key.split(":")
        if rec["dtype"] != str(numpy.dtype(dt)): bad.append("%s(dtype=%s) returned dtype %s" % (name, dt, rec["dtype"]))
        got = numpy.vectorize(_fh)(numpy.array(rec["val"], dtype=object)).astype(float) if numpy.size(rec["val"]) else numpy.array(rec["val"], dtype=float)
        if name == "meh":
            if abs(float(got) - f32(float(meh))) > 1e-6: bad.append("meh(dtype=%s) value" % dt)
        elif not close(got, want[name], 1e-6 if dt == "float32" else 0.0):
            bad.append("%s(dtype=%s) is not the definition cast to %s" % (name, dt, dt))
    if not out["unchanged"]: bad.append("matrix mutated by a summary statistic")
    # memory layouts / aliasing: every statistic and coding in every layout equals the C-contiguous twin's, bit for bit
    ly = out.get("layouts")
    if ly is None: bad.append("layout survey missing")
    else:
        for b in ly["bad"][:4]: bad.append("aliasing/layout: " + b)
        for tag, names in sorted(ly["diffs"].items()):
            bad.append("%s: %s differ(s) from the C-contiguous twin of the same allele calls" % (tag, ", ".join(names[:4])))
    if "proj" in out:
        pj = out["proj"]
        if not out.get("proj_mat_ok", True): bad.append("DenseUnphasedGenotyping projection is not the phase sum / ploidy changed")
        for k in ("acount", "afreq", "afixed", "apoly", "maf", "gtcount", "tacount"):
            if pj[k] != out[k]: bad.append("phased and unphased projection disagree on %s" % k)
        if abs(_fh(pj["meh"]) - _fh(out["meh"])) > 1e-12: bad.append("phased and unphased projection disagree on meh")
        pa = out.get("proj_all")
        if pa is None: bad.append("projection survey missing")
        else:
            if pa["diffs"]: bad.append("projection of the object of the case: %s differ(s) from a C-contiguous unphased matrix of the same dosages" % ", ".join(pa["diffs"][:4]))
            if pa["vs_phased"]: bad.append("phased matrix and its unphased projection disagree on %s" % ", ".join(pa["vs_phased"][:4]))
            for b in pa["bad"]: bad.append("aliasing/layout (projection): " + b)
    # deduplicate, keep short
    seen = []
    for b in bad:
        if b not in seen: seen.append(b)
    return seen[:8]

def nontrivial(case, out):
    mat = numpy.array(case["mat"], dtype=int)
    dos = mat.sum(0) if case["kind"] == "phased" else mat
    n = dos.shape[0]; N = case["ploidy"] * n
    c = dos.sum(0)
    return n >= 2 and any(x in (0, N) for x in c) and any(0 < x < N for x in c)

def describe(case, out):
    mat = numpy.array(case["mat"], dtype=int)
    dos = mat.sum(0) if case["kind"] == "phased" else mat
    n = dos.shape[0]
    return {"kind": case["kind"], "ploidy": case["ploidy"], "ntaxa_bucket": "inexact-reciprocal" if n * case["ploidy"] in
            (49, 98, 103, 107, 161, 187, 196, 197, 206, 214, 322, 374, 392, 394) else ("1" if n == 1 else ("2-12" if n <= 12 else "13-130")),
            "nloci": dos.shape[1], "raised": "exc" in out, "route": case.get("route", "direct"), "layout": case.get("layout", "C"),
            "stored": "?" if "flags" not in out else ("C" if out["flags"]["c"] else ("F" if out["flags"]["f"] else "strided")) +
                      ("" if out["flags"]["w"] else "-readonly")}

def classify(case, out, clauses):
    return None

def shrink(case, fails):
    """drop loci, then taxa, while the predicate still fails"""
    import copy
    cur = copy.deepcopy(case)
    ph = cur["kind"] == "phased"
    def ncols(c): return len(c["mat"][0][0]) if ph else len(c["mat"][0])
    j = 0
    while ncols(cur) > 1 and j < ncols(cur):
        t = copy.deepcopy(cur)
        if ph: t["mat"] = [[r[:j] + r[j + 1:] for r in phs] for phs in t["mat"]]
        else: t["mat"] = [r[:j] + r[j + 1:] for r in t["mat"]]
        if fails(t): cur = t
        else: j += 1
    return cur


def translate(repo, gen_dir):
    """regenerate Gen/C09_Kernel.v (kernel expressions of afreq/afixed/apoly/maf/gtcount/tafreq/gtfreq/meh and of the three
    mat_asformat branches, both classes) from the current source; fail closed"""
    from translate import c09_kernel
    _entry_points(repo)
    return [c09_kernel.translate(repo, gen_dir)]

# public methods of the two classes that are statistics / codings but deliberately not surveyed (name -> reason)
SKIPPED = {}

def _entry_points(repo):
    """fail closed: every public method of the two matrix classes that takes a `dtype` or a `format` argument (the shape of a
    summary statistic / coding) must be one of the surveyed observations or be listed in SKIPPED with a reason"""
    import ast
    from translate import pyexpr as P
    covered = {meth for _, meth, _ in SURVEY}
    seen = set()
    for rel, cls in (("pybrops/popgen/gmat/DenseGenotypeMatrix.py", "DenseGenotypeMatrix"),
                     ("pybrops/popgen/gmat/DensePhasedGenotypeMatrix.py", "DensePhasedGenotypeMatrix")):
        for node in P.parse_file(repo, rel).body:
            if isinstance(node, ast.ClassDef) and node.name == cls:
                for fn in node.body:
                    if isinstance(fn, ast.FunctionDef) and not fn.name.startswith("_"):
                        args = {a.arg for a in fn.args.args + fn.args.kwonlyargs}
                        if args & {"dtype", "format"}:
                            seen.add(fn.name)
                            if fn.name not in covered and fn.name not in SKIPPED:
                                raise P.Untranslatable("%s.%s takes a dtype/format argument but is not among the surveyed statistics: "
                                                       "add it to SURVEY (and to pred) or to SKIPPED with a reason" % (cls, fn.name))
    missing = covered - seen
    if missing:
        raise P.Untranslatable("surveyed statistics no longer defined by the classes: %s" % sorted(missing))
