"""C04 — genomic-model predictions: correspondence between Model/C04_Gmod.v + Model/C04_GS.v and
DenseAdditiveLinearGenomicModel / DenseAdditiveDominanceLinearGenomicModel / rrBLUPModel0 / DenseLinearGenomicModel /
TrueBreedingValue, plus the independent predicate.

Three kinds of case:
  lin : a model (beta, u_misc, u_a[, u_d]) and a genotype input in up to three representations (phased matrix, its unphased
        projection, raw dosage array), a taxon permutation and a marker partition; every public prediction / variance / allele
        statistic is called.
  gs  : gauss_seidel(A, b, atol, maxiter) on a small dyadic system (exact rational model, tolerance regime T).
  fit : rrBLUPModel0.fit_numpy / fit on a small training set; the clauses of the property are evaluated exactly in Q on the
        implementation's (beta, u_a, varE, varU); Gauss-Seidel is re-run in Q from the implementation's ridge when that is cheap.
"""
import math, copy
from fractions import Fraction
import numpy
import coqemit as E

ID = "C04"
PROPS = "Props/C04.v"
IMPORTS = ("From PV Require Import Lib.Common Model.C04_Gmod Model.C04_GS Gen.C04_Kernel.\n"
           "Import String.StringSyntax. Delimit Scope string_scope with string.")
SHARD = 12
SHARD_TIMEOUT = 600
LEVEL_TEXT = ("Coq theorems over an exact-rational executable model of the genomic-model classes: every entry of gebv/gegv/predict is "
              "intercept + dosage (and heterozygosity) x effects; equivariance of values and labels under any taxon reordering; additivity over "
              "marker partitions and chromosome phases; var_A/var_G are the population variance of the reported values and order-invariant; "
              "var_a/bulmer/score equal their definitions (NaN branch characterised); scaling the effects of a trait by c scales var_A and var_a by "
              "c^2 and leaves the Bulmer ratio unchanged for every c != 0 (exactly zero is the only special value); the dominance design of a raw "
              "dosage array handed over with its ploidy equals that of the matrix object for every ploidy; the twelve fa*/da*/na* tables are "
              "entry-wise their definitions for every class and mutually consistent; Gauss-Seidel is coordinate descent, so the rrBLUP fit is never worse than the all-zero solution on the "
              "penalised criterion for every training set/ridge/tolerance/iteration limit, intercept = mean, monomorphic markers exactly 0, and the "
              "normal-equation residual is bounded by atol*sum_{j>i}|A_ij| whenever the loop stops before maxiter. The model is tied to the code by "
              "evaluating it inside Coq against the implementation's outputs (exact equality for the linear part and counts; variances and Bulmer "
              "ratios within 2^-30 RELATIVE, so that a model value of exactly zero or NaN demands exactly zero or NaN; breeding value matrices "
              "within 2^-30 of the largest magnitude of their trait column; 2^-30(1+|x|) for scores and solver output) on generated models, genotype inputs in three representations, permutations and partitions. "
              "The expressions on which these theorems turn (sign tests, which allele/count is taken, exact zero tests, quotients, the dominance indicator and "
              "block order, which effects enter which product, 1 - SSE/SST, the genic-variance formula, the Gauss-Seidel update, movement test and loop guard, "
              "the polymorphism mask, the ridge quotient: 111 definitions) are regenerated from the source on every run (Gen/C04_Kernel.v), proved equal to the "
              "hand model by reflexivity and the property's clauses are re-proved about the generated definitions, so a changed expression fails the build "
              "whatever the sampled cases exercise; model objects are also obtained through copy/deepcopy/setters/in-place updates of used objects, every "
              "returned array is overwritten after it is recorded and calls are repeated (a result is a function of the state at the call)")
LEVEL_NOTE = ("trusted: Coq kernel + vm_compute (no axioms: Print Assumptions reports 'Closed under the global context' for every theorem); "
              "NOT modelled: Nelder-Mead/eigh of rrBLUP_ML0 (the ridge parameter varE/varU is read back from the implementation and the clauses of "
              "the property are evaluated exactly in Q on the implementation's (beta, u)); the standardisation inside "
              "DenseBreedingValueMatrix.from_numpy is observed only through unscale()/location/labels; binary64 rounding is not modelled (inputs on "
              "dyadic grids, also after scaling a trait by a power of two, make the linear part exact; the other statistics are compared within a "
              "2^-30 relative / column-relative / 2^-30(1+|x|) tolerance); theorems are about the Gallina model, "
              "the tie to the code is differential on generated inputs, plus the regenerated kernel expressions (harness/translate/c04_kernel.py is trusted: it maps "
              "numpy.where/logical_and/divide, `x.sum(0)`, `A @ B`, numpy.concatenate to their element-wise / list meaning and compares the statements it does "
              "not translate verbatim; it fails closed on anything else, e.g. numpy.isclose)")
TECHNIQUE = "Coq proof over an executable exact-rational model; in-Coq vm_compute correspondence with the implementation"
RULE = ("three kinds of case from one PRNG. lin: class in {additive, additive+dominance, rrBLUPModel0 as container, DenseLinearGenomicModel via a "
        "stub subclass}, beta (1-4 fixed effects) / u_misc (0-2) / u_a / u_d on the grid k/8 with exact zeros, zero rows and all-zero matrices, 1-3 traits, "
        "ploidy 1-4, 1-8 taxa (1-24 in thorough) x 1-6 markers (1-16) with columns forced absent / fixed / single-copy / all-heterozygous / polymorphic, "
        "duplicate taxa, optional phased representation, optional/duplicated taxon labels and groups, a taxon permutation, a marker split point, "
        "constant phenotypes (SST = 0), raw-array ploidy argument given or defaulted (handed to var_a/bulmer and to the dominance model's "
        "gegv/predict/score/var_G); in 35% of the cases further traits are appended and the traits shuffled: a copy of a trait with intercepts, "
        "effects and phenotypes times 2^e, e in {-12,-20,-40,+20}, sometimes an independent trait at such a scale and an all-zero trait (the "
        "predicate then also states var(scaled) = 4^e var, bulmer and score unchanged); plus fixed populations at the sizes 49/98/103/107 where "
        "(1/N)*N != 1. gs: gauss_seidel on 1-4 unknowns (SPD Z'Z+ridge I, symmetric, general, diagonal, occasional zero pivot), atol in "
        "{0, 2^-20..1, 1e-8}, maxiter 0-6. fit: rrBLUPModel0.fit_numpy/fit (ndarray, GenotypeMatrix, BreedingValueMatrix inputs) on 3-9 records x 1-4 "
        "markers, 1-2 traits, monomorphic columns at 0/1/2, duplicated polymorphic markers, traits determined exactly by a marker, 20% with the "
        "responses times 2^-12 or 2^8. "
        "Lifecycle: every lin case obtains its model through a route in {constructor, copy.copy, copy.deepcopy, .copy(), .deepcopy() (the original is "
        "overwritten in place afterwards), property setters on a decoy model that has been used, in-place writes into the arrays of a used decoy model (the "
        "matrix objects are then also built on other dosages, used, and overwritten in place)}; 40% of the cases pass non-default dtype arguments to the "
        "allele statistics (result dtype checked); var_a_numpy/bulmer_numpy are called with explicit frequencies; every returned array is overwritten "
        "after recording and six calls are repeated at the end; inputs (coefficients, trait names, genotype matrices, taxon labels and groups, X, Y, Z) "
        "are compared with pristine copies; the read-only classes must refuse fit/fit_numpy; shape bookkeeping (nexplan*/nparam*/ntrait) is checked; "
        "special cases with 130 (300 in thorough) tetraploid taxa (allele counts > 255) and 260 (300) markers. gs: also keyword and default arguments, "
        "the result overwritten and the call repeated. fit: also method/model_name/hyperparams keywords, covariates given, copies of the fitted model, "
        "rrBLUP_ML0 with explicit gsatol/gsmaxiter re-run in Coq. Entry points: every public class/function/method/property/parameter list of the six "
        "anchored modules is enumerated at run time and must be classified (driven / skipped with a reason), else the check fails. "
        "non-trivial = lin: >= 2 taxa, a polymorphic marker, at least two of the three effect signs, non-identity permutation; gs: >= 2 unknowns, "
        ">= 2 sweeps allowed, atol > 0, b != 0; fit: a polymorphic marker and n > p_polymorphic. distinct by SHA-256 of the case")
TRUSTED = ["harness/translate/c04_kernel.py (ast -> Gallina for the kernel expressions; fail closed)",
           "scipy.optimize.minimize (Nelder-Mead) and numpy.linalg.eigh inside rrBLUP_ML0 are not modelled: varE, varU are taken from the implementation",
           "numpy float64 matmul/sum on dyadic-grid inputs (times a power of two per trait) is exact (regime E); var/std/division are compared within 2^-30 relative or 2^-30(1+|x|) (regime T)",
           "DenseLinearGenomicModel is abstract in /repo: it is exercised through a subclass created by the harness that only empties __abstractmethods__",
           "classification of C04-gs-maxiter uses a reference float Gauss-Seidel loop in the harness to decide whether the specified algorithm itself needs more than 1000 sweeps"]
ASSUMPTIONS = ["effects/covariates/phenotypes on dyadic grids (k/8, k/4), per trait optionally times 2^e with -40 <= e <= 20 (no underflow/overflow), dosages in 0..ploidy stored as int8, at least one taxon, one marker, one fixed effect",
               "rrBLUP training sets have at least one polymorphic marker and no constant response (outside the property's quantifier otherwise)",
               "the ridge parameter is positive (varE, varU are exponentials of the optimiser's result)"]

F = Fraction
EPS40 = F(1, 2 ** 40)

# ------------------------------------------------------------------------------------------------ helpers
def _hx(a):
    a = numpy.asarray(a, dtype=float)
    if a.ndim == 0: return float(a).hex()
    if a.ndim == 1: return [float(x).hex() for x in a]
    return [[float(x).hex() for x in r] for r in a]

def _fh(h):
    return float.fromhex(h)

def _fr(h):
    """hex string -> exact Fraction, None for NaN/inf"""
    x = float.fromhex(h)
    if math.isnan(x) or math.isinf(x): return None
    return F(x)

def _lab(a):
    if a is None: return None
    return [x.item() if hasattr(x, "item") else x for x in list(a)]

def _bv(o):
    """observable content of a breeding value matrix"""
    return {"cls": type(o).__name__, "mat": _hx(o.unscale()), "location": _hx(o.location), "scale": _hx(o.scale),
            "taxa": _lab(o.taxa), "taxa_grp": _lab(o.taxa_grp), "trait": _lab(o.trait)}

def _try(f):
    try:
        return f()
    except Exception as e:                       # an exception is an observable
        return {"exc": type(e).__name__}

def _arr(x, dtype=float):
    return numpy.array(x, dtype=dtype)

def _mk2(x, ncol):
    """list of rows -> float array keeping the column count when there are no rows"""
    a = numpy.array(x, dtype=float)
    if a.ndim != 2: a = a.reshape((len(x), ncol))
    return a

# ------------------------------------------------------------------------------------------------ implementation driver
def _stub_L():
    """DenseLinearGenomicModel is abstract; a subclass with the abstract set emptied exercises its own methods unchanged"""
    from pybrops.model.gmod.DenseLinearGenomicModel import DenseLinearGenomicModel
    cls = type("DenseLinearGenomicModelStub", (DenseLinearGenomicModel,), {})
    cls.__abstractmethods__ = frozenset()
    return cls

def _build_model(case):
    from pybrops.model.gmod.DenseAdditiveLinearGenomicModel import DenseAdditiveLinearGenomicModel
    from pybrops.model.gmod.DenseAdditiveDominanceLinearGenomicModel import DenseAdditiveDominanceLinearGenomicModel
    from pybrops.model.gmod.rrBLUPModel0 import rrBLUPModel0
    t = len(case["beta"][0])
    beta = _mk2(case["beta"], t)
    u_a = _mk2(case["u_a"], t)
    u_misc = None if case["u_misc"] is None else _mk2(case["u_misc"], t)
    trait = None if case["trait"] is None else numpy.array(case["trait"], dtype=object)
    c = case["cls"]
    if c == "A":
        return DenseAdditiveLinearGenomicModel(beta=beta, u_misc=u_misc, u_a=u_a, trait=trait)
    if c == "RR":
        return rrBLUPModel0(beta=beta, u_misc=u_misc, u_a=u_a, trait=trait)
    if c == "AD":
        u_d = None if case["u_d"] is None else _mk2(case["u_d"], t)
        return DenseAdditiveDominanceLinearGenomicModel(beta=beta, u_misc=u_misc, u_a=u_a, u_d=u_d, trait=trait)
    if c == "L":
        u = u_a if u_misc is None else numpy.concatenate([u_misc, u_a], axis=0)
        return _stub_L()(beta=beta, u=u, trait=trait)
    raise ValueError(c)

ROUTES = ["ctor", "ctor", "copy", "deepcopy", "copy_m", "deepcopy_m", "setters", "inplace"]

def _decoy(case):
    """a model of the same class and shapes whose every coefficient differs from the case's (x -> 1.5 - 2x), other trait names"""
    d = dict(case)
    for k in ("beta", "u_a", "u_misc", "u_d"):
        if case.get(k): d[k] = [[1.5 - 2.0 * x for x in r] for r in case[k]]
    if case["trait"] is not None: d["trait"] = ["decoy%d" % i for i in range(len(case["trait"]))]
    return d

def _scribble_model(m):
    """overwrite every coefficient array and the trait names of a model in place"""
    for nm in ("beta", "u_misc", "u_a", "u_d"):
        a = getattr(m, nm, None)
        if isinstance(a, numpy.ndarray) and a.size: a[...] = -77.25
    if type(m).__name__ == "DenseLinearGenomicModelStub" and m.u.size: m.u[...] = -77.25
    if m.trait is not None and len(m.trait): m.trait[...] = "scribbled"

def _obtain_model(case, warm=None):
    """the model of the case, obtained through one of the library's own routes (case["route"]):
    ctor; copy.copy / copy.deepcopy / .copy() / .deepcopy() of a model that is overwritten in place afterwards; the property setters
    on a decoy model; in-place writes into the arrays of a decoy model after the decoy has been used (warm: callable(model))"""
    import copy as _copy
    route = case.get("route", "ctor")
    if route == "ctor":
        return _build_model(case)
    if route in ("copy", "deepcopy", "copy_m", "deepcopy_m"):
        m0 = _build_model(case)
        if route in ("copy_m", "deepcopy_m") and case["cls"] == "L":
            route = route[:-2]                  # the abstract base class has no .copy()/.deepcopy() methods
        m = {"copy": _copy.copy, "deepcopy": _copy.deepcopy, "copy_m": lambda x: x.copy(), "deepcopy_m": lambda x: x.deepcopy()}[route](m0)
        if type(m) is not type(m0): raise AssertionError("copy changed the class: %s" % type(m).__name__)
        _scribble_model(m0)
        return m
    t = len(case["beta"][0])
    m = _build_model(_decoy(case))
    if warm is not None: warm(m)
    beta = _mk2(case["beta"], t); u_a = _mk2(case["u_a"], t)
    u_misc = None if case["u_misc"] is None else _mk2(case["u_misc"], t)
    u_d = None if case.get("u_d") is None else _mk2(case["u_d"], t)
    trait = None if case["trait"] is None else numpy.array(case["trait"], dtype=object)
    if route == "setters":
        m.beta = beta
        if case["cls"] == "L":
            m.u = u_a if u_misc is None else numpy.concatenate([u_misc, u_a], axis=0)
        else:
            m.u_misc = u_misc; m.u_a = u_a
            if case["cls"] == "AD": m.u_d = u_d
        m.trait = trait
        return m
    if route == "inplace":
        m.beta[...] = beta
        if case["cls"] == "L":
            m.u[...] = u_a if u_misc is None else numpy.concatenate([u_misc, u_a], axis=0)
        else:
            if u_misc is not None and u_misc.size: m.u_misc[...] = u_misc
            m.u_a[...] = u_a
            if case["cls"] == "AD": m.u_d[...] = (u_d if u_d is not None else 0.0)
        if trait is not None: m.trait[...] = trait
        return m
    raise ValueError(route)

def _build_gt(case, fmt, perm=None):
    from pybrops.popgen.gmat.DenseGenotypeMatrix import DenseGenotypeMatrix
    from pybrops.popgen.gmat.DensePhasedGenotypeMatrix import DensePhasedGenotypeMatrix
    p = len(case["u_a"])
    dos = numpy.array(case["dos"], dtype="int8").reshape((len(case["dos"]), p))
    taxa = None if case["taxa"] is None else numpy.array(case["taxa"], dtype=object)
    grp = None if case["taxa_grp"] is None else numpy.array(case["taxa_grp"], dtype=int)
    ph = None if case["phased"] is None else numpy.array(case["phased"], dtype="int8").reshape((case["ploidy"], dos.shape[0], p))
    if perm is not None:
        ix = numpy.array(perm, dtype=int)
        dos = dos[ix]
        if taxa is not None: taxa = taxa[ix]
        if grp is not None: grp = grp[ix]
        if ph is not None: ph = ph[:, ix, :]
    if fmt == "phased":
        return DensePhasedGenotypeMatrix(ph, taxa=taxa, taxa_grp=grp)
    if fmt == "unphased":
        return DenseGenotypeMatrix(dos, taxa=taxa, taxa_grp=grp, ploidy=case["ploidy"])
    return dos

COUNTS = ["facount", "fafreq", "faavail", "fafixed", "fapoly", "nafixed", "napoly", "dacount", "dafreq", "daavail", "dafixed", "dapoly"]

L_COUNTS = ["facount", "fafreq", "faavail", "fafixed", "dacount", "dafreq", "daavail", "dafixed"]

DEFAULT_DTYPE = {"count": "int64", "freq": "float64", "flag": "bool"}

def _kind_of(f):
    return "count" if "count" in f else ("freq" if "freq" in f else "flag")

def _scribble(r):
    """overwrite a returned array / the arrays of a returned breeding value matrix in place: a later call must not see it"""
    try:
        if isinstance(r, numpy.ndarray):
            if r.flags.writeable and r.size: r[...] = (True if r.dtype == bool else 113)
        elif hasattr(r, "mat"):
            if r.mat.size: r.mat[...] = 113.0
            if r.location.size: r.location[...] = 113.0
            if r.scale.size: r.scale[...] = 113.0
    except Exception:
        pass

def _call(f, conv):
    """call, convert to the JSON-able observable, then scribble over the returned object"""
    try:
        r = f()
        out = conv(r)
    except Exception as e:                       # an exception is an observable
        return {"exc": type(e).__name__}
    _scribble(r)
    return out

def _run_fmt(case, m, gt, fmt, perm=None):
    """call every public prediction/variance/statistic method of the model on one genotype representation; every returned array
    is overwritten in place right after it has been recorded, a few calls are repeated at the end (R["stable"]), and the arrays
    handed in are compared with pristine copies (R["inputs_unchanged"])"""
    from pybrops.popgen.bvmat.DenseBreedingValueMatrix import DenseBreedingValueMatrix
    n = len(case["dos"]); p = len(case["u_a"]); t = len(case["beta"][0]); q = len(case["beta"])
    pm = 0 if case["u_misc"] is None else len(case["u_misc"])
    X = _mk2(case["X"], q); Zm = _mk2(case["Zm"], pm); Y = _mk2(case["Y"], t)
    dos = numpy.array(case["dos"], dtype="int8").reshape((n, p))
    if perm is not None:
        ix = numpy.array(perm, dtype=int); X = X[ix]; Zm = Zm[ix]; Y = Y[ix]; dos = dos[ix]
    raw = fmt == "raw"
    pl = case["ploidy_arg"]
    kw = {"ploidy": pl} if (raw and pl is not None) else {}
    kwd = kw if case["cls"] == "AD" else {}       # gegv/predict/score/var_G of the dominance model take the ploidy of a raw array
    R = {}
    with numpy.errstate(all="ignore"):
        R["gebv_numpy"] = _call(lambda: m.gebv_numpy(dos), _hx)
        R["gebv"] = _call(lambda: m.gebv(gt), _bv)
        if case["cls"] != "L":
            if case["cls"] == "AD":
                het = (dos != 0) & (dos != case["ploidy"])
                Zg = numpy.concatenate([dos, het], axis=1)
            else:
                Zg = dos
            R["gegv_numpy"] = _call(lambda: m.gegv_numpy(Zg), _hx)
            R["gegv"] = _call(lambda: m.gegv(gt, **kwd), _bv)
        else:
            Zg = dos
        Zfull = numpy.concatenate([Zm, Zg], axis=1)
        pristine = [a.copy() for a in (X, Zm, Y, dos, Zg, Zfull)]
        R["predict_numpy"] = _call(lambda: m.predict_numpy(X, Zfull), _hx)
        R["predict"] = _call(lambda: m.predict(X, gt, **kwd), _bv)
        R["score_numpy"] = _call(lambda: m.score_numpy(Y, X, Zfull), _hx)
        R["score"] = _call(lambda: m.score(Y, X, gt, **kwd), _hx)
        R["score_bv"] = _call(lambda: m.score(DenseBreedingValueMatrix.from_numpy(Y), X, gt, **kwd), _hx)
        R["var_A"] = _call(lambda: m.var_A(gt), _hx)
        R["var_G"] = _call(lambda: m.var_G(gt, **kwd), _hx)
        R["var_a"] = _call(lambda: m.var_a(gt, **kw), _hx)
        R["bulmer"] = _call(lambda: m.bulmer(gt, **kw), _hx)
        R["var_A_numpy"] = _call(lambda: m.var_A_numpy(dos), _hx)
        R["var_G_numpy"] = _call(lambda: m.var_G_numpy(Zg), _hx)
        # the *_numpy forms of the genic variance and the Bulmer ratio, handed the allele frequencies and the ploidy explicitly
        if fmt == "unphased":
            plx = case["ploidy"]
            freq = dos.sum(0) / (plx * n)
            R["var_a_numpy"] = _call(lambda: m.var_a_numpy(freq.copy(), plx), _hx)
            R["bulmer_numpy"] = _call(lambda: m.bulmer_numpy(dos, freq.copy(), plx), _hx)
        if not raw:
            dts = case.get("dtypes") or {}
            R["dtype"] = {}
            for f in COUNTS:
                if case["cls"] != "L" or f in L_COUNTS:
                    dt = dts.get(_kind_of(f))
                    kwt = {} if dt is None else {"dtype": dt}
                    def conv(a, f=f):
                        R["dtype"][f] = str(a.dtype)
                        if "freq" in f: return _hx(a)
                        if "count" in f: return [[int(x) for x in r] for r in a.tolist()]
                        return [[(x if isinstance(x, bool) else (bool(x) if x in (0, 1) else "not-a-flag:%r" % (x,))) for x in r] for r in a.tolist()]
                    R[f] = _call(lambda: getattr(m, f)(gt, **kwt), conv)
        # repeat a few calls after every earlier result has been overwritten: a result is a function of the state at the call
        again = {"gebv_numpy": _call(lambda: m.gebv_numpy(dos), _hx), "predict_numpy": _call(lambda: m.predict_numpy(X, Zfull), _hx),
                 "var_a": _call(lambda: m.var_a(gt, **kw), _hx), "var_A": _call(lambda: m.var_A(gt), _hx), "gebv": _call(lambda: m.gebv(gt), _bv)}
        if not raw:
            again["facount"] = _call(lambda: getattr(m, "facount")(gt), lambda a: [[int(x) for x in r] for r in a.tolist()])
        R["stable"] = all(again[k] == R[k] for k in again if not (k == "facount" and (case.get("dtypes") or {}).get("count")))
        R["inputs_unchanged"] = all(bool(numpy.array_equal(a, b)) for a, b in zip((X, Zm, Y, dos, Zg, Zfull), pristine))
    return R

def _fmts(case):
    return (["phased"] if case["phased"] is not None else []) + ["unphased", "raw"]

def _warm(case):
    """use a (decoy) model before its coefficients are replaced: anything memoised now would be stale later"""
    def warm(m):
        gts = [_build_gt(case, f) for f in _fmts(case)]
        with numpy.errstate(all="ignore"):
            for g in gts:
                for f in (lambda: m.gebv(g), lambda: m.var_A(g), lambda: m.var_a(g), lambda: m.bulmer(g), lambda: m.u, lambda: m.nexplan_u,
                          lambda: m.facount(g), lambda: m.fafreq(g), lambda: m.dacount(g), lambda: m.gegv(g)):
                    try: f()
                    except Exception: pass
    return warm

def _obtain_gt(case, fmt, perm=None):
    """the genotype input; under the in-place route a matrix object is first built on other dosages, used, and then overwritten"""
    if case.get("route") != "inplace" or fmt == "raw":
        return _build_gt(case, fmt, perm)
    d = dict(case)
    pl = case["ploidy"]
    d["dos"] = [[pl - x for x in r] for r in case["dos"]]
    if case["phased"] is not None: d["phased"] = [[[1 - x for x in r] for r in ph] for ph in case["phased"]]
    g = _build_gt(d, fmt, perm)
    for f in (g.afreq, g.acount, lambda: g.mat_asformat("{0,1,2}"), g.apoly, g.maf):
        try: f()
        except Exception: pass
    g.mat[...] = _build_gt(case, fmt, perm).mat
    return g

def _run_lin(case):
    from pybrops.breed.prot.bv.TrueBreedingValue import TrueBreedingValue
    m = _obtain_model(case, _warm(case))
    t = len(case["beta"][0])
    snap = [m.beta.copy(), m.u.copy(), None if m.trait is None else m.trait.copy()]
    out = {"fmt": {}, "perm": {}}
    gts = {}
    for fmt in _fmts(case):
        gts[fmt] = _obtain_gt(case, fmt)
        out["fmt"][fmt] = _run_fmt(case, m, gts[fmt], fmt)
    # taxon permutation: the same data with rows (and labels) reordered
    gps = {}
    for fmt in ([] if case.get("noperm") else _fmts(case)):
        gps[fmt] = _obtain_gt(case, fmt, case["perm"])
        out["perm"][fmt] = _run_fmt(case, m, gps[fmt], fmt, case["perm"])
    # marker partition: two models holding the two halves of the additive effects
    k = case["split"]
    if case["cls"] in ("A", "AD", "RR"):
        c1 = dict(case); c1["u_a"] = case["u_a"][:k]; c1["u_d"] = None if case.get("u_d") is None else case["u_d"][:k]
        c2 = dict(case); c2["u_a"] = case["u_a"][k:]; c2["u_d"] = None if case.get("u_d") is None else case["u_d"][k:]
        dos = numpy.array(case["dos"], dtype="int8").reshape((len(case["dos"]), len(case["u_a"])))
        m1, m2 = _build_model(c1), _build_model(c2)
        out["part"] = [_try(lambda: _hx(m1.gebv_numpy(dos[:, :k]))), _try(lambda: _hx(m2.gebv_numpy(dos[:, k:])))]
        if case["cls"] == "AD":
            het = (dos != 0) & (dos != case["ploidy"])
            out["part_g"] = [_try(lambda: _hx(m1.gegv_numpy(numpy.concatenate([dos[:, :k], het[:, :k]], axis=1)))),
                             _try(lambda: _hx(m2.gegv_numpy(numpy.concatenate([dos[:, k:], het[:, k:]], axis=1))))]
    # true breeding value protocol = gebv of the wrapped model
    f0 = _fmts(case)[0]
    out["tbv"] = _try(lambda: _bv(TrueBreedingValue(m).estimate(None, gts[f0])))
    out["tbv_fmt"] = f0
    misc = {}
    out["tbv_misc"] = _try(lambda: _bv(TrueBreedingValue(gpmod=m).estimate(None, gts[f0], miscout=misc)))
    # the read-only classes refuse to be fitted
    if case["cls"] in ("A", "AD", "L"):
        Yf = _mk2(case["Y"], t); Xf = _mk2(case["X"], len(case["beta"])); dosf = numpy.array(case["dos"], dtype="int8").reshape((len(case["dos"]), len(case["u_a"])))
        out["fit_refused"] = [_try(lambda: m.fit_numpy(Yf, Xf, dosf) is None), _try(lambda: m.fit(Yf, Xf, gts[f0]) is None)]
    # shape bookkeeping of the model object
    out["shape"] = _try(lambda: {"nexplan_beta": int(m.nexplan_beta), "nexplan_u": int(m.nexplan_u), "nexplan": int(m.nexplan), "nparam_beta": int(m.nparam_beta),
                                 "nparam_u": int(m.nparam_u), "nparam": int(m.nparam), "ntrait": (None if m.trait is None else int(m.ntrait)),
                                 "u_shape": list(m.u.shape)} if case["cls"] != "L" else
                        {"nparam_beta": int(m.nparam_beta), "nparam_u": int(m.nparam_u), "ntrait": (None if m.trait is None else int(m.ntrait)), "u_shape": list(m.u.shape)})
    # nothing handed in may be modified: coefficient arrays, trait names, genotype matrices, taxon labels and groups
    ok = bool(numpy.array_equal(snap[0], m.beta) and numpy.array_equal(snap[1], m.u))
    ok = ok and ((snap[2] is None and m.trait is None) or (snap[2] is not None and m.trait is not None and list(snap[2]) == list(m.trait)))
    for objs, perm in ((gts, None), (gps, case["perm"])):
        for fmt in objs:
            ref = _build_gt(case, fmt, perm)
            a = objs[fmt] if fmt == "raw" else objs[fmt].mat
            b = ref if fmt == "raw" else ref.mat
            ok = ok and bool(numpy.array_equal(a, b))
            if fmt != "raw":
                ok = ok and _lab(objs[fmt].taxa) == _lab(ref.taxa) and _lab(objs[fmt].taxa_grp) == _lab(ref.taxa_grp)
    for R in list(out["fmt"].values()) + list(out["perm"].values()):
        ok = ok and R["inputs_unchanged"]
    out["unchanged"] = ok
    return out

def _run_gs(case):
    from pybrops.model.gmod.rrBLUPModel0 import gauss_seidel
    A = _arr(case["A"]); b = _arr(case["b"])
    A0, b0 = A.copy(), b.copy()
    with numpy.errstate(all="ignore"):
        if case.get("defaults"): x = gauss_seidel(A, b)                # atol = 1e-8, maxiter = 1000 by default
        elif case.get("by_keyword"): x = gauss_seidel(b=b, A=A, maxiter=case["maxiter"], atol=case["atol"])
        else: x = gauss_seidel(A, b, case["atol"], case["maxiter"])
        x0 = _hx(x)
        x[...] = 113.0                                                   # the result belongs to the caller
        again = gauss_seidel(A, b, case["atol"], case["maxiter"])
    return {"x": x0, "unchanged": bool(numpy.array_equal(A, A0) and numpy.array_equal(b, b0)), "stable": _hx(again) == x0}

def _run_fit(case):
    from pybrops.model.gmod.rrBLUPModel0 import rrBLUPModel0, rrBLUP_ML0
    from pybrops.popgen.gmat.DenseGenotypeMatrix import DenseGenotypeMatrix
    Y = _arr(case["Y"]); Zi = numpy.array(case["Z"], dtype="int8")
    trait = None if case["trait"] is None else numpy.array(case["trait"], dtype=object)
    Y0, Z0 = Y.copy(), Zi.copy()
    kw = {"trait": trait}
    meta = case.get("meta")
    if meta: kw.update({"method": meta["method"], "model_name": meta["model_name"], "hyperparams": dict(meta["hyperparams"])})
    Xarg = numpy.ones((Y.shape[0], 1)) if case.get("X") == "ones" else None        # covariates are accepted and ignored by this model
    with numpy.errstate(all="ignore"):
        Yseen = Y
        if case["via"] == "fit":
            g = DenseGenotypeMatrix(Zi, ploidy=case["ploidy"])
            m = rrBLUPModel0.fit(Y, Xarg, g, **kw)
        elif case["via"] == "fit_bv":
            from pybrops.popgen.bvmat.DenseBreedingValueMatrix import DenseBreedingValueMatrix
            bv = DenseBreedingValueMatrix.from_numpy(Y)
            Yseen = bv.unscale()                    # what fit() extracts from the matrix object (Y up to rounding)
            m = rrBLUPModel0.fit(bv, Xarg, DenseGenotypeMatrix(Zi, ploidy=case["ploidy"]), **kw)
        elif case["via"] == "fit_raw":
            m = rrBLUPModel0.fit(Y, Xarg, Zi, **kw)
        else:
            m = rrBLUPModel0.fit_numpy(Y, Xarg, Zi, **kw)
        # variance components of every trait: the same deterministic routine on the polymorphic columns
        Zf = Zi.astype(float)
        poly = ~numpy.all(Zf == Zf[0, :], axis=0)
        comps = []
        for i in range(Y.shape[1]):
            r = rrBLUP_ML0(Yseen[:, i], Zf[:, poly])
            comps.append({"varE": float(r["varE"]).hex(), "varU": float(r["varU"]).hex(), "ridge": float(r["varE"] / r["varU"]).hex(),
                          "uhat": _hx(r["uhat"]), "betahat": _hx(r["betahat"]), "yhat": _hx(r["yhat"])})
        gebv = m.gebv_numpy(Zf)
        res = {"cls": type(m).__name__, "beta": _hx(m.beta), "u_a": _hx(m.u_a), "u_misc_shape": list(m.u_misc.shape), "trait": _lab(m.trait),
               "method": m.method, "comps": comps, "gebv_numpy": _hx(gebv), "model_name": m.model_name, "hyperparams": dict(m.hyperparams)}
        # copies of the fitted model predict the same and do not share its arrays
        import copy as _copy
        cps = [_copy.copy(m), _copy.deepcopy(m), m.copy(), m.deepcopy()]
        m.u_a[...] = 113.0; m.beta[...] = 113.0
        res["copies_ok"] = all(type(c).__name__ == "rrBLUPModel0" and _hx(c.gebv_numpy(Zf)) == res["gebv_numpy"] and _hx(c.beta) == res["beta"]
                               and c.method == res["method"] and _lab(c.trait) == res["trait"] for c in cps)
        # the solver's tolerance and iteration limit handed to rrBLUP_ML0 reach gauss_seidel (in that order)
        if case.get("gs"):
            r = rrBLUP_ML0(Yseen[:, 0].copy(), Zf[:, poly].copy(), gsatol=case["gs"][0], gsmaxiter=case["gs"][1])
            ua = numpy.zeros(Zf.shape[1]); ua[poly] = r["uhat"]
            res["alt"] = {"ridge": float(r["varE"] / r["varU"]).hex(), "u": _hx(ua), "beta": float(r["betahat"][0]).hex()}
    res["unchanged"] = bool(numpy.array_equal(Y, Y0) and numpy.array_equal(Zi, Z0))
    return res

def run_impl(case):
    return {"lin": _run_lin, "gs": _run_gs, "fit": _run_fit}[case["kind"]](case)

# ------------------------------------------------------------------------------------------------ generators
def _g(rng, den=8, lim=32, pzero=0.25):
    """a dyadic grid value k/den, |k| <= lim, exact zero with probability pzero"""
    if rng.random() < pzero: return 0.0
    return rng.randint(-lim, lim) / den

def _gmat(rng, r, c, **k):
    return [[_g(rng, **k) for _ in range(c)] for _ in range(r)]

def _gen_lin(rng, big=False, cls=None):
    cls = cls or rng.choice(["A", "A", "AD", "AD", "RR", "L"])
    n = rng.choice([1, 1, 2, 2, 3, 4, 5, 6, 7, 8]) if not big else rng.randint(1, 24)
    p = rng.choice([1, 2, 3, 3, 4, 5, 6]) if not big else rng.randint(1, 16)
    multiscale = rng.random() < 0.35          # extra traits at scales far from 1 are appended below
    t = rng.choice([1, 1, 2, 3]) if not multiscale else rng.choice([1, 1, 2])
    q = rng.choice([1, 1, 1, 2, 3, 4])
    pm = rng.choice([0, 0, 0, 0, 1, 2]) if cls != "L" else 0
    ploidy = rng.choice([1, 2, 2, 2, 2, 3, 4])
    # marker effects: any sign pattern, exact zeros, whole-zero rows/columns now and then
    u_a = _gmat(rng, p, t, pzero=0.25)
    if rng.random() < 0.15: u_a = [[0.0] * t for _ in range(p)]
    if rng.random() < 0.15: u_a[rng.randrange(p)] = [0.0] * t
    u_d = None
    if cls == "AD":
        u_d = None if rng.random() < 0.15 else _gmat(rng, p, t)
    beta = _gmat(rng, q, t, pzero=0.1)
    u_misc = _gmat(rng, pm, t) if pm > 0 else (None if rng.random() < 0.7 else [])
    # genotypes: columns forced to be absent / fixed / single-copy / polymorphic
    phased_ok = ploidy <= 3 and rng.random() < 0.6
    kinds = [rng.choice(["fix0", "fixP", "one", "poly", "poly", "poly", "het"]) for _ in range(p)]
    if phased_ok:
        ph = [[[0] * p for _ in range(n)] for _ in range(ploidy)]
        for j, kd in enumerate(kinds):
            for h in range(ploidy):
                for i in range(n):
                    ph[h][i][j] = {"fix0": 0, "fixP": 1, "one": 0, "poly": rng.randint(0, 1), "het": 1 if h == 0 else 0}[kd]
            if kd == "one": ph[rng.randrange(ploidy)][rng.randrange(n)][j] = 1
        dos = [[sum(ph[h][i][j] for h in range(ploidy)) for j in range(p)] for i in range(n)]
    else:
        ph = None
        dos = [[0] * p for _ in range(n)]
        for j, kd in enumerate(kinds):
            for i in range(n):
                dos[i][j] = {"fix0": 0, "fixP": ploidy, "one": 0, "poly": rng.randint(0, ploidy), "het": min(1, ploidy)}[kd]
            if kd == "one": dos[rng.randrange(n)][j] = 1
    if rng.random() < 0.2 and n >= 2:                      # duplicate taxa
        i, k = rng.randrange(n), rng.randrange(n)
        dos[i] = list(dos[k])
        if ph is not None:
            for h in range(ploidy): ph[h][i] = list(ph[h][k])
    lab = rng.random()
    taxa = None if lab < 0.25 else ["tx%d" % rng.randrange(3 * n) for _ in range(n)] if lab < 0.5 else ["tx%d" % i for i in rng.sample(range(50), n)]
    taxa_grp = None if rng.random() < 0.4 else [rng.randint(0, 3) for _ in range(n)]
    trait = None if rng.random() < 0.3 else ["tr%d" % i for i in rng.sample(range(20), t)]
    # covariates: intercept column of ones then indicators / grid values
    X = [[1.0] + [float(rng.randint(0, 1)) if rng.random() < 0.7 else _g(rng, den=4, lim=8) for _ in range(q - 1)] for _ in range(n)]
    Zm = _gmat(rng, n, pm, den=4, lim=8)
    Y = _gmat(rng, n, t, pzero=0.05)
    r = rng.random()
    if r < 0.12: Y = [list(Y[0]) for _ in range(n)]        # constant phenotype: SST = 0
    perm = list(range(n)); rng.shuffle(perm)
    split = rng.randint(0, p)
    ploidy_arg = None if rng.random() < 0.25 else ploidy
    route = rng.choice(ROUTES)
    dtypes = None
    if rng.random() < 0.4:                                    # non-default dtype arguments of the allele statistics
        dtypes = {"count": rng.choice([None, "int64", "int32", "int16"]), "freq": rng.choice([None, "float64"]),
                  "flag": rng.choice([None, "bool", "int8", "int64"])}
    case = {"kind": "lin", "route": route, "dtypes": dtypes, "cls": cls, "beta": beta, "u_misc": u_misc, "u_a": u_a, "u_d": u_d, "trait": trait, "ploidy": ploidy,
            "phased": ph, "dos": dos, "taxa": taxa, "taxa_grp": taxa_grp, "X": X, "Zm": Zm, "Y": Y, "perm": perm, "split": split,
            "ploidy_arg": ploidy_arg}
    if multiscale: _add_scaled_traits(rng, case)
    return case

SCALE_EXP = [-12, -20, -40, 20]      # powers of two: a scaled trait stays on a dyadic grid, the exact regime applies

def _add_scaled_traits(rng, case):
    """append to the model (i) a copy of one of its traits with intercepts, effects and phenotypes multiplied by 2^e, (ii) now and
    then an independent trait generated on the ordinary grid and then multiplied by 2^e, (iii) now and then an all-zero trait;
    shuffle the traits; record the (base, copy, e) triples under "scaled" for the scale-covariance clauses of the predicate"""
    mats = [k for k in ("beta", "u_misc", "u_a", "u_d", "Y") if case.get(k)]
    t = len(case["beta"][0])
    cols = [{k: [r[j] for r in case[k]] for k in mats} for j in range(t)]
    tags = [("ord", j) for j in range(t)]
    kb = rng.randrange(t); e = rng.choice(SCALE_EXP)
    cols.append({k: [x * 2.0 ** e for x in cols[kb][k]] for k in mats}); tags.append(("copy", kb, e))
    if rng.random() < 0.4:
        e2 = rng.choice(SCALE_EXP)
        cols.append({k: [_g(rng, pzero=(0.05 if k == "Y" else 0.25)) * 2.0 ** e2 for _ in cols[0][k]] for k in mats}); tags.append(("tiny", e2))
    if rng.random() < 0.6:
        ey = rng.choice([0, 0, -20])
        cols.append({k: ([_g(rng, pzero=0.05) * 2.0 ** ey for _ in cols[0][k]] if k == "Y" else [0.0] * len(cols[0][k])) for k in mats}); tags.append(("zero",))
    order = list(range(len(cols))); rng.shuffle(order)
    cols = [cols[i] for i in order]; tags = [tags[i] for i in order]
    pos = {i: j for j, i in enumerate(order)}                  # old index -> new index
    for k in mats:
        case[k] = [[c[k][r] for c in cols] for r in range(len(cols[0][k]))]
    case["scaled"] = [[pos[tg[1]], j, tg[2]] for j, tg in enumerate(tags) if tg[0] == "copy"]
    case["trait_kinds"] = [tg[0] for tg in tags]
    if case["trait"] is not None: case["trait"] = ["tr%d" % i for i in rng.sample(range(20), len(cols))]

# ------------------------------------------------------------------------------------------------ independent predicate
def _FM(x):
    return [[F(v) for v in r] for r in x]

def _close(a, b, tol=EPS40):
    """a: Fraction or None (non-finite), b: exact Fraction"""
    return a is not None and abs(a - b) <= tol * (1 + abs(b))

RTOL = F(1, 2 ** 36)

def _rclose(a, b, tol=RTOL):
    """scale-free closeness |a - b| <= 2^-36 |b|: an exact value of zero demands exactly zero, a tiny one is not zero"""
    return a is not None and abs(a - b) <= tol * abs(b)

def _vec_rclose(H, V):
    return isinstance(H, list) and len(H) == len(V) and all(_rclose(_fr(h), v) for h, v in zip(H, V))

def _bv_scale(case, M):
    """scale of each trait column of a breeding value matrix: largest magnitude among its values plus the magnitudes of the trait's
    fixed effects (the location X* @ beta is rounded at the size of its terms, which may cancel)"""
    t = len(M[0]) if M else 0
    return [max(abs(r[k]) for r in M) + sum((abs(F(b[k])) for b in case["beta"]), F(0)) for k in range(t)]

def _mat_sclose(H, M, sc):
    """every entry within 2^-36 of the scale of its column (each trait at its own scale, an all-zero trait exactly)"""
    if not isinstance(H, list) or len(H) != len(M): return False
    for hr, mr in zip(H, M):
        if len(hr) != len(mr): return False
        for k, (h, v) in enumerate(zip(hr, mr)):
            x = _fr(h)
            if x is None or abs(x - v) > RTOL * sc[k]: return False
    return True

def _mat_close(H, M, exact):
    """H: 2-D list of hex strings (implementation), M: 2-D list of Fractions (definition)"""
    if not isinstance(H, list) or len(H) != len(M): return False
    for hr, mr in zip(H, M):
        if len(hr) != len(mr): return False
        for h, v in zip(hr, mr):
            x = _fr(h)
            if x is None: return False
            if exact:
                if x != v: return False
            elif not _close(x, v): return False
    return True

def _vec_close(H, V, exact=False):
    return isinstance(H, list) and _mat_close([H], [V], exact)

def _popvar(col):
    n = len(col); mu = sum(col, F(0)) / n
    return sum(((x - mu) ** 2 for x in col), F(0)) / n

def _defs(case, perm=None, ploidy_for_raw=None, het_ploidy=None):
    """the textbook definitions, evaluated with exact rationals on the inputs of the case; het_ploidy: the ploidy under which
    heterozygosity is read (the matrix's own; for a raw array the ploidy keyword, 2 when it is not given)"""
    n = len(case["dos"]); p = len(case["u_a"]); t = len(case["beta"][0]); q = len(case["beta"])
    pm = 0 if case["u_misc"] is None else len(case["u_misc"])
    dos = [list(r) for r in case["dos"]]; X = _FM(case["X"]); Zm = _FM(case["Zm"]); Y = _FM(case["Y"])
    if perm is not None:
        dos = [dos[i] for i in perm]; X = [X[i] for i in perm]; Zm = [Zm[i] for i in perm]; Y = [Y[i] for i in perm]
    beta = _FM(case["beta"]); ua = _FM(case["u_a"]); um = _FM(case["u_misc"] or [])
    ploidy = case["ploidy"]
    ud = None
    if case["cls"] == "AD":
        ud = _FM(case["u_d"]) if case["u_d"] is not None else [[F(0)] * t for _ in range(p)]
    hp = ploidy if het_ploidy is None else het_ploidy
    het = [[1 if (d != 0 and d != hp) else 0 for d in r] for r in dos]
    D = {}
    D["loc"] = [beta[0][k] + sum((beta[r][k] for r in range(1, q)), F(0)) / q for k in range(t)]
    D["bv0"] = [[sum((dos[i][j] * ua[j][k] for j in range(p)), F(0)) for k in range(t)] for i in range(n)]          # Z u_a
    D["gv0"] = [[D["bv0"][i][k] + (sum((het[i][j] * ud[j][k] for j in range(p)), F(0)) if ud is not None else 0) for k in range(t)] for i in range(n)]
    D["bv"] = [[D["bv0"][i][k] + D["loc"][k] for k in range(t)] for i in range(n)]
    D["gv"] = [[D["gv0"][i][k] + D["loc"][k] for k in range(t)] for i in range(n)]
    D["yhat"] = [[sum((X[i][r] * beta[r][k] for r in range(q)), F(0)) + sum((Zm[i][r] * um[r][k] for r in range(pm)), F(0)) + D["gv0"][i][k]
                  for k in range(t)] for i in range(n)]
    D["var_A"] = [_popvar([D["bv"][i][k] for i in range(n)]) for k in range(t)]
    D["var_G"] = [_popvar([D["gv"][i][k] for i in range(n)]) for k in range(t)]
    def genic(pl):
        fr = [F(sum(dos[i][j] for i in range(n)), pl * n) for j in range(p)]
        return [pl * pl * sum((ua[j][k] ** 2 * fr[j] * (1 - fr[j]) for j in range(p)), F(0)) for k in range(t)]
    D["var_a"] = genic(ploidy)
    D["var_a_raw"] = genic(ploidy_for_raw if ploidy_for_raw is not None else 2)
    sse = [sum(((Y[i][k] - D["yhat"][i][k]) ** 2 for i in range(n)), F(0)) for k in range(t)]
    sst = [_popvar([Y[i][k] for i in range(n)]) * n for k in range(t)]
    D["score"] = [None if sst[k] == 0 else 1 - sse[k] / sst[k] for k in range(t)]
    N = ploidy * n
    c = [sum(dos[i][j] for i in range(n)) for j in range(p)]
    D["N"] = N; D["c"] = c
    sg = [[(ua[j][k] > 0) - (ua[j][k] < 0) for k in range(t)] for j in range(p)]
    fa = [[c[j] if sg[j][k] > 0 else (N - c[j] if sg[j][k] < 0 else 0) for k in range(t)] for j in range(p)]
    da = [[c[j] if sg[j][k] < 0 else (N - c[j] if sg[j][k] > 0 else 0) for k in range(t)] for j in range(p)]
    D["facount"] = fa; D["dacount"] = da
    D["fafreq"] = [[F(x, N) for x in r] for r in fa]; D["dafreq"] = [[F(x, N) for x in r] for r in da]
    D["faavail"] = [[x > 0 for x in r] for r in fa]; D["daavail"] = [[x > 0 for x in r] for r in da]
    D["fafixed"] = [[x == N for x in r] for r in fa]; D["dafixed"] = [[x == N for x in r] for r in da]
    D["fapoly"] = [[0 < x < N for x in r] for r in fa]; D["dapoly"] = [[0 < x < N for x in r] for r in da]
    D["nafixed"] = [[sg[j][k] == 0 and c[j] in (0, N) for k in range(t)] for j in range(p)]
    D["napoly"] = [[sg[j][k] == 0 and 0 < c[j] < N for k in range(t)] for j in range(p)]
    return D

def _check_bv(bad, tag, bv, want, case, gtfmt, perm=None):
    """a breeding value matrix: values, labels, trait names, type"""
    if not isinstance(bv, dict) or "exc" in bv:
        bad.append("%s raised %s" % (tag, bv.get("exc") if isinstance(bv, dict) else bv)); return
    if bv["cls"] != "DenseGenomicEstimatedBreedingValueMatrix": bad.append("%s is a %s" % (tag, bv["cls"]))
    sc = _bv_scale(case, want)
    if not _mat_sclose(bv["mat"], want, sc): bad.append("%s != intercept + dosage x effects" % tag)
    taxa, grp = case["taxa"], case["taxa_grp"]
    if perm is not None:
        taxa = None if taxa is None else [taxa[i] for i in perm]
        grp = None if grp is None else [grp[i] for i in perm]
    if gtfmt == "raw": taxa, grp = None, None
    if bv["taxa"] != taxa: bad.append("%s rows do not carry the input's taxon labels" % tag)
    if bv["taxa_grp"] != grp: bad.append("%s rows do not carry the input's taxon groups" % tag)
    if bv["trait"] != case["trait"]: bad.append("%s trait names differ from the model's" % tag)
    n = len(want); t = len(want[0]) if n else 0
    if n:
        mean = [sum((want[i][k] for i in range(n)), F(0)) / n for k in range(t)]
        loc = bv["location"]
        if not (isinstance(loc, list) and len(loc) == t and all(_fr(h) is not None and abs(_fr(h) - mean[k]) <= RTOL * sc[k] for k, h in enumerate(loc))):
            bad.append("%s location is not the mean value" % tag)

def _pred_fmt(bad, case, R, fmt, D, tagp, perm=None):
    cls = case["cls"]; raw = fmt == "raw"
    pm = 0 if case["u_misc"] is None else len(case["u_misc"])
    tag = lambda s: "%s%s[%s]" % (tagp, s, fmt)
    gv0, gv, var_G, yhat, score = D["gv0"], D["gv"], D["var_G"], D["yhat"], D["score"]
    D0 = D.get("_obj", D)         # *_numpy variants are handed the matrix-object design whatever the representation
    if not _mat_close(R["gebv_numpy"], D["bv0"], True): bad.append(tag("gebv_numpy") + " != dosage x effects")
    _check_bv(bad, tag("gebv"), R["gebv"], D["bv"], case, fmt, perm)
    if cls != "L":
        if not _mat_close(R["gegv_numpy"], D0["gv0"], True): bad.append(tag("gegv_numpy") + " != dosage x effects + heterozygosity x dominance effects")
        _check_bv(bad, tag("gegv"), R["gegv"], gv, case, fmt, perm)
    if not _mat_close(R["predict_numpy"], D0["yhat"], True): bad.append(tag("predict_numpy") + " != X beta + Z u")
    if pm == 0:
        _check_bv(bad, tag("predict"), R["predict"], yhat, case, fmt, perm)
    elif not (isinstance(R["predict"], dict) and R["predict"].get("exc") == "ValueError"):
        bad.append(tag("predict") + " accepted a genotype input that lacks the miscellaneous predictors")
    for nm in ("score_numpy", "score", "score_bv") if pm == 0 else ("score_numpy",):
        H = R[nm]
        if not isinstance(H, list): bad.append(tag(nm) + " raised"); continue
        sc = D0["score"] if nm == "score_numpy" else score
        for k, h in enumerate(H):
            x = _fr(h)
            if sc[k] is None:
                if x is not None: bad.append(tag(nm) + " finite although the total sum of squares is zero")
            elif not _close(x, sc[k]): bad.append(tag(nm) + " != 1 - SSE/SST")
    for nm in ("var_A", "var_A_numpy"):
        if not _vec_rclose(R[nm], D["var_A"]): bad.append(tag(nm) + " != population variance of the breeding values")
    for nm in ("var_G", "var_G_numpy"):
        if not _vec_rclose(R[nm], var_G if nm == "var_G" else D0["var_G"]): bad.append(tag(nm) + " != population variance of the genotypic values")
    va = D["var_a_raw"] if raw else D["var_a"]
    if not _vec_rclose(R["var_a"], va): bad.append(tag("var_a") + " != ploidy^2 sum u^2 p(1-p)")
    H = R["bulmer"]
    if not isinstance(H, list): bad.append(tag("bulmer") + " raised")
    else:
        for k, h in enumerate(H):
            x = _fr(h)
            if va[k] == 0:
                if not math.isnan(_fh(h)): bad.append(tag("bulmer") + " is not NaN although the genic variance is zero")
            elif not _rclose(x, D["var_A"][k] / va[k]): bad.append(tag("bulmer") + " != var_A / var_a")
    # scale covariance, stated directly on the outputs: a trait whose intercepts, effects and phenotypes are 2^e times those of
    # another trait has 4^e times its variances and the same Bulmer ratio (NaN for NaN) and coefficient of determination
    for kb, kc, e in case.get("scaled", []):
        c2 = F(4) ** e
        for nm in ("var_A", "var_A_numpy", "var_G", "var_G_numpy", "var_a"):
            H = R[nm]
            if not isinstance(H, list): continue
            a, b = _fr(H[kc]), _fr(H[kb])
            if a is None or b is None or not _rclose(a, c2 * b):
                bad.append(tag(nm) + " of a trait scaled by 2^%d is not 4^%d times that of the unscaled trait" % (e, e))
        H = R["bulmer"]
        if isinstance(H, list):
            a, b = _fr(H[kc]), _fr(H[kb])
            if (a is None) != (b is None) or (a is not None and not _rclose(a, b)):
                bad.append(tag("bulmer") + " changes when the trait is scaled by 2^%d" % e)
        for nm in ("score_numpy", "score", "score_bv") if pm == 0 else ("score_numpy",):
            H = R[nm]
            if not isinstance(H, list): continue
            a, b = _fr(H[kc]), _fr(H[kb])
            if (a is None) != (b is None) or (a is not None and not _close(a, b)):
                bad.append(tag(nm) + " changes when the trait is scaled by 2^%d" % e)
    if not R.get("stable", True): bad.append(tag("a repeated call") + " gave a different result after the earlier results had been overwritten in place")
    if "var_a_numpy" in R:
        if not _vec_rclose(R["var_a_numpy"], D0["var_a"]): bad.append(tag("var_a_numpy") + " != ploidy^2 sum u^2 p(1-p)")
        H = R["bulmer_numpy"]
        if not isinstance(H, list): bad.append(tag("bulmer_numpy") + " raised")
        else:
            for k, h in enumerate(H):
                if D0["var_a"][k] == 0:
                    if not math.isnan(_fh(h)): bad.append(tag("bulmer_numpy") + " is not NaN although the genic variance is zero")
                elif not _rclose(_fr(h), D0["var_A"][k] / D0["var_a"][k]): bad.append(tag("bulmer_numpy") + " != var_A / var_a")
    if not raw:
        dts = case.get("dtypes") or {}
        for f, got in (R.get("dtype") or {}).items():
            want = dts.get(_kind_of(f)) or DEFAULT_DTYPE[_kind_of(f)]
            if got != want: bad.append(tag(f) + " has dtype %s, not the requested/default %s" % (got, want))
        for f in (COUNTS if cls != "L" else L_COUNTS):
            want = D[f]
            got = R[f]
            if isinstance(got, dict): bad.append(tag(f) + " raised"); continue
            if "freq" in f:
                if not _mat_close(got, want, False): bad.append(tag(f) + " != count / (ploidy * ntaxa)")
            elif got != [[(bool(x) if isinstance(x, bool) else x) for x in r] for r in want]:
                bad.append(tag(f) + " differs from its definition")

def _pred_lin(case, out):
    bad = []
    D = _defs(case, None, case["ploidy_arg"])
    Dp = _defs(case, case["perm"], case["ploidy_arg"])
    Dr, Dpr = D, Dp
    rp = case["ploidy_arg"] if case["ploidy_arg"] is not None else 2
    if case["cls"] == "AD" and rp != case["ploidy"]:
        # a raw array carries no ploidy: it is read under the ploidy keyword (2 when none is given), exactly like a matrix
        # object of that ploidy; whenever the keyword states the data's ploidy the raw array must agree with the matrix objects
        Dr = _defs(case, None, case["ploidy_arg"], het_ploidy=rp); Dpr = _defs(case, case["perm"], case["ploidy_arg"], het_ploidy=rp)
        Dr["_obj"] = D; Dpr["_obj"] = Dp
    for fmt, R in out["fmt"].items():
        _pred_fmt(bad, case, R, fmt, Dr if fmt == "raw" else D, "", None)
    for fmt, R in out["perm"].items():
        _pred_fmt(bad, case, R, fmt, Dpr if fmt == "raw" else Dp, "permuted ", case["perm"])
    # equivariance stated directly between the two runs: exact for the raw products
    f0 = "unphased"
    if f0 in out["perm"]:
        a, b = out["fmt"][f0]["gebv_numpy"], out["perm"][f0]["gebv_numpy"]
        if isinstance(a, list) and isinstance(b, list) and b != [a[i] for i in case["perm"]]:
            bad.append("gebv_numpy of the permuted input is not the permuted gebv_numpy")
    # the three representations give the same answers
    fm = list(out["fmt"])
    for fmt in fm[1:]:
        for k in ("gebv_numpy", "gegv_numpy", "predict_numpy"):
            if k in out["fmt"][fm[0]] and out["fmt"][fmt][k] != out["fmt"][fm[0]][k]:
                bad.append("%s differs between the %s and the %s representation" % (k, fm[0], fmt))
    # marker partition
    if "part" in out:
        a, b = out["part"]
        if isinstance(a, dict) or isinstance(b, dict): bad.append("gebv_numpy of a marker part raised")
        else:
            s = [[_fr(x) + _fr(y) for x, y in zip(r1, r2)] for r1, r2 in zip(a, b)]
            if s != D["bv0"]: bad.append("gebv_numpy is not additive over a marker partition")
    if "part_g" in out:
        a, b = out["part_g"]
        if isinstance(a, dict) or isinstance(b, dict): bad.append("gegv_numpy of a marker part raised")
        else:
            s = [[_fr(x) + _fr(y) for x, y in zip(r1, r2)] for r1, r2 in zip(a, b)]
            if s != D["gv0"]: bad.append("gegv_numpy is not additive over a marker partition")
    _check_bv(bad, "TrueBreedingValue.estimate", out["tbv"], D["bv"], case, out["tbv_fmt"])
    if "tbv_misc" in out: _check_bv(bad, "TrueBreedingValue.estimate(miscout)", out["tbv_misc"], D["bv"], case, out["tbv_fmt"])
    for r in out.get("fit_refused", []):
        if not (isinstance(r, dict) and r.get("exc") == "AttributeError"): bad.append("a read-only model class accepted fit/fit_numpy")
    if "shape" in out:
        sh = out["shape"]; t = len(case["beta"][0]); q = len(case["beta"]); p = len(case["u_a"])
        pm = 0 if not case["u_misc"] else len(case["u_misc"])
        nu = pm + p * (2 if case["cls"] == "AD" else 1)
        want = {"nparam_beta": q * t, "nparam_u": nu * t, "ntrait": (None if case["trait"] is None else t), "u_shape": [nu, t]}
        if case["cls"] != "L": want.update({"nexplan_beta": q, "nexplan_u": nu, "nexplan": q + nu, "nparam": (q + nu) * t})
        if sh != want: bad.append("shape bookkeeping of the model object is wrong: %s" % (sh,))
    if not out["unchanged"]: bad.append("an input array or the model was modified")
    return bad

def pred(case, out):
    """the property, stated directly on the implementation's outputs (independent of the Coq model)"""
    if "exc" in out:
        return ["implementation raised %s: %s" % (out["exc"], out.get("msg"))]
    bad = {"lin": _pred_lin, "gs": _pred_gs, "fit": _pred_fit}[case["kind"]](case, out)
    seen = []
    for b in bad:
        if b not in seen: seen.append(b)
    return seen[:10]


# ------------------------------------------------------------------------------------------------ Coq emitter
def _q(x): return E.q(F(x))
def _qh(h): return E.q(_fr(h))
def _qm(M): return E.lst2(M, _q)
def _oq_h(h):
    v = _fr(h)
    return "None" if v is None else "(Some %s)" % E.q(v)
def _impl_mat(H):
    """implementation matrix (hex) or exception -> option qmat"""
    if isinstance(H, dict) or any(_fr(h) is None for r in H for h in r): return "None"
    return "(Some %s)" % E.lst2(H, _qh)
def _impl_vec(H):
    if isinstance(H, dict) or any(_fr(h) is None for h in H): return "None"
    return "(Some %s)" % E.lst(H, _qh)
def _impl_ovec(H):
    if isinstance(H, dict): return "None"
    return "(Some %s)" % E.lst(H, _oq_h)
def _labels(taxa, grp):
    return "(%s, %s)" % (E.opt(taxa, lambda l: E.lst(l, E.s)), E.opt(grp, lambda l: E.lst(l, E.z)))
def _impl_bv(bv):
    if "exc" in bv: return "None"
    return "(Some (%s, %s, %s))" % (E.lst2(bv["mat"], _qh), E.lst(bv["location"], _qh), _labels(bv["taxa"], bv["taxa_grp"]))

CLS = {"A": "CA", "RR": "CA", "AD": "CAD", "L": "CL"}

def _emit_fmt(case, R, fmt, pfx, parts):
    """comparisons for one representation; Coq variables in scope: g, gt_<fmt>, lab, X, Zm, Y (already permuted when pfx = p)"""
    cls = case["cls"]; t = len(case["beta"][0]); raw = fmt == "raw"
    gt = "%sgt_%s" % (pfx, fmt)
    lab, X, Zm, Y = pfx + "lab", pfx + "X", pfx + "Zm", pfx + "Y"
    pl = case["ploidy_arg"]
    arg = E.opt(pl if raw else None, E.z)
    darg = arg if cls == "AD" else "None"      # the ploidy keyword handed to gegv/predict/score/var_G (dominance model, raw array)
    parts.append("agree_E %s (gebv_numpy g (dosage %s))" % (_impl_mat(R["gebv_numpy"]), gt))
    parts.append("agree_bv g %s (gebv g %s %s)" % (_impl_bv(R["gebv"]), gt, lab))
    if cls != "L":
        # the harness hands gegv_numpy the matrix-object design (dosage, (A != 0) & (A != ploidy)) for every representation
        parts.append("agree_E %s (gegv_numpy g (design g %sgt_unphased None))" % (_impl_mat(R["gegv_numpy"]), pfx))
        parts.append("agree_bv g %s (gegv g %s %s %s)" % (_impl_bv(R["gegv"]), gt, darg, lab))
    parts.append("agree_E %s (predict_numpy g %s (hcat %s (qz (design g %sgt_unphased None))))" % (_impl_mat(R["predict_numpy"]), X, Zm, pfx))
    parts.append("agree_bv g %s (predict g %s %s %s %s)" % (_impl_bv(R["predict"]), X, gt, darg, lab))
    parts.append("agree_To %s (score_numpy g %s %s (hcat %s (qz (design g %sgt_unphased None))))" % (_impl_ovec(R["score_numpy"]), Y, X, Zm, pfx))
    parts.append("agree_To %s (score g %s %s %s %s)" % (_impl_ovec(R["score"]), Y, X, gt, darg))
    parts.append("agree_To %s (score g %s %s %s %s)" % (_impl_ovec(R["score_bv"]), Y, X, gt, darg))
    parts.append("agree_Rl %s (var_A g %s)" % (_impl_vec(R["var_A"]), gt))
    parts.append("agree_Rl %s (var_G g %s %s)" % (_impl_vec(R["var_G"]), gt, darg))
    parts.append("agree_Rl %s (var_A g %s)" % (_impl_vec(R["var_A_numpy"]), gt))
    parts.append("agree_Rl %s (var_G g %sgt_unphased None)" % (_impl_vec(R["var_G_numpy"]), pfx))
    parts.append("agree_Rl %s (Some (var_a g %s %s))" % (_impl_vec(R["var_a"]), gt, arg))
    parts.append("agree_Ro %s (bulmer g %s %s)" % (_impl_ovec(R["bulmer"]), gt, arg))
    if "var_a_numpy" in R:      # the *_numpy forms are handed the frequencies and the ploidy of the matrix object
        parts.append("agree_Rl %s (Some (var_a g %sgt_unphased None))" % (_impl_vec(R["var_a_numpy"]), pfx))
        parts.append("agree_Ro %s (bulmer g %sgt_unphased None)" % (_impl_ovec(R["bulmer_numpy"]), pfx))
    parts.append(E.b(bool(R.get("stable", True))))
    if not raw:
        for f in (COUNTS if cls != "L" else L_COUNTS):
            v = R[f]
            if isinstance(v, dict): parts.append("false"); continue
            if "freq" in f: parts.append("qclose_ll %s (%s g %s)" % (E.lst2(v, _qh), f, gt))
            elif "count" in f: parts.append("zll_eqb %s (%s g %s)" % (E.lst2(v, E.z), f, gt))
            else: parts.append("bll_eqb %s (%s g %s)" % (E.lst2(v, E.b), f, gt))

def _emit_lin(case, out):
    cls = case["cls"]; t = len(case["beta"][0]); n = len(case["dos"]); p = len(case["u_a"])
    lets = []
    lets.append(("beta", _qm(case["beta"])))
    lets.append(("ua", _qm(case["u_a"])))
    um = case["u_misc"]
    lets.append(("g", "build %s beta %s ua %s %d%%nat" % (CLS[cls], E.opt(um, _qm), E.opt(case.get("u_d"), _qm), t)))
    lets.append(("dos", E.lst2(case["dos"], E.z)))
    if case["phased"] is not None:
        lets.append(("ph", E.lst3(case["phased"], E.z)))
        lets.append(("gt_phased", "GPhased %d%%nat %d%%nat ph" % (n, p)))
    lets.append(("gt_unphased", "GUnphased %s dos" % E.z(case["ploidy"])))
    lets.append(("gt_raw", "GRaw dos"))
    lets.append(("lab", _labels(case["taxa"], case["taxa_grp"])))
    lets.append(("X", _qm(case["X"]))); lets.append(("Zm", _qm(case["Zm"]))); lets.append(("Y", _qm(case["Y"])))
    # the permuted inputs are derived inside Coq from the same literals
    lets.append(("pi", E.lst(case["perm"], E.nat)))
    lets.append(("pdos", "takes [] pi dos"))
    if case["phased"] is not None:
        lets.append(("pgt_phased", "GPhased %d%%nat %d%%nat (map (takes [] pi) ph)" % (n, p)))
    lets.append(("pgt_unphased", "GUnphased %s pdos" % E.z(case["ploidy"])))
    lets.append(("pgt_raw", "GRaw pdos"))
    lets.append(("plab", '(option_map (takes ""%string pi) (fst lab), option_map (takes 0%Z pi) (snd lab))'))
    lets.append(("pX", "takes [] pi X")); lets.append(("pZm", "takes [] pi Zm")); lets.append(("pY", "takes [] pi Y"))
    parts = []
    for fmt, R in out["fmt"].items(): _emit_fmt(case, R, fmt, "", parts)
    for fmt, R in out["perm"].items(): _emit_fmt(case, R, fmt, "p", parts)
    k = case["split"]
    if "part" in out:
        a, b = out["part"]
        if isinstance(a, dict) or isinstance(b, dict): parts.append("false")
        else:
            parts.append("agree_E (Some (madd %s %s)) (gebv_numpy g dos)" % (E.lst2(a, _qh), E.lst2(b, _qh)))
            # the parts themselves: the models holding the first k / the remaining markers
            parts.append("agree_E (Some %s) (gebv_numpy (build %s beta %s (firstn %d ua) None %d%%nat) (map (firstn %d) dos))"
                         % (E.lst2(a, _qh), CLS[cls], E.opt(um, _qm), k, t, k))
            parts.append("agree_E (Some %s) (gebv_numpy (build %s beta %s (skipn %d ua) None %d%%nat) (map (skipn %d) dos))"
                         % (E.lst2(b, _qh), CLS[cls], E.opt(um, _qm), k, t, k))
    if "part_g" in out:
        a, b = out["part_g"]
        if isinstance(a, dict) or isinstance(b, dict): parts.append("false")
        else: parts.append("agree_E (Some (madd %s %s)) (gegv_numpy g (design g gt_unphased None))" % (E.lst2(a, _qh), E.lst2(b, _qh)))
    parts.append("agree_bv g %s (tbv_estimate g gt_%s lab)" % (_impl_bv(out["tbv"]), out["tbv_fmt"]))
    if "tbv_misc" in out: parts.append("agree_bv g %s (tbv_estimate g gt_%s lab)" % (_impl_bv(out["tbv_misc"]), out["tbv_fmt"]))
    parts.append(E.b(out["unchanged"]))
    body = "(" + "\n   && ".join(parts) + ")"
    for nm, v in reversed(lets):
        body = "let %s := %s in\n %s" % (nm, v, body)
    return "(" + body + ")"

def emit_case(case, out):
    if "exc" in out: return "false"
    return {"lin": _emit_lin, "gs": _emit_gs, "fit": _emit_fit}[case["kind"]](case, out)



# ------------------------------------------------------------------------------------------------ gauss_seidel / rrBLUP
def _gen_gs(rng, big=False):
    p = rng.choice([1, 2, 2, 3, 3, 4]) if not big else rng.randint(1, 6)
    kind = rng.choice(["spd", "spd", "sym", "any", "diag"])
    if kind == "spd":                                   # Z'Z + ridge I of a small integer design
        n = rng.randint(1, 5)
        Zs = [[rng.randint(0, 2) for _ in range(p)] for _ in range(n)]
        ridge = rng.choice([0.25, 0.5, 1.0, 2.0, 8.0])
        A = [[float(sum(Zs[k][i] * Zs[k][j] for k in range(n))) + (ridge if i == j else 0.0) for j in range(p)] for i in range(p)]
    elif kind == "diag":
        A = [[(rng.choice([-1, 1]) * rng.randint(1, 16) / 4 if i == j else 0.0) for j in range(p)] for i in range(p)]
    else:
        A = [[rng.randint(-16, 16) / 4 for _ in range(p)] for _ in range(p)]
        if kind == "sym":
            for i in range(p):
                for j in range(i): A[i][j] = A[j][i]
        for i in range(p):
            if A[i][i] == 0.0 and rng.random() < 0.9: A[i][i] = rng.choice([-1, 1]) * rng.randint(1, 16) / 4
    b = [_g(rng, den=4, lim=32, pzero=0.15) for _ in range(p)]
    atol = rng.choice([0.0, 2.0 ** -20, 2.0 ** -8, 2.0 ** -4, 0.25, 1.0, 1e-8])
    maxiter = rng.choice([0, 1, 1, 2, 3, 4, 5, 6]) if not big else rng.randint(0, 9)
    case = {"kind": "gs", "A": A, "b": b, "atol": atol, "maxiter": maxiter}
    r = rng.random()
    if r < 0.15 and all(A[i][i] != 0 for i in range(p)):
        # the default arguments (atol = 1e-8, maxiter = 1000), on systems that the exact iteration settles within a few sweeps
        x, sweeps = _gs_exact(_FM(A), [F(v) for v in b], F(GS_ATOL), GS_MAXITER, cap=RERUN_CAP)
        if x is not None: case.update({"atol": GS_ATOL, "maxiter": GS_MAXITER, "defaults": True})
    elif r < 0.3:
        case["by_keyword"] = True
    return case

def _gs_exact(A, b, atol, maxiter, cap=None):
    """harness-side exact replica of the loop, used to (i) state the predicate, (ii) count sweeps for the emit decision"""
    p = len(b); x = [F(0)] * p; n = 0
    go = 2 * atol > atol
    while go and n < maxiter:
        if cap is not None and n >= cap: return None, n
        prev = list(x)
        for i in range(p):
            if A[i][i] == 0: return None, n
            x[i] = (b[i] - sum((A[i][j] * x[j] for j in range(p) if j != i), F(0))) / A[i][i]
        go = any(abs(a - c) > atol for a, c in zip(x, prev)); n += 1
    return x, n

def _qf(A, b, x):
    p = len(b)
    return F(1, 2) * sum((x[i] * A[i][j] * x[j] for i in range(p) for j in range(p)), F(0)) - sum((b[i] * x[i] for i in range(p)), F(0))

def _pred_gs(case, out):
    bad = []
    A = _FM(case["A"]); b = [F(v) for v in case["b"]]; atol = F(case["atol"]); p = len(b)
    x = [_fr(h) for h in out["x"]]
    if len(x) != p: return ["gauss_seidel returned %d values for %d unknowns" % (len(x), p)]
    if not out["unchanged"]: bad.append("gauss_seidel modified A or b")
    if not out.get("stable", True): bad.append("a second call of gauss_seidel on the same system gave a different result")
    if any(A[i][i] == 0 for i in range(p)):
        if case["maxiter"] > 0 and atol > 0 and all(v is not None for v in x): bad.append("finite result with a zero pivot")
        return bad
    if any(v is None for v in x): return ["gauss_seidel returned a non-finite value"]
    if case["maxiter"] == 0 or not (2 * atol > atol):
        if any(v != 0 for v in x): bad.append("no sweep may run, yet the result is not the zero vector")
        return bad
    want, n = _gs_exact(A, b, atol, case["maxiter"])
    if not all(_close(v, w, F(1, 2 ** 30)) for v, w in zip(x, want)): bad.append("result differs from %d exact Gauss-Seidel sweeps" % n)
    sym = all(A[i][j] == A[j][i] for i in range(p) for j in range(p))
    if sym and all(A[i][i] > 0 for i in range(p)):
        f = _qf(A, b, x)
        if f > F(1, 2 ** 30) * (1 + sum((abs(v) for v in b), F(0))): bad.append("criterion 1/2 x'Ax - b'x increased above its value at zero")
    return bad

def _emit_gs(case, out):
    x = out["x"]
    impl = "None" if any(_fr(h) is None for h in x) else "(Some %s)" % E.lst(x, _qh)
    return "(opt_eqb qclose_l %s (gauss_seidel %s %s %s %d%%nat) && %s)" % (
        impl, _qm(case["A"]), E.lst(case["b"], _q), _q(case["atol"]), case["maxiter"], E.b(out["unchanged"] and out.get("stable", True)))

def _gen_fit(rng, big=False):
    n = rng.randint(3, 9) if not big else rng.randint(3, 16)
    p = rng.randint(1, 4) if not big else rng.randint(1, 6)
    t = rng.choice([1, 1, 2])
    ploidy = 2
    Z = [[rng.randint(0, 2) for _ in range(p)] for _ in range(n)]
    r = rng.random()
    if r < 0.5:                                             # monomorphic columns (at 0, 1 or 2), but never all of them
        for j in rng.sample(range(p), rng.randint(1, p)):
            v = rng.randint(0, 2)
            for row in Z: row[j] = v
    if rng.random() < 0.1 and p >= 2:                        # identical polymorphic markers
        for row in Z: row[1] = row[0]
    if all(all(row[j] == Z[0][j] for row in Z) for j in range(p)):
        j = rng.randrange(p); Z[0][j] = (Z[1][j] + 1) % 3
    Y = [[rng.randint(-64, 64) / 8 for _ in range(t)] for _ in range(n)]
    if rng.random() < 0.15:                                  # a trait determined exactly by one marker
        for i in range(n): Y[i][0] = 1.5 * Z[i][0] - 2.0
        if all(Y[i][0] == Y[0][0] for i in range(n)): Y[0][0] += 1.0
    for k in range(t):                                       # a constant response has no variance to fit
        if all(Y[i][k] == Y[0][k] for i in range(n)): Y[0][k] += 0.5
    trait = None if rng.random() < 0.5 else ["tr%d" % i for i in range(t)]
    yscale = 0
    if rng.random() < 0.2:                                   # responses at another scale (powers of two: still dyadic)
        yscale = rng.choice([-12, 8])
        Y = [[v * 2.0 ** yscale for v in r] for r in Y]
    case = {"kind": "fit", "Y": Y, "Z": Z, "trait": trait, "via": rng.choice(["fit_numpy", "fit_numpy", "fit", "fit_raw", "fit_bv"]), "ploidy": ploidy,
            "yscale": yscale}
    if rng.random() < 0.4:
        case["meta"] = {"method": rng.choice(["ML", "ml", "Ml"]), "model_name": rng.choice(["rr", "model A"]), "hyperparams": {"k": rng.randint(0, 9)}}
    if rng.random() < 0.3: case["X"] = "ones"
    if rng.random() < 0.5: case["gs"] = [rng.choice([2.0 ** -6, 2.0 ** -10, 0.25]), rng.randint(1, 6)]
    return case

GS_ATOL = 1e-8
GS_MAXITER = 1000
RERUN_CAP = 14          # the exact re-run inside Coq is emitted when Gauss-Seidel needs at most this many sweeps

def _fit_parts(case, out, k):
    """exact quantities of trait k: polymorphic design, centred response, penalised normal equations for the implementation's ridge"""
    Z = case["Z"]; n = len(Z); p = len(Z[0])
    y = [F(case["Y"][i][k]) for i in range(n)]
    mask = [any(Z[i][j] != Z[0][j] for i in range(n)) for j in range(p)]
    Zp = [[F(Z[i][j]) for j in range(p) if mask[j]] for i in range(n)]
    pp = sum(mask)
    mu = sum(y, F(0)) / n
    yc = [v - mu for v in y]
    ridge = _fr(out["comps"][k]["ridge"])
    A = [[sum((Zp[i][a] * Zp[i][c] for i in range(n)), F(0)) + (ridge if a == c else 0) for c in range(pp)] for a in range(pp)]
    b = [sum((Zp[i][a] * yc[i] for i in range(n)), F(0)) for a in range(pp)]
    return mask, Zp, pp, mu, yc, ridge, A, b

def _pls(Zp, yc, u, ridge):
    return sum(((yc[i] - sum((Zp[i][a] * u[a] for a in range(len(u))), F(0))) ** 2 for i in range(len(yc))), F(0)) + ridge * sum((v * v for v in u), F(0))

def _pred_fit(case, out):
    bad = []
    Z = case["Z"]; n = len(Z); p = len(Z[0]); t = len(case["Y"][0])
    if out["cls"] != "rrBLUPModel0": bad.append("fit returned a %s" % out["cls"])
    if out["trait"] != case["trait"]: bad.append("trait names not carried by the fitted model")
    if not out["unchanged"]: bad.append("fit modified its inputs")
    if not out.get("copies_ok", True): bad.append("a copy of the fitted model differs from it or shares its arrays")
    meta = case.get("meta")
    if "model_name" in out:
        if out["method"] != "ML": bad.append("method of the fitted model is %r" % (out["method"],))
        if out["model_name"] != (meta["model_name"] if meta else "") or out["hyperparams"] != (meta["hyperparams"] if meta else {}):
            bad.append("model_name / hyperparams not carried by the fitted model")
    if "alt" in out:
        # the same fit with the solver's tolerance and iteration limit given: exactly that many Gauss-Seidel sweeps at most
        a = out["alt"]; rdg = _fr(a["ridge"])
        mask, Zp, pp, mu, yc, _r, _A, b = _fit_parts(case, out, 0)
        if rdg is None or rdg <= 0: bad.append("non-finite ridge with explicit solver arguments")
        else:
            A2 = [[sum((Zp[i][x] * Zp[i][c] for i in range(n)), F(0)) + (rdg if x == c else 0) for c in range(pp)] for x in range(pp)]
            want, _n = _gs_exact(A2, b, F(case["gs"][0]), case["gs"][1])
            got = [_fr(h) for h, mk in zip(a["u"], mask) if mk]
            if want is None or any(g is None for g in got) or not all(_close(g, w, F(1, 2 ** 30)) for g, w in zip(got, want)):
                bad.append("rrBLUP_ML0(gsatol, gsmaxiter) does not run gauss_seidel with that tolerance and iteration limit")
            if any(_fr(h) != 0 for h, mk in zip(a["u"], mask) if not mk) or not _close(_fr(a["beta"]), mu): bad.append("rrBLUP_ML0 with explicit solver arguments: structure")
    if len(out["beta"]) != 1 or len(out["beta"][0]) != t or len(out["u_a"]) != p or out["u_misc_shape"] != [0, t]:
        return bad + ["fitted coefficient shapes are wrong"]
    for k in range(t):
        mask, Zp, pp, mu, yc, ridge, A, b = _fit_parts(case, out, k)
        beta = _fr(out["beta"][0][k]); u = [_fr(out["u_a"][j][k]) for j in range(p)]
        if beta is None or any(v is None for v in u) or ridge is None or ridge <= 0:
            bad.append("non-finite estimate for trait %d" % k); continue
        if not _close(beta, mu): bad.append("intercept of trait %d is not the training mean" % k)
        if any(u[j] != 0 for j in range(p) if not mask[j]): bad.append("a monomorphic marker has a non-zero effect (trait %d)" % k)
        up = [u[j] for j in range(p) if mask[j]]
        c0 = _pls(Zp, yc, [F(0)] * pp, ridge)
        if _pls(Zp, yc, up, ridge) > c0 + F(1, 2 ** 30) * (1 + c0): bad.append("penalised least-squares criterion worse than the all-zero solution (trait %d)" % k)
        if n > pp:
            for i in range(pp):
                res = sum((A[i][j] * up[j] for j in range(pp)), F(0)) - b[i]
                if abs(res) > F(GS_ATOL) * sum((abs(A[i][j]) for j in range(i + 1, pp)), F(0)) + EPS40 * (1 + abs(b[i])):
                    bad.append("penalised normal equations not solved to the solver's tolerance although n > p (trait %d)" % k); break
        # the fitted model predicts with exactly these coefficients
    gv = out["gebv_numpy"]
    for i in range(n):
        for k in range(t):
            w = sum((F(Z[i][j]) * _fr(out["u_a"][j][k]) for j in range(p)), F(0))
            if not _close(_fr(gv[i][k]), w): bad.append("gebv_numpy of the fitted model != Z u_a"); break
    return bad

def _emit_fit(case, out):
    Z = case["Z"]; n = len(Z); p = len(Z[0]); t = len(case["Y"][0])
    if len(out["beta"]) != 1 or len(out["beta"][0]) != t or len(out["u_a"]) != p: return "false"
    parts = []
    for k in range(t):
        beta = _fr(out["beta"][0][k]); u = [_fr(out["u_a"][j][k]) for j in range(p)]; ridge = _fr(out["comps"][k]["ridge"])
        if beta is None or ridge is None or any(v is None for v in u): return "false"
        y = E.lst([case["Y"][i][k] for i in range(n)], _q)
        parts.append("rr_clauses %d%%nat Zg %s %s %s %s %s true" % (p, y, E.q(ridge), _q(GS_ATOL), E.q(beta), E.lst(u, E.q)))
        # the ridge parameter handed to the clauses is the source's own expression (generated kernel) of the variance components
        vE, vU = _fr(out["comps"][k]["varE"]), _fr(out["comps"][k]["varU"])
        if vE is None or vU is None or vU == 0: return "false"
        parts.append("Qclose %s (k_ridge %s %s)" % (E.q(ridge), E.q(vE), E.q(vU)))
        mask, Zp, pp, mu, yc, rdg, A, b = _fit_parts(case, out, k)
        x, sweeps = _gs_exact(A, b, F(GS_ATOL), GS_MAXITER, cap=RERUN_CAP)
        if x is not None:
            parts.append("rr_rerun_agrees %d%%nat Zg %s %s %s %d%%nat %s %s" % (p, y, E.q(ridge), _q(GS_ATOL), GS_MAXITER, E.q(beta), E.lst(u, E.q)))
    if "alt" in out:
        a = out["alt"]; rdg = _fr(a["ridge"]); ua = [_fr(h) for h in a["u"]]; ba = _fr(a["beta"])
        if rdg is None or ba is None or any(v is None for v in ua): return "false"
        y0 = E.lst([case["Y"][i][0] for i in range(n)], _q)
        parts.append("rr_rerun_agrees %d%%nat Zg %s %s %s %d%%nat %s %s" % (p, y0, E.q(rdg), _q(case["gs"][0]), case["gs"][1], E.q(ba), E.lst(ua, E.q)))
    parts.append(E.b(bool(out.get("copies_ok", True))))
    return "(let Zg := %s in\n (%s))" % (E.lst2(Z, E.z), "\n   && ".join(parts))


# ------------------------------------------------------------------------------------------------ known findings, evidence helpers
BAD_N = [49, 98, 103, 107]      # sizes at which 1/N * N != 1 in binary64

def _gs_ran_out(A, b):
    """would Gauss-Seidel AS SPECIFIED (reference float loop below, independent of the implementation) still be moving by more
    than atol after maxiter sweeps?  Decides whether a non-solved system is the known iteration-limit finding."""
    A = [[float(v) for v in r] for r in A]; b = [float(v) for v in b]; p = len(b)
    x = [0.0] * p
    for _ in range(GS_MAXITER):
        prev = list(x)
        for i in range(p):
            x[i] = (b[i] - sum(A[i][j] * x[j] for j in range(p) if j != i)) / A[i][i]
        if not any(abs(x[i] - prev[i]) > GS_ATOL for i in range(p)): return False
    return True

def classify(case, out, clauses):
    """narrow match of a failing case to a known finding: every deviation from the property must be explained by the as-coded
    semantics of exactly that finding"""
    if "exc" in out or not clauses: return None
    if case["kind"] == "fit":
        if not all("penalised normal equations not solved" in c for c in clauses): return None
        for k in range(len(case["Y"][0])):
            mask, Zp, pp, mu, yc, ridge, A, b = _fit_parts(case, out, k)
            if any("(trait %d)" % k in c for c in clauses) and not _gs_ran_out(A, b): return None
        return "C04-gs-maxiter"
    return None          # no deviation of the prediction / variance / allele-statistic methods is excused

def nontrivial(case, out):
    if "exc" in out: return False
    if case["kind"] == "lin":
        n = len(case["dos"]); p = len(case["u_a"]); N = case["ploidy"] * n
        c = [sum(r[j] for r in case["dos"]) for j in range(p)]
        flat = [x for r in case["u_a"] for x in r]
        return (n >= 2 and any(0 < x < N for x in c) and any(x > 0 for x in flat) + any(x < 0 for x in flat) + any(x == 0 for x in flat) >= 2
                and case["perm"] != list(range(n)))
    if case["kind"] == "gs":
        return len(case["b"]) >= 2 and case["maxiter"] >= 2 and case["atol"] > 0 and any(v != 0 for v in case["b"])
    if case["kind"] == "fit":
        Z = case["Z"]; p = len(Z[0])
        mono = [all(r[j] == Z[0][j] for r in Z) for j in range(p)]
        return (not all(mono)) and len(Z) > p - sum(mono)
    return False

def describe(case, out):
    d = {"kind": case["kind"], "raised": "exc" in out}
    if case["kind"] == "lin":
        n = len(case["dos"]); p = len(case["u_a"])
        flat = [x for r in case["u_a"] for x in r]
        d.update({"class": case["cls"], "ploidy": case["ploidy"], "ntaxa": "1" if n == 1 else ("2-8" if n <= 8 else "9+"), "nmarkers": "1" if p == 1 else ("2-6" if p <= 6 else "7+"),
                  "ntraits": len(case["beta"][0]), "nfixed": len(case["beta"]), "misc_effects": 0 if not case["u_misc"] else len(case["u_misc"]),
                  "phased_given": case["phased"] is not None, "taxa_labels": case["taxa"] is not None, "taxa_groups": case["taxa_grp"] is not None,
                  "effect_signs": "".join(sorted({"+" if x > 0 else ("-" if x < 0 else "0") for x in flat})),
                  "u_d": "n/a" if case["cls"] != "AD" else ("None" if case["u_d"] is None else "given"),
                  "size_with_inexact_reciprocal": case["ploidy"] * n in BAD_N, "route": case.get("route", "ctor"),
                  "dtype_args": "default" if not case.get("dtypes") else "/".join(str(case["dtypes"][k]) for k in ("count", "freq", "flag")),
                  "wide_or_tall": ("p>255" if p > 255 else "") + ("n>127" if n > 127 else ""),
                  "trait_scales": "ordinary" if not case.get("scaled") else "+".join(sorted(set(case["trait_kinds"]))) + " 2^%d" % case["scaled"][0][2]})
    elif case["kind"] == "gs":
        A = case["A"]; p = len(A)
        d.update({"unknowns": p, "maxiter": case["maxiter"], "atol": "0" if case["atol"] == 0 else ("<=2^-8" if case["atol"] <= 2 ** -8 else ">2^-8"),
                  "symmetric": all(A[i][j] == A[j][i] for i in range(p) for j in range(p)), "zero_pivot": any(A[i][i] == 0 for i in range(p))})
    else:
        Z = case["Z"]; p = len(Z[0]); mono = sum(all(r[j] == Z[0][j] for r in Z) for j in range(p))
        d.update({"via": case["via"], "ntraits": len(case["Y"][0]), "monomorphic_markers": mono, "well_determined": len(Z) > p - mono,
                  "response_scale": "2^%d" % case.get("yscale", 0),
                  "rerun_in_coq": ("rr_rerun_agrees" in (emit_case(case, out) or "")) if "exc" not in out else False})
    return d

def _special_cases(quick):
    """fixed populations at the sizes where (1/N)*N != 1 in binary64 (regression witnesses of the reciprocal defect), every class"""
    out = []
    combos = [(c, 49, 1) for c in ("A", "AD", "RR", "L")] + [("A", 49, 2), ("L", 49, 2)]
    if not quick: combos += [(c, n, pl) for c in ("A", "AD", "RR", "L") for n, pl in ((49, 2), (103, 1), (107, 1))]
    for cls, n, pl in combos:
        out.append({"kind": "lin", "cls": cls, "beta": [[1.0]], "u_misc": None, "u_a": [[1.5], [-2.0]], "u_d": None, "trait": None, "ploidy": pl,
                    "phased": None, "dos": [[pl, 0]] * n, "taxa": None, "taxa_grp": None, "X": [[1.0]] * n, "Zm": [[]] * n,
                    "Y": [[float(i % 3)] for i in range(n)], "perm": list(range(1, n)) + [0], "split": 1, "ploidy_arg": pl})
    r2 = __import__("random").Random(20260930)
    # more markers than an 8-bit integer can count (p = 260) and more taxa than int8/uint8 can count (n = 130 / 300, tetraploid:
    # allele counts up to 1200), each through a different route, with exact-zero, positive and negative effects
    big = [("A", 130, 2, 4, "deepcopy"), ("L", 130, 2, 4, "setters"), ("AD", 2, 260, 2, "inplace")]
    if not quick: big += [("AD", 130, 3, 4, "inplace"), ("L", 300, 2, 4, "inplace"), ("RR", 140, 2, 2, "copy_m"), ("A", 3, 300, 3, "copy"), ("L", 2, 260, 2, "copy")]
    for cls, n, p, pl, route in big:
        dos = [[r2.choice([0, pl, pl, r2.randint(0, pl)]) for _ in range(p)] for _ in range(n)]
        for i in range(n): dos[i][0] = pl                 # a fixed marker next to polymorphic ones
        u_a = [[r2.choice([0.0, 0.5, -1.25, 2.0])] for _ in range(p)]
        u_a[0] = [1.5]
        out.append({"kind": "lin", "route": route, "dtypes": {"count": "int32", "freq": None, "flag": "int8"} if cls != "RR" else None, "cls": cls, "beta": [[1.0], [0.5]],
                    "u_misc": None, "u_a": u_a, "u_d": ([[r2.choice([0.0, 0.25, -0.5])] for _ in range(p)] if cls == "AD" else None), "trait": ["big"],
                    "ploidy": pl, "phased": None, "dos": dos, "taxa": ["t%d" % i for i in range(n)], "taxa_grp": [i % 3 for i in range(n)],
                    "X": [[1.0, float(i % 2)] for i in range(n)], "Zm": [[]] * n, "Y": [[float((i * 7) % 5)] for i in range(n)],
                    "perm": list(range(n - 1, -1, -1)), "split": p // 2, "ploidy_arg": pl, "noperm": True})
    return out

def gen_cases(rng, tier):
    quick = tier == "quick"
    nl, ng, nf = (200, 100, 40) if quick else (2600, 1200, 500)
    cases = []
    for i in range(nl):
        cases.append(_gen_lin(rng, big=(not quick and i % 5 == 0)))
    for i in range(ng):
        cases.append(_gen_gs(rng, big=(not quick and i % 4 == 0)))
    for i in range(nf):
        cases.append(_gen_fit(rng, big=(not quick and i % 4 == 0)))
    # the large special cases are spread over the shards
    sp = _special_cases(quick)
    step = max(1, len(cases) // (len(sp) + 1))
    for k, c in enumerate(sp):
        cases.insert((k + 1) * step + k, c)
    return cases

def shrink(case, fails):
    """greedy structural reduction while the predicate still fails"""
    cur = copy.deepcopy(case)
    def attempt(t):
        nonlocal cur
        try:
            if fails(t): cur = t; return True
        except Exception: pass
        return False
    if cur["kind"] == "lin":
        changed = True
        while changed:
            changed = False
            n = len(cur["dos"]); p = len(cur["u_a"]); t = len(cur["beta"][0])
            for k in range(t if t > 1 else 0):                                            # drop a trait
                c = copy.deepcopy(cur)
                for key in ("beta", "u_a", "u_misc", "u_d", "Y"):
                    if c.get(key): c[key] = [r[:k] + r[k + 1:] for r in c[key]]
                if c["trait"]: c["trait"] = c["trait"][:k] + c["trait"][k + 1:]
                if c.get("scaled") is not None:
                    c["scaled"] = [[a - (a > k), b - (b > k), e] for a, b, e in c["scaled"] if a != k and b != k]
                    c["trait_kinds"] = c["trait_kinds"][:k] + c["trait_kinds"][k + 1:]
                if attempt(c): changed = True; break
            if changed: continue
            for j in range(p if p > 1 else 0):                                            # drop a marker
                c = copy.deepcopy(cur)
                c["u_a"] = c["u_a"][:j] + c["u_a"][j + 1:]
                if c.get("u_d"): c["u_d"] = c["u_d"][:j] + c["u_d"][j + 1:]
                c["dos"] = [r[:j] + r[j + 1:] for r in c["dos"]]
                if c["phased"]: c["phased"] = [[r[:j] + r[j + 1:] for r in ph] for ph in c["phased"]]
                c["split"] = min(c["split"], p - 1)
                if attempt(c): changed = True; break
            if changed: continue
            for i in range(n if n > 1 else 0):                                            # drop a taxon
                c = copy.deepcopy(cur)
                for key in ("dos", "X", "Zm", "Y", "taxa", "taxa_grp"):
                    if c.get(key) is not None: c[key] = c[key][:i] + c[key][i + 1:]
                if c["phased"]: c["phased"] = [ph[:i] + ph[i + 1:] for ph in c["phased"]]
                c["perm"] = [x - (x > i) for x in c["perm"] if x != i]
                if attempt(c): changed = True; break
            if changed: continue
            for key, val in (("phased", None), ("taxa", None), ("taxa_grp", None), ("trait", None)):
                if cur.get(key) is not None:
                    c = copy.deepcopy(cur); c[key] = val
                    if attempt(c): changed = True; break
    elif cur["kind"] == "fit":
        changed = True
        while changed:
            changed = False
            n = len(cur["Z"]); p = len(cur["Z"][0]); t = len(cur["Y"][0])
            for k in range(t if t > 1 else 0):
                c = copy.deepcopy(cur); c["Y"] = [r[:k] + r[k + 1:] for r in c["Y"]]
                if c["trait"]: c["trait"] = c["trait"][:k] + c["trait"][k + 1:]
                if attempt(c): changed = True; break
            if changed: continue
            for j in range(p if p > 1 else 0):
                c = copy.deepcopy(cur); c["Z"] = [r[:j] + r[j + 1:] for r in c["Z"]]
                if attempt(c): changed = True; break
            if changed: continue
            for i in range(n if n > 3 else 0):
                c = copy.deepcopy(cur); c["Z"] = c["Z"][:i] + c["Z"][i + 1:]; c["Y"] = c["Y"][:i] + c["Y"][i + 1:]
                if attempt(c): changed = True; break
    return cur


# ------------------------------------------------------------------------------------------------ entry-point audit (fail closed)
ANCHOR_MODULES = ["pybrops.model.gmod.DenseLinearGenomicModel", "pybrops.model.gmod.DenseAdditiveLinearGenomicModel",
                  "pybrops.model.gmod.DenseAdditiveDominanceLinearGenomicModel", "pybrops.model.gmod.rrBLUPModel0",
                  "pybrops.popgen.bvmat.DenseGenomicEstimatedBreedingValueMatrix", "pybrops.breed.prot.bv.TrueBreedingValue"]

# public names of the anchored modules that this check does NOT drive, with the reason (regular expression on the member name)
SKIPPED = [
    (r"(^|\.)(usl|lsl)(_numpy)?$", "selection limits are property C10 (harness/props/c10.py drives usl/lsl/usl_numpy/lsl_numpy)"),
    (r"(^|\.)(to|from)_(hdf5|pandas_dict|csv_dict)$", "persistence is property C16 (round trips of the genomic-model classes)"),
    (r"^check_is_\w+$", "type guard without numerical content"),
    (r"^rrBLUP_ML0_(calc_G|calc_d_V|nonzero_d_V|calc_etasq|neg2LogLik_fast)$",
     "numerical part of the ML step (standardised relationship matrix, eigh, spectral likelihood for Nelder-Mead): not modelled, trusted; "
     "observed only through the variance components rrBLUP_ML0 returns"),
]
# everything else is driven by run_impl (how, per member-name pattern; first match wins)
COVERED = [
    (r"\.__init__$", "every case builds its objects through the constructors (u_misc/u_d/trait None or given)"),
    (r"\.(__copy__|__deepcopy__|copy|deepcopy)$", "lin routes copy/deepcopy/copy_m/deepcopy_m (the original is overwritten afterwards); copies of fitted models"),
    (r"\.(beta|u|u_misc|u_a|u_d|trait)$", "lin routes 'setters' (assignment on a used decoy model) and 'inplace' (writes into the arrays of a used decoy model); read back as 'unchanged'"),
    (r"\.(nexplan|nparam|ntrait)\w*$", "out['shape'] of every lin case"),
    (r"\.(model_name|hyperparams|method)$", "fit cases with keyword arguments; carried by copies"),
    (r"\.(fit|fit_numpy)$", "fit cases (rrBLUPModel0: ndarray / GenotypeMatrix / BreedingValueMatrix inputs, keyword arguments, covariates given); the read-only classes must refuse (out['fit_refused'])"),
    (r"\.(predict|score|gebv|gegv|var_G|var_A|var_a|bulmer)(_numpy)?$", "_run_fmt on up to three genotype representations, permuted, ploidy keyword given/defaulted"),
    (r"\.(fa|da|na)(count|freq|avail|fixed|poly)$", "_run_fmt on the matrix representations, dtype argument default and non-default"),
    (r"^gauss_seidel$", "gs cases (positional, keyword and default arguments)"),
    (r"^rrBLUP_ML0$", "fit cases: variance components of every trait; explicit gsatol/gsmaxiter (case['gs'])"),
    (r"^rrBLUP_ML0_(center_y|calc_ridge|calc_ZtZplI|calc_Zty)$", "through rrBLUP_ML0; their expressions are regenerated into Gen/C04_Kernel.v or compared verbatim by the translator"),
    (r"\.gpmod$", "TrueBreedingValue(m) / TrueBreedingValue(gpmod=m)"),
    (r"\.estimate$", "out['tbv'], out['tbv_misc'] of every lin case"),
]

ENTRY_POINTS = """
DenseLinearGenomicModel:DenseLinearGenomicModel.__init__|self,beta,u,trait,model_name,hyperparams,kwargs
DenseLinearGenomicModel:DenseLinearGenomicModel.__copy__|self
DenseLinearGenomicModel:DenseLinearGenomicModel.__deepcopy__|self,memo
DenseLinearGenomicModel:DenseLinearGenomicModel.nparam_beta|property
DenseLinearGenomicModel:DenseLinearGenomicModel.beta|property+setter
DenseLinearGenomicModel:DenseLinearGenomicModel.nparam_u|property
DenseLinearGenomicModel:DenseLinearGenomicModel.u|property+setter
DenseLinearGenomicModel:DenseLinearGenomicModel.model_name|property+setter
DenseLinearGenomicModel:DenseLinearGenomicModel.hyperparams|property+setter
DenseLinearGenomicModel:DenseLinearGenomicModel.trait|property+setter
DenseLinearGenomicModel:DenseLinearGenomicModel.ntrait|property+setter
DenseLinearGenomicModel:DenseLinearGenomicModel.fit_numpy|self,Y,X,Z,kwargs
DenseLinearGenomicModel:DenseLinearGenomicModel.fit|self,ptobj,cvobj,gtobj,kwargs
DenseLinearGenomicModel:DenseLinearGenomicModel.predict_numpy|self,X,Z,kwargs
DenseLinearGenomicModel:DenseLinearGenomicModel.predict|self,cvobj,gtobj,kwargs
DenseLinearGenomicModel:DenseLinearGenomicModel.score_numpy|self,Y,X,Z,kwargs
DenseLinearGenomicModel:DenseLinearGenomicModel.score|self,ptobj,cvobj,gtobj,kwargs
DenseLinearGenomicModel:DenseLinearGenomicModel.gebv_numpy|self,Z,kwargs
DenseLinearGenomicModel:DenseLinearGenomicModel.gebv|self,gtobj,kwargs
DenseLinearGenomicModel:DenseLinearGenomicModel.var_G_numpy|self,Z,kwargs
DenseLinearGenomicModel:DenseLinearGenomicModel.var_G|self,gtobj,kwargs
DenseLinearGenomicModel:DenseLinearGenomicModel.var_A_numpy|self,Z,kwargs
DenseLinearGenomicModel:DenseLinearGenomicModel.var_A|self,gtobj,kwargs
DenseLinearGenomicModel:DenseLinearGenomicModel.var_a_numpy|self,p,ploidy,kwargs
DenseLinearGenomicModel:DenseLinearGenomicModel.var_a|self,gtobj,ploidy,kwargs
DenseLinearGenomicModel:DenseLinearGenomicModel.bulmer_numpy|self,Z,p,ploidy,kwargs
DenseLinearGenomicModel:DenseLinearGenomicModel.bulmer|self,gtobj,ploidy,kwargs
DenseLinearGenomicModel:DenseLinearGenomicModel.usl_numpy|self,p,ploidy,kwargs
DenseLinearGenomicModel:DenseLinearGenomicModel.usl|self,gtobj,ploidy,kwargs
DenseLinearGenomicModel:DenseLinearGenomicModel.lsl_numpy|self,p,ploidy,kwargs
DenseLinearGenomicModel:DenseLinearGenomicModel.lsl|self,gtobj,ploidy,kwargs
DenseLinearGenomicModel:DenseLinearGenomicModel.facount|self,gmat,dtype,kwargs
DenseLinearGenomicModel:DenseLinearGenomicModel.fafreq|self,gmat,dtype,kwargs
DenseLinearGenomicModel:DenseLinearGenomicModel.faavail|self,gmat,dtype,kwargs
DenseLinearGenomicModel:DenseLinearGenomicModel.fafixed|self,gmat,dtype,kwargs
DenseLinearGenomicModel:DenseLinearGenomicModel.dacount|self,gmat,dtype,kwargs
DenseLinearGenomicModel:DenseLinearGenomicModel.dafreq|self,gmat,dtype,kwargs
DenseLinearGenomicModel:DenseLinearGenomicModel.daavail|self,gmat,dtype,kwargs
DenseLinearGenomicModel:DenseLinearGenomicModel.dafixed|self,gmat,dtype,kwargs
DenseLinearGenomicModel:DenseLinearGenomicModel.to_hdf5|self,filename,groupname,overwrite
DenseLinearGenomicModel:DenseLinearGenomicModel.from_hdf5|cls,filename,groupname
DenseLinearGenomicModel:check_is_DenseLinearGenomicModel|v,vname
DenseAdditiveLinearGenomicModel:DenseAdditiveLinearGenomicModel.__init__|self,beta,u_misc,u_a,trait,model_name,hyperparams,kwargs
DenseAdditiveLinearGenomicModel:DenseAdditiveLinearGenomicModel.__copy__|self
DenseAdditiveLinearGenomicModel:DenseAdditiveLinearGenomicModel.__deepcopy__|self,memo
DenseAdditiveLinearGenomicModel:DenseAdditiveLinearGenomicModel.nexplan|property
DenseAdditiveLinearGenomicModel:DenseAdditiveLinearGenomicModel.nparam|property
DenseAdditiveLinearGenomicModel:DenseAdditiveLinearGenomicModel.nexplan_beta|property
DenseAdditiveLinearGenomicModel:DenseAdditiveLinearGenomicModel.nparam_beta|property
DenseAdditiveLinearGenomicModel:DenseAdditiveLinearGenomicModel.beta|property+setter
DenseAdditiveLinearGenomicModel:DenseAdditiveLinearGenomicModel.nexplan_u|property
DenseAdditiveLinearGenomicModel:DenseAdditiveLinearGenomicModel.nparam_u|property
DenseAdditiveLinearGenomicModel:DenseAdditiveLinearGenomicModel.u|property+setter
DenseAdditiveLinearGenomicModel:DenseAdditiveLinearGenomicModel.nexplan_u_misc|property
DenseAdditiveLinearGenomicModel:DenseAdditiveLinearGenomicModel.nparam_u_misc|property
DenseAdditiveLinearGenomicModel:DenseAdditiveLinearGenomicModel.u_misc|property+setter
DenseAdditiveLinearGenomicModel:DenseAdditiveLinearGenomicModel.nexplan_u_a|property
DenseAdditiveLinearGenomicModel:DenseAdditiveLinearGenomicModel.nparam_u_a|property
DenseAdditiveLinearGenomicModel:DenseAdditiveLinearGenomicModel.u_a|property+setter
DenseAdditiveLinearGenomicModel:DenseAdditiveLinearGenomicModel.model_name|property+setter
DenseAdditiveLinearGenomicModel:DenseAdditiveLinearGenomicModel.hyperparams|property+setter
DenseAdditiveLinearGenomicModel:DenseAdditiveLinearGenomicModel.trait|property+setter
DenseAdditiveLinearGenomicModel:DenseAdditiveLinearGenomicModel.ntrait|property
DenseAdditiveLinearGenomicModel:DenseAdditiveLinearGenomicModel.copy|self
DenseAdditiveLinearGenomicModel:DenseAdditiveLinearGenomicModel.deepcopy|self,memo
DenseAdditiveLinearGenomicModel:DenseAdditiveLinearGenomicModel.fit_numpy|cls,Y,X,Z,kwargs
DenseAdditiveLinearGenomicModel:DenseAdditiveLinearGenomicModel.fit|cls,ptobj,cvobj,gtobj,kwargs
DenseAdditiveLinearGenomicModel:DenseAdditiveLinearGenomicModel.predict_numpy|self,X,Z,kwargs
DenseAdditiveLinearGenomicModel:DenseAdditiveLinearGenomicModel.predict|self,cvobj,gtobj,kwargs
DenseAdditiveLinearGenomicModel:DenseAdditiveLinearGenomicModel.score_numpy|self,Y,X,Z,kwargs
DenseAdditiveLinearGenomicModel:DenseAdditiveLinearGenomicModel.score|self,ptobj,cvobj,gtobj,kwargs
DenseAdditiveLinearGenomicModel:DenseAdditiveLinearGenomicModel.gebv_numpy|self,Z,kwargs
DenseAdditiveLinearGenomicModel:DenseAdditiveLinearGenomicModel.gebv|self,gtobj,kwargs
DenseAdditiveLinearGenomicModel:DenseAdditiveLinearGenomicModel.gegv_numpy|self,Z,kwargs
DenseAdditiveLinearGenomicModel:DenseAdditiveLinearGenomicModel.gegv|self,gtobj,kwargs
DenseAdditiveLinearGenomicModel:DenseAdditiveLinearGenomicModel.var_G_numpy|self,Z,kwargs
DenseAdditiveLinearGenomicModel:DenseAdditiveLinearGenomicModel.var_G|self,gtobj,kwargs
DenseAdditiveLinearGenomicModel:DenseAdditiveLinearGenomicModel.var_A_numpy|self,Z,kwargs
DenseAdditiveLinearGenomicModel:DenseAdditiveLinearGenomicModel.var_A|self,gtobj,kwargs
DenseAdditiveLinearGenomicModel:DenseAdditiveLinearGenomicModel.var_a_numpy|self,p,ploidy,kwargs
DenseAdditiveLinearGenomicModel:DenseAdditiveLinearGenomicModel.var_a|self,gtobj,ploidy,kwargs
DenseAdditiveLinearGenomicModel:DenseAdditiveLinearGenomicModel.bulmer_numpy|self,Z,p,ploidy,kwargs
DenseAdditiveLinearGenomicModel:DenseAdditiveLinearGenomicModel.bulmer|self,gtobj,ploidy,kwargs
DenseAdditiveLinearGenomicModel:DenseAdditiveLinearGenomicModel.usl_numpy|self,p,ploidy,unscale,kwargs
DenseAdditiveLinearGenomicModel:DenseAdditiveLinearGenomicModel.usl|self,gtobj,ploidy,unscale,kwargs
DenseAdditiveLinearGenomicModel:DenseAdditiveLinearGenomicModel.lsl_numpy|self,p,ploidy,unscale,kwargs
DenseAdditiveLinearGenomicModel:DenseAdditiveLinearGenomicModel.lsl|self,gtobj,ploidy,unscale,kwargs
DenseAdditiveLinearGenomicModel:DenseAdditiveLinearGenomicModel.facount|self,gmat,dtype,kwargs
DenseAdditiveLinearGenomicModel:DenseAdditiveLinearGenomicModel.fafreq|self,gmat,dtype,kwargs
DenseAdditiveLinearGenomicModel:DenseAdditiveLinearGenomicModel.faavail|self,gmat,dtype,kwargs
DenseAdditiveLinearGenomicModel:DenseAdditiveLinearGenomicModel.fafixed|self,gmat,dtype,kwargs
DenseAdditiveLinearGenomicModel:DenseAdditiveLinearGenomicModel.fapoly|self,gmat,dtype,kwargs
DenseAdditiveLinearGenomicModel:DenseAdditiveLinearGenomicModel.nafixed|self,gmat,dtype,kwargs
DenseAdditiveLinearGenomicModel:DenseAdditiveLinearGenomicModel.napoly|self,gmat,dtype,kwargs
DenseAdditiveLinearGenomicModel:DenseAdditiveLinearGenomicModel.dacount|self,gmat,dtype,kwargs
DenseAdditiveLinearGenomicModel:DenseAdditiveLinearGenomicModel.dafreq|self,gmat,dtype,kwargs
DenseAdditiveLinearGenomicModel:DenseAdditiveLinearGenomicModel.daavail|self,gmat,dtype,kwargs
DenseAdditiveLinearGenomicModel:DenseAdditiveLinearGenomicModel.dafixed|self,gmat,dtype,kwargs
DenseAdditiveLinearGenomicModel:DenseAdditiveLinearGenomicModel.dapoly|self,gmat,dtype,kwargs
DenseAdditiveLinearGenomicModel:DenseAdditiveLinearGenomicModel.to_pandas_dict|self,trait_cols,kwargs
DenseAdditiveLinearGenomicModel:DenseAdditiveLinearGenomicModel.to_csv_dict|self,filenames,trait_cols,sep,header,index,kwargs
DenseAdditiveLinearGenomicModel:DenseAdditiveLinearGenomicModel.to_hdf5|self,filename,groupname,overwrite
DenseAdditiveLinearGenomicModel:DenseAdditiveLinearGenomicModel.from_pandas_dict|cls,dic,trait_cols,model_name,hyperparams,kwargs
DenseAdditiveLinearGenomicModel:DenseAdditiveLinearGenomicModel.from_csv_dict|cls,filenames,sep,header,trait_cols,model_name,hyperparams,kwargs
DenseAdditiveLinearGenomicModel:DenseAdditiveLinearGenomicModel.from_hdf5|cls,filename,groupname
DenseAdditiveLinearGenomicModel:check_is_DenseAdditiveLinearGenomicModel|v,vname
DenseAdditiveDominanceLinearGenomicModel:DenseAdditiveDominanceLinearGenomicModel.__init__|self,beta,u_misc,u_a,u_d,trait,model_name,hyperparams,kwargs
DenseAdditiveDominanceLinearGenomicModel:DenseAdditiveDominanceLinearGenomicModel.__copy__|self
DenseAdditiveDominanceLinearGenomicModel:DenseAdditiveDominanceLinearGenomicModel.__deepcopy__|self,memo
DenseAdditiveDominanceLinearGenomicModel:DenseAdditiveDominanceLinearGenomicModel.nexplan|property
DenseAdditiveDominanceLinearGenomicModel:DenseAdditiveDominanceLinearGenomicModel.nparam|property
DenseAdditiveDominanceLinearGenomicModel:DenseAdditiveDominanceLinearGenomicModel.nexplan_u|property
DenseAdditiveDominanceLinearGenomicModel:DenseAdditiveDominanceLinearGenomicModel.nparam_u|property
DenseAdditiveDominanceLinearGenomicModel:DenseAdditiveDominanceLinearGenomicModel.u|property+setter
DenseAdditiveDominanceLinearGenomicModel:DenseAdditiveDominanceLinearGenomicModel.nexplan_u_d|property
DenseAdditiveDominanceLinearGenomicModel:DenseAdditiveDominanceLinearGenomicModel.nparam_u_d|property
DenseAdditiveDominanceLinearGenomicModel:DenseAdditiveDominanceLinearGenomicModel.u_d|property+setter
DenseAdditiveDominanceLinearGenomicModel:DenseAdditiveDominanceLinearGenomicModel.copy|self
DenseAdditiveDominanceLinearGenomicModel:DenseAdditiveDominanceLinearGenomicModel.deepcopy|self,memo
DenseAdditiveDominanceLinearGenomicModel:DenseAdditiveDominanceLinearGenomicModel.fit_numpy|cls,Y,X,Z,kwargs
DenseAdditiveDominanceLinearGenomicModel:DenseAdditiveDominanceLinearGenomicModel.fit|cls,ptobj,cvobj,gtobj,kwargs
DenseAdditiveDominanceLinearGenomicModel:DenseAdditiveDominanceLinearGenomicModel.predict_numpy|self,X,Z,kwargs
DenseAdditiveDominanceLinearGenomicModel:DenseAdditiveDominanceLinearGenomicModel.predict|self,cvobj,gtobj,ploidy,kwargs
DenseAdditiveDominanceLinearGenomicModel:DenseAdditiveDominanceLinearGenomicModel.score_numpy|self,Y,X,Z,kwargs
DenseAdditiveDominanceLinearGenomicModel:DenseAdditiveDominanceLinearGenomicModel.score|self,ptobj,cvobj,gtobj,ploidy,kwargs
DenseAdditiveDominanceLinearGenomicModel:DenseAdditiveDominanceLinearGenomicModel.gegv_numpy|self,Z,kwargs
DenseAdditiveDominanceLinearGenomicModel:DenseAdditiveDominanceLinearGenomicModel.gegv|self,gtobj,ploidy,kwargs
DenseAdditiveDominanceLinearGenomicModel:DenseAdditiveDominanceLinearGenomicModel.var_G_numpy|self,Z,kwargs
DenseAdditiveDominanceLinearGenomicModel:DenseAdditiveDominanceLinearGenomicModel.var_G|self,gtobj,ploidy,kwargs
DenseAdditiveDominanceLinearGenomicModel:DenseAdditiveDominanceLinearGenomicModel.to_pandas_dict|self,trait_cols,kwargs
DenseAdditiveDominanceLinearGenomicModel:DenseAdditiveDominanceLinearGenomicModel.to_csv_dict|self,filenames,trait_cols,sep,header,index,kwargs
DenseAdditiveDominanceLinearGenomicModel:DenseAdditiveDominanceLinearGenomicModel.to_hdf5|self,filename,groupname,overwrite
DenseAdditiveDominanceLinearGenomicModel:DenseAdditiveDominanceLinearGenomicModel.from_pandas_dict|cls,dic,trait_cols,model_name,hyperparams,kwargs
DenseAdditiveDominanceLinearGenomicModel:DenseAdditiveDominanceLinearGenomicModel.from_csv_dict|cls,filenames,sep,header,trait_cols,model_name,hyperparams,kwargs
DenseAdditiveDominanceLinearGenomicModel:DenseAdditiveDominanceLinearGenomicModel.from_hdf5|cls,filename,groupname
DenseAdditiveDominanceLinearGenomicModel:check_is_DenseAdditiveDominanceLinearGenomicModel|v,vname
rrBLUPModel0:rrBLUP_ML0_calc_G|Z
rrBLUPModel0:rrBLUP_ML0_center_y|y
rrBLUPModel0:rrBLUP_ML0_calc_d_V|G
rrBLUPModel0:rrBLUP_ML0_nonzero_d_V|d,V,tol
rrBLUPModel0:rrBLUP_ML0_calc_etasq|V,y
rrBLUPModel0:rrBLUP_ML0_neg2LogLik_fast|logVarComp,etasq,d,n
rrBLUPModel0:rrBLUP_ML0_calc_ridge|varE,varU
rrBLUPModel0:rrBLUP_ML0_calc_ZtZplI|Z,ridge
rrBLUPModel0:rrBLUP_ML0_calc_Zty|Z,y
rrBLUPModel0:gauss_seidel|A,b,atol,maxiter
rrBLUPModel0:rrBLUP_ML0|y,Z,varlb,varub,gsatol,gsmaxiter
rrBLUPModel0:rrBLUPModel0.__init__|self,beta,u_misc,u_a,trait,method,model_name,hyperparams,kwargs
rrBLUPModel0:rrBLUPModel0.__copy__|self
rrBLUPModel0:rrBLUPModel0.__deepcopy__|self,memo
rrBLUPModel0:rrBLUPModel0.method|property+setter
rrBLUPModel0:rrBLUPModel0.copy|self
rrBLUPModel0:rrBLUPModel0.deepcopy|self,memo
rrBLUPModel0:rrBLUPModel0.fit_numpy|cls,Y,X,Z,trait,method,model_name,hyperparams,kwargs
rrBLUPModel0:rrBLUPModel0.fit|cls,ptobj,cvobj,gtobj,trait,method,model_name,hyperparams,kwargs
rrBLUPModel0:check_is_rrBLUPModel0|v,vname
DenseGenomicEstimatedBreedingValueMatrix:DenseGenomicEstimatedBreedingValueMatrix.__init__|self,mat,location,scale,taxa,taxa_grp,trait,kwargs
DenseGenomicEstimatedBreedingValueMatrix:check_is_DenseGenomicEstimatedBreedingValueMatrix|v,vname
TrueBreedingValue:TrueBreedingValue.__init__|self,gpmod,kwargs
TrueBreedingValue:TrueBreedingValue.gpmod|property+setter
TrueBreedingValue:TrueBreedingValue.estimate|self,ptobj,gtobj,miscout,kwargs
"""

def _enumerate_entry_points():
    import inspect, importlib
    def params(f):
        return ",".join(inspect.signature(f).parameters)
    lines = []
    for mn in ANCHOR_MODULES:
        mod = importlib.import_module(mn)
        short = mn.split(".")[-1]
        for name, obj in vars(mod).items():
            if getattr(obj, "__module__", None) != mn: continue
            if inspect.isfunction(obj) and not name.startswith("_"):
                lines.append("%s:%s|%s" % (short, name, params(obj)))
            elif inspect.isclass(obj) and not name.startswith("_"):
                for k, v in obj.__dict__.items():
                    if k.startswith("_") and k not in ("__init__", "__copy__", "__deepcopy__"): continue
                    if isinstance(v, property): lines.append("%s:%s.%s|property%s" % (short, name, k, "+setter" if v.fset else ""))
                    elif isinstance(v, (classmethod, staticmethod)): lines.append("%s:%s.%s|%s" % (short, name, k, params(v.__func__)))
                    elif inspect.isfunction(v): lines.append("%s:%s.%s|%s" % (short, name, k, params(v)))
    return lines

def audit_entry_points():
    """every public class, function, method, property and parameter list of the anchored modules is either driven by run_impl or
    listed in SKIPPED with a reason; a name or signature that is new, changed or gone makes the check fail until it is classified"""
    import re
    now = _enumerate_entry_points()
    known = [l for l in ENTRY_POINTS.strip().splitlines() if l.strip()]
    new = sorted(set(now) - set(known)); gone = sorted(set(known) - set(now))
    if new or gone:
        raise RuntimeError("entry points of the anchored modules changed; classify them in harness/props/c04.py (ENTRY_POINTS/COVERED/SKIPPED): new or changed %s; gone %s"
                           % (new[:8], gone[:8]))
    summary = {"covered": 0, "skipped": 0}
    for l in now:
        member = l.split("|")[0].split(":", 1)[1]
        if any(re.search(rx, member) for rx, _ in SKIPPED): summary["skipped"] += 1
        elif any(re.search(rx, member) for rx, _ in COVERED): summary["covered"] += 1
        else: raise RuntimeError("entry point %s is neither driven nor listed as skipped" % l)
    return summary


def translate(repo, gen_dir):
    """regenerate Gen/C04_Kernel.v (kernel expressions of the allele tables, the dominance design, the predictions, the variance /
    Bulmer / score formulas, gauss_seidel and the non-numerical parts of rrBLUPModel0.fit_numpy) from the current source; fail closed"""
    from translate import c04_kernel
    info = c04_kernel.translate(repo, gen_dir)
    info["entry_points"] = audit_entry_points()
    return [info]
