"""C03 — labels stay attached to their data under every matrix operation history.

Correspondence between Model/C03_LMat.v (one per-axis model instantiated for 13 matrix classes and the three
genotyping protocols) and the pybrops classes, plus an independent entity-tracing predicate written with plain
Python list operations (no numpy, no Coq model)."""
import itertools, copy, math
import numpy
import coqemit as E

ID = "C03"
LEVEL_TEXT = ("Coq theorems over an executable model of the labelled dense matrices (one per-axis model instantiated for 13 classes): "
              "every select/delete/remove/reorder/sort/group/ungroup (all classes incl. both axes of the square ones) and every "
              "adjoin/append/insert/incorp (any index kind incl. a scalar, on any array axis) along a one-axis kind refines the same list "
              "operation on the entity list of its axis for the cells and for every label array (arbitrary labellings, so duplicates are "
              "covered; no label array is lost), for every history of the unary operations; a scalar insertion index is the "
              "one-element index list; group metadata are a true contiguous partition after group_<axis> and 'grouped => partition' "
              "is an invariant of every history of all 12 operation kinds; generic form = axis-specific form and the dispatch/metadata-reset "
              "tables regenerated from the source by ast satisfy the model's tables; mutating = non-mutating counterpart; two refutations "
              "(one-axis insert/incorp/concat of square-taxa matrices, label loss in DenseSquareTaxaTraitMatrix) and two regression witnesses "
              "about the former code of repaired defects (scalar-index insert on an inner axis; 0-d array index let through the scalar test); the kernel expressions of the current "
              "source (get_axis range test and modulo, stop index and numpy.unique unpacking of group_<axis>, is_grouped_<axis>, default sort keys "
              "with the group array as primary key, label-argument precedence of adjoin/insert/append/incorp, scalar-index wrap, the whole metadata "
              "pipeline of the two masked genotyping protocols, block slices of the square adjoin/append) are regenerated on every run "
              "(Gen/C03_Kernel.v), proved equal to the model's (reflexivity) and the partition/dispatch theorems are restated about them; "
              "sessions: a history's continuation depends only on the state reached; the form of an index does not matter: a bare integer index of "
              "delete/remove/insert/incorp is the one-element index list; the test of the source's scalar-index wrap is translated as a boolean expression over "
              "the form of the index (Python int, numpy integer scalar, ndarray with its ndim and dtype, other) and proved to fire on exactly the scalar forms, "
              "0-d integer arrays included (C03_kernel_insert_scalar; the former test is refuted: C03_old_zero_dim_insert_refuted). "
              "The model is tied to the code by evaluating whole operation histories inside Coq against the implementation's state after "
              "every step, plus an independent entity-tracing predicate")
LEVEL_NOTE = ("trusted: Coq kernel + vm_compute; the hand-written model of numpy.take/delete/insert/append/concatenate/lexsort/unique "
              "(index plans + gather), validated only differentially on the generated histories; the two ast translators; the harness "
              "encoding of label values as integers (names <-> codes, k/8 floats, bools) and the rounding of DenseBreedingValueMatrix.unscale(); "
              "not proved: the Rep-refinement (cells/labels) of the genotyping protocols and histories mixing binary operations (each binary step has "
              "its own theorem; the operand hypotheses are per step) - covered by the correspondence and the predicate; DenseBreedingValueMatrix is observed through unscale() and only along the taxa axis "
              "(scaling is C15); DenseCoancestryMatrix is abstract and exercised through DenseMolecularCoancestryMatrix")
TECHNIQUE = "Coq proof (refinement to entity lists, invariants over histories) over an executable model; in-Coq vm_compute correspondence of operation histories; ast translation validation"
RULE = ("case = (class, initial matrix given by entity ids per axis + which label arrays exist, operation history, label table); one PRNG; "
        "60 (thorough 300) histories of 1..12 (1..40) operations per class for 13 classes plus 30 (400) grouped->genotyping histories and 16 (150) "
        "group-one-axis-then-operate-on-the-other histories for each of the 6 two-/three-axis classes; axis lengths 1..5, "
        "operands 1..3 entities, labels drawn with duplicates or unique, label arrays all/none/random present, index arguments int/slice/list/ndarray/mask "
        "incl. negative and duplicated indices, operands passed as matrix / ndarray+keywords / bare ndarray, both forms of every operation, ~7% "
        "deliberately invalid arguments (out-of-range, wrong axis, missing required array); non-trivial = >= 2 executed steps of which one changes a "
        "label array with >= 2 distinct values; distinct by SHA-256 of the case; "
        "phase 2: ~7% of the steps obtain the object through the library's own routes (copy.copy, copy.deepcopy, .copy(), .deepcopy(), re-assignment of "
        "every public array through its setter) and the history continues on the copy; every matrix set aside (operand of a non-mutating operation, matrix "
        "passed as values, original of a copy; the last 4) is re-inspected after every later step (aliasing: in-place writes into shared arrays); derived "
        "counters (ntaxa/nvrnt/ntrait/nphase, mat_shape, mat_ndim) are observed after every step; 18 (120) histories with one axis of 129..300 entities "
        "(indices, group lengths and start/stop indices beyond 127 and 255) plus 4 (24) masked genotypings of 257..300 grouped variants; an entry-point audit "
        "(inspect) fails the run when a public member or parameter of the 13 classes / 3 protocols is neither driven, observed nor listed in SKIPPED; "
        "index encodings: ~55% of the valid index arguments of every operation are handed over in another encoding than the plain Python value - int as a "
        "numpy integer scalar (int8..int64, uint8..uint64, every width that holds the value and the axis length) or a 0-d array; list as tuple / range / "
        "list of numpy scalars of mixed widths / ndarray of a non-default dtype; numpy bool mask as Python list or tuple of bools (delete/remove) - and the "
        "model and the specification ignore the encoding (expected: the behaviour of the plain value); plus a systematic sweep, 15 short histories per "
        "(class, labelled axis kind) (x6 thorough): every scalar width on insert|incorp and delete|remove as numpy scalar and as 0-d array, every list encoding and dtype, ranges that "
        "differ from the slice of the same bounds (descending to 0, crossing 0, negative, step 2), every dtype / tuple / range / scalar list on "
        "select and reorder, all axes >= 2 entities and blocks of 2 so that an unwrapped scalar, a mask read as integers or a narrow cast is visible; "
        "not given because numpy itself rejects them: unsigned index arrays of more than one element and Python sequences of bools for numpy.insert, "
        "lists mixing uint64 with signed scalars (promoted to float64), a tuple for reorder (`arr[tuple]` is a multi-axis index)")
TRUSTED = ["numpy primitives are modelled (plan + gather) and compared with the implementation only on generated inputs",
           "label values are shipped as integer codes (names 't007' <-> 7, floats k/8 <-> k, bools <-> 0/1, None <-> -1)",
           "DenseBreedingValueMatrix cells are observed as unscale() rounded to the nearest integer when within 2^-20 relative",
           "harness/translate/c03_dispatch.py and c03_metareset.py (ast -> Coq tables, fail closed)",
           "harness/translate/c03_kernel.py (ast -> Gen/C03_Kernel.v: expressions via translate/pyexpr.py, statement patterns matched literally, fail closed)",
           "copy steps are the identity of the model (not emitted as model steps; a copy that alters the observable state makes the case disagree)",
           "index encodings are not modelled: every encoding of an index is shipped to Coq as the plain value (OInt / OList / OMask); a 0-d array index of "
           "insert/incorp on an inner axis (known finding) ends the part of the history evaluated in Coq, the step is judged by the predicate only"]
ASSUMPTIONS = ["valid arguments: indices within range, one label array per field the matrix carries (name arrays may be absent: filled with None), "
               "operands share the entities of the other axes",
               "cells are integers (int8 0..2 for genotype matrices, exact in float64 otherwise); label codes are non-negative"]
PROPS = "Props/C03.v"
IMPORTS = "From PV Require Import Lib.Common Model.C03_LMat."
SHARD = 52
SHARD_TIMEOUT = 600
SEARCH_MAX = 1500

# ----------------------------------------------------------------------------------------------- registry
FILL = -(2 ** 63)                      # DenseSquareMatrix._fill_value: int64 min; NaN (float64) is mapped to the same code
TFIELDS = ["taxa", "taxa_grp"]
VFIELDS = ["vrnt_chrgrp", "vrnt_phypos", "vrnt_name", "vrnt_genpos", "vrnt_xoprob", "vrnt_hapgrp", "vrnt_hapalt",
           "vrnt_hapref", "vrnt_mask"]
KINDS = {
    "taxa": dict(fields=TFIELDS, meta="taxa_grp", sortkeys=["taxa", "taxa_grp"], fill=["taxa"]),
    "vrnt": dict(fields=VFIELDS, meta="vrnt_chrgrp", sortkeys=["vrnt_phypos", "vrnt_chrgrp"], fill=["vrnt_name"]),
    "trait": dict(fields=["trait"], meta=None, sortkeys=["trait"], fill=[]),
    "phase": dict(fields=[], meta=None, sortkeys=None, fill=[]),
    "free": dict(fields=[], meta=None, sortkeys=None, fill=[]),
}
KIND_IX = {"taxa": 0, "vrnt": 1, "trait": 2, "phase": 3, "free": 4}
# numpy.insert is called with None for these when the caller supplies nothing (insert_vrnt has no check for them)
INSERT_PASS = ["vrnt_hapalt", "vrnt_hapref"]
FDT = {"taxa": "name:t", "taxa_grp": "int", "vrnt_chrgrp": "int", "vrnt_phypos": "int", "vrnt_name": "name:v",
       "vrnt_genpos": "float", "vrnt_xoprob": "float", "vrnt_hapgrp": "int", "vrnt_hapalt": "name:a",
       "vrnt_hapref": "name:r", "vrnt_mask": "bool", "trait": "name:q"}
MSUF = ["name", "stix", "spix", "len"]

CLASSES = {
    "DenseTaxaMatrix": dict(mod="pybrops.core.mat.DenseTaxaMatrix", ax=["taxa", "free"], cell="int64"),
    "DenseVariantMatrix": dict(mod="pybrops.core.mat.DenseVariantMatrix", ax=["vrnt", "free"], cell="int64"),
    "DenseTraitMatrix": dict(mod="pybrops.core.mat.DenseTraitMatrix", ax=["trait", "free"], cell="int64"),
    "DensePhasedMatrix": dict(mod="pybrops.core.mat.DensePhasedMatrix", ax=["phase", "free", "free"], cell="int64"),
    "DenseTaxaVariantMatrix": dict(mod="pybrops.core.mat.DenseTaxaVariantMatrix", ax=["taxa", "vrnt"], cell="int64"),
    "DensePhasedTaxaVariantMatrix": dict(mod="pybrops.core.mat.DensePhasedTaxaVariantMatrix", ax=["phase", "taxa", "vrnt"], cell="int64"),
    "DenseTaxaTraitMatrix": dict(mod="pybrops.core.mat.DenseTaxaTraitMatrix", ax=["taxa", "trait"], cell="int64"),
    "DenseSquareTaxaMatrix": dict(mod="pybrops.core.mat.DenseSquareTaxaMatrix", ax=["taxa", "taxa"], cell="int64", square=True),
    "DenseSquareTaxaTraitMatrix": dict(mod="pybrops.core.mat.DenseSquareTaxaTraitMatrix", ax=["taxa", "taxa", "trait"], cell="int64",
                                       square=True, drop_other=True),
    "DenseGenotypeMatrix": dict(mod="pybrops.popgen.gmat.DenseGenotypeMatrix", ax=["taxa", "vrnt"], cell="int8", ploidy=True),
    "DensePhasedGenotypeMatrix": dict(mod="pybrops.popgen.gmat.DensePhasedGenotypeMatrix", ax=["phase", "taxa", "vrnt"], cell="int8",
                                      phased=True),
    "DenseBreedingValueMatrix": dict(mod="pybrops.popgen.bvmat.DenseBreedingValueMatrix", ax=["taxa", "trait"], cell="float64", bv=True),
    # DenseCoancestryMatrix is abstract (from_gmat): exercised through its thinnest concrete subclass, which overrides nothing structural
    "DenseCoancestryMatrix": dict(mod="pybrops.popgen.cmat.DenseMolecularCoancestryMatrix", pyname="DenseMolecularCoancestryMatrix",
                                  ax=["taxa", "taxa"], cell="float64", square=True, must_square=True),
}
CLS_ORDER = list(CLASSES)
for _n, _c in CLASSES.items():
    _c["name"] = _n
    _c["kinds"] = [k for k in dict.fromkeys(_c["ax"])]            # distinct kinds in axis order
    _c["lkinds"] = [k for k in _c["kinds"] if k != "free"]        # kinds with public operations
    _c.setdefault("square", False)
    _c.setdefault("pyname", _n)
BY_PYNAME = {c["pyname"]: c for c in CLASSES.values()}

def kind_axes(C, kind):
    return [i for i, k in enumerate(C["ax"]) if k == kind]
def fields_of(C):
    out = []
    for k in C["kinds"]:
        out += KINDS[k]["fields"]
    return out
def free_names(C):
    """entity-list names: one per tensor axis, square taxa axes share one list"""
    names, nfree = [], 0
    for k in C["ax"]:
        if k == "free":
            names.append("free%d" % nfree); nfree += 1
        else:
            names.append(k)
    return names

# ----------------------------------------------------------------------------------------------- values and labels
def origin(eid):
    return eid // 64
def cellval(C, ids):
    """the data cell of the entity tuple `ids` (one entity per tensor axis)"""
    if C["cell"] == "int8":
        if C.get("phased"):
            ph, r, c = ids
            return (ph + r + 2 * c + r * c * (ph + 1)) % 2
        r, c = ids
        return (3 * r + 5 * c + r * c) % 3
    if C["square"] and origin(ids[0]) != origin(ids[1]):
        return FILL
    v = 0
    for x in ids:
        v = (v << 12) | x
    return v

def nested(C, ents):
    """nested python lists of cells; ents: dict entity-list-name -> ids"""
    lists = [ents[n] for n in free_names(C)]
    def rec(prefix, rest):
        if not rest:
            return cellval(C, prefix)
        return [rec(prefix + [e], rest[1:]) for e in rest[0]]
    return rec([], lists)

def shape_of(C, ents):
    return [len(ents[n]) for n in free_names(C)]

def dec_label(field, code):
    """code (int or None) -> python value stored in the numpy array"""
    t = FDT[field]
    if code is None:
        return None
    if t.startswith("name:"):
        return "%s%03d" % (t[5:], code)
    if t == "float":
        return code / 8.0
    if t == "bool":
        return bool(code)
    return int(code)
def enc_label(field, v):
    t = FDT[field]
    if v is None:
        return None
    if t.startswith("name:"):
        if isinstance(v, str) and len(v) == 4 and v[0] == t[5:] and v[1:].isdigit():
            return int(v[1:])
        return "?%r" % (v,)
    if t == "float":
        x = float(v) * 8.0
        return int(x) if x == int(x) else "?%r" % (v,)
    if t == "bool":
        return 1 if bool(v) else 0
    return int(v)
def np_labels(field, codes):
    if codes is None:
        return None
    t = FDT[field]
    if t.startswith("name:"):
        a = numpy.empty(len(codes), dtype=object)
        for i, c in enumerate(codes):
            a[i] = dec_label(field, c)
        return a
    if t == "float":
        return numpy.array([c / 8.0 for c in codes], dtype="float64")
    if t == "bool":
        return numpy.array([bool(c) for c in codes], dtype=bool)
    return numpy.array([int(c) for c in codes], dtype="int64")

def labels_from_table(tab, kind, field, ids):
    j = KINDS[kind]["fields"].index(field)
    return [tab[kind][str(e)][j] for e in ids]

# ----------------------------------------------------------------------------------------------- building pybrops objects
_CLS_CACHE = {}
def pycls(C):
    if C["name"] not in _CLS_CACHE:
        import importlib
        _CLS_CACHE[C["name"]] = getattr(importlib.import_module(C["mod"]), C["pyname"])
    return _CLS_CACHE[C["name"]]

def np_mat(C, nest, shape):
    if C["cell"] == "float64":
        a = numpy.array(nest, dtype="float64").reshape(shape)
        a[a == float(FILL)] = numpy.nan
        return a
    return numpy.array(nest, dtype=C["cell"]).reshape(shape)

def make_obj(C, st, ploidy=None):
    """st: concrete state dict {shape, mat, <field>: codes|None, <meta>_<suf>: list|None}"""
    kw = {f: np_labels(f, st.get(f)) for f in fields_of(C)}
    if C.get("ploidy"):
        kw["ploidy"] = ploidy if ploidy is not None else st.get("ploidy", 2)
    o = pycls(C)(np_mat(C, st["mat"], st["shape"]), **kw)
    for k in C["kinds"]:
        m = KINDS[k]["meta"]
        if m:
            for s in MSUF:
                v = st.get(m + "_" + s)
                if v is not None:
                    setattr(o, m + "_" + s, numpy.array(v, dtype="int64"))
    return o

def spec_to_state(C, tab, ms):
    """matrix spec {ents, present} -> concrete state (labels derived from the entity table)"""
    st = {"shape": shape_of(C, ms["ents"]), "mat": nested(C, ms["ents"])}
    for k in C["kinds"]:
        for f in KINDS[k]["fields"]:
            st[f] = labels_from_table(tab, k, f, ms["ents"][k]) if ms["present"].get(f) else None
    return st

def cells_of(C, o):
    if C.get("bv"):
        a = o.unscale()
    else:
        a = o.mat
    if C["cell"] == "float64":
        a = numpy.asarray(a, dtype="float64")
        out = numpy.empty(a.shape, dtype=object)
        it = numpy.nditer(a, flags=["multi_index"])
        for x in it:
            x = float(x)
            if math.isnan(x):
                out[it.multi_index] = FILL
            elif abs(x - round(x)) <= 2.0 ** -20 * (1 + abs(x)):
                out[it.multi_index] = int(round(x))
            else:
                out[it.multi_index] = "?%r" % x
        return out.tolist()
    return numpy.asarray(a).astype(object).tolist() if a.dtype != object else a.tolist()

def snap(C, o):
    d = {"cls": type(o).__name__, "shape": [int(x) for x in o.mat.shape], "mat": cells_of(C, o)}
    if isinstance(d["mat"], list) and numpy.asarray(o.mat).size:
        d["mat"] = _ints(d["mat"])
    for k in C["kinds"]:
        for f in KINDS[k]["fields"]:
            a = getattr(o, f)
            d[f] = None if a is None else [enc_label(f, x) for x in a.tolist()]
        m = KINDS[k]["meta"]
        if m:
            for s in MSUF:
                a = getattr(o, m + "_" + s)
                d[m + "_" + s] = None if a is None else [int(x) for x in a]
            d["is_grouped_" + k] = bool(getattr(o, "is_grouped_" + k)())
    g = []
    for a in range(len(C["ax"])):
        try:
            g.append(bool(o.is_grouped(axis=a)) if hasattr(o, "is_grouped") else "na")
        except Exception:
            g.append("exc")
    d["gen_is_grouped"] = g
    if C.get("ploidy") or C.get("phased"):
        d["ploidy"] = int(o.ploidy)
    # derived counters / shape attributes (a cached value would go stale under in-place operations)
    cnt = {"mat_shape": [int(x) for x in o.mat_shape], "mat_ndim": int(o.mat_ndim)}
    for k in C["kinds"]:
        a = COUNTER.get(k)
        if a and hasattr(o, a): cnt[a] = int(getattr(o, a))
    d["counts"] = cnt
    return d
COUNTER = {"taxa": "ntaxa", "vrnt": "nvrnt", "trait": "ntrait", "phase": "nphase"}
def _ints(x):
    if isinstance(x, list):
        return [_ints(y) for y in x]
    return int(x) if not isinstance(x, str) else x

def raw_state(C, o):
    """everything needed to rebuild an equal, independent object (no use of pybrops' own copy methods)"""
    d = {"mat": numpy.array(o.mat, copy=True)}
    for f in fields_of(C):
        a = getattr(o, f)
        d[f] = None if a is None else numpy.array(a, copy=True)
    for k in C["kinds"]:
        m = KINDS[k]["meta"]
        if m:
            for s in MSUF:
                a = getattr(o, m + "_" + s)
                d[m + "_" + s] = None if a is None else numpy.array(a, copy=True)
    if C.get("ploidy"):
        d["ploidy"] = int(o.ploidy)
    if C.get("bv"):
        d["location"] = numpy.array(o.location, copy=True); d["scale"] = numpy.array(o.scale, copy=True)
    return d
def rebuild(C, rs):
    kw = {f: (None if rs[f] is None else numpy.array(rs[f], copy=True)) for f in fields_of(C)}
    if C.get("ploidy"):
        kw["ploidy"] = rs["ploidy"]
    if C.get("bv"):
        kw["location"] = numpy.array(rs["location"], copy=True); kw["scale"] = numpy.array(rs["scale"], copy=True)
    o = pycls(C)(numpy.array(rs["mat"], copy=True), **kw)
    for k in C["kinds"]:
        m = KINDS[k]["meta"]
        if m:
            for s in MSUF:
                if rs[m + "_" + s] is not None:
                    setattr(o, m + "_" + s, numpy.array(rs[m + "_" + s], copy=True))
    return o
def raw_equal(a, b):
    if set(a) != set(b):
        return False
    for k in a:
        x, y = a[k], b[k]
        if x is None or y is None:
            if not (x is None and y is None):
                return False
        elif isinstance(x, numpy.ndarray):
            if x.shape != y.shape or x.dtype != y.dtype:
                return False
            if x.dtype == object:
                if x.tolist() != y.tolist():
                    return False
            elif not numpy.array_equal(x, y, equal_nan=(x.dtype.kind == "f")):
                return False
        elif x != y:
            return False
    return True

# ----------------------------------------------------------------------------------------------- applying one operation
MUT = {"append": "adjoin", "remove": "delete", "incorp": "insert"}
NONMUT = {v: k for k, v in MUT.items()}
INPLACE = {"append", "remove", "incorp", "reorder", "sort", "group", "ungroup"}

# --- encodings of index arguments.  The SAME index (a Python int, a list of ints, a mask) can reach the library as a numpy
# integer scalar of any width (what argmax / searchsorted / iteration over an array return), a 0-d array, a tuple, a range,
# a list of numpy scalars, an integer ndarray of a non-default dtype, a numpy bool mask or a Python list / tuple of bools.
# Neither the model nor the specification looks at the encoding: every encoding must behave like the plain Python value.
INT_DTYPES = ["int8", "int16", "int32", "int64", "uint8", "uint16", "uint32", "uint64"]
def fitting_dtypes(vals, n, signed_only=False):
    """integer dtypes that hold every value and the axis length with slack (numpy adds the length to negative indices and
    the running offsets to insertion positions in the dtype of the index array)"""
    lo = min([0] + [int(x) for x in vals]); hi = max([int(n) + 8] + [int(x) for x in vals])
    out = []
    for dt in INT_DTYPES:
        ii = numpy.iinfo(dt)
        if signed_only and ii.min == 0: continue
        if ii.min <= lo and hi <= ii.max: out.append(dt)
    return out
def _np_scalar(v, dt):
    return numpy.dtype(dt).type(int(v))
def _as_range(v):
    v = [int(x) for x in v]
    if not v: return range(0)
    step = (v[1] - v[0]) if len(v) > 1 else 1
    return range(v[0], v[-1] + (1 if step > 0 else -1), step)
def is_progression(v):
    v = [int(x) for x in v]
    if not v or (len(v) > 1 and v[1] == v[0]): return False
    return list(_as_range(v)) == v
def _np_list(v, e):
    """list of numpy integer scalars; the dtypes cycle through the fitting ones named in the encoding 'nplist:<a>,<b>,...'"""
    dts = e.split(":", 1)[1].split(",")
    return [_np_scalar(x, dts[i % len(dts)]) for i, x in enumerate(v)]
def py_obj(o):
    t = o["t"]; e = o.get("e")
    if t == "int":
        if not e: return int(o["v"])
        how, dt = e.split(":")
        if how == "np": return _np_scalar(o["v"], dt)                  # numpy integer scalar
        if how == "0d": return numpy.array(int(o["v"]), dtype=dt)       # 0-d integer array
        raise ValueError(e)
    if t == "slice": return slice(*o["v"])
    if t == "list":
        if not e: return [int(x) for x in o["v"]]
        if e == "tuple": return tuple(int(x) for x in o["v"])
        if e == "range": return _as_range(o["v"])
        if e.startswith("nplist:"): return _np_list(o["v"], e)
        raise ValueError(e)
    if t == "array": return numpy.array(o["v"], dtype=(e.split(":")[1] if e else "int64"))
    if t == "mask": return numpy.array(o["v"], dtype=bool)
    if t == "lmask": return tuple(bool(x) for x in o["v"]) if e == "tuple" else [bool(x) for x in o["v"]]
    raise ValueError(t)
def py_idx(v, ik):
    if ik == "array": return numpy.array(v, dtype="int64")
    if ik.startswith("array:"): return numpy.array(v, dtype=ik.split(":")[1])
    if ik == "tuple": return tuple(int(x) for x in v)
    if ik == "range": return _as_range(v)
    if ik.startswith("nplist:"): return _np_list(v, ik)
    return [int(x) for x in v]

def _nplist_enc(r, dts):
    """numpy promotes a list mixing uint64 with signed scalars to float64 (not an index any more): uint64 only among unsigned"""
    pick = r.sample(dts, min(len(dts), 3))
    if "uint64" in pick and any(not d.startswith("u") for d in pick):
        pick = [d for d in pick if d != "uint64"]
    return "nplist:" + ",".join(pick)
def encode_obj(r, o, n, opname):
    """choose (with the case PRNG) how the index argument `o` of delete/remove/insert/incorp on an axis of length n is handed over"""
    t = o["t"]; v = o["v"]
    ins = opname in ("insert", "incorp")
    if r.random() < 0.45: return o
    if t == "int":
        dts = fitting_dtypes([v], n)
        if dts: o["e"] = ("np:" if r.random() < 0.7 else "0d:") + r.choice(dts)
    elif t in ("list", "array"):
        # numpy.insert itself fails on an unsigned index array of more than one element (in-place `indices += offsets`)
        dts = fitting_dtypes(v, n, signed_only=(ins and len(v) != 1))
        ch = r.random()
        if t == "array" or ch < 0.3:
            if dts and v: o["t"] = "array"; o["e"] = "dt:" + r.choice(dts)
        elif ch < 0.5: o["e"] = "tuple"
        elif ch < 0.7 and is_progression(v): o["e"] = "range"
        elif v:
            if dts: o["e"] = _nplist_enc(r, dts)
    elif t == "mask" and not ins:
        # numpy.insert itself rejects a Python list / tuple of bools ('list' object has no attribute 'ndim'): masks for insertion stay ndarrays
        ch = r.random()
        if ch < 0.5: o["t"] = "lmask"
        if ch < 0.2: o["e"] = "tuple"
    elif t == "lmask" and r.random() < 0.4: o["e"] = "tuple"
    return o
def encode_ik(r, idx, n, opname, ik):
    """index kind of select / reorder"""
    if r.random() < 0.5 or not idx: return ik
    dts = fitting_dtypes(idx, n)
    ch = r.random()
    if ch < 0.4 and dts: return "array:" + r.choice(dts)
    if ch < 0.6 and is_progression(idx): return "range"
    if ch < 0.85 and dts: return _nplist_enc(r, dts)
    # reorder_<axis> documents an ndarray and indexes with `arr[indices]`: a tuple there is numpy's multi-axis index, not an index list
    return "tuple" if opname == "select" else ik

def operand_args(C, tab, opd, kind, ploidy, track=None):
    """-> (values, kwargs) for adjoin/insert/append/incorp"""
    st = spec_to_state(C, tab, opd)
    if opd["pass"] == "mat":
        m = make_obj(C, st, ploidy)
        if track is not None: track.append((m, raw_state(C, m)))
        # a matrix operand together with explicit label keywords: the keywords take precedence over the matrix' own arrays
        return m, {f: np_labels(f, labels_from_table(tab, kind, f, ids)) for f, ids in (opd.get("over") or {}).items()}
    arr = np_mat(C, st["mat"], st["shape"])
    kw = {}
    if opd["pass"] == "kw":
        for f in KINDS[kind]["fields"]:
            if st[f] is not None:
                kw[f] = np_labels(f, st[f])
    return arr, kw

def apply_op(C, tab, o, op, name, form, track=None):
    """run operation `name` (possibly the counterpart of op['k']) in the given form on object o.
    returns the resulting object (o itself for in-place operations) or a plain value for lexsort"""
    kind = op.get("ax")
    ploidy = int(o.ploidy) if C.get("ploidy") else None
    gen = form == "g"
    meth = name if gen else "%s_%s" % (name, kind)
    kw = {"axis": op["gax"]} if gen else {}
    if name in ("select",):
        return getattr(o, meth)(py_idx(op["idx"], op.get("ik", "list")), **kw)
    if name in ("delete", "remove"):
        r = getattr(o, meth)(py_obj(op["obj"]), **kw)
        return o if name == "remove" else r
    if name in ("insert", "incorp"):
        v, lk = operand_args(C, tab, op["val"], kind, ploidy, track)
        r = getattr(o, meth)(py_obj(op["obj"]), v, **kw, **lk)
        return o if name == "incorp" else r
    if name in ("adjoin", "append"):
        v, lk = operand_args(C, tab, op["val"], kind, ploidy, track)
        r = getattr(o, meth)(v, **kw, **lk)
        return o if name == "append" else r
    if name == "concat":
        others = [make_obj(C, spec_to_state(C, tab, m), ploidy) for m in op["vals"]]
        if track is not None:
            for m in others: track.append((m, raw_state(C, m)))
        return getattr(type(o), meth)([o] + others, **kw)
    if name == "reorder":
        getattr(o, meth)(py_idx(op["idx"], op.get("ik", "array")), **kw); return o
    if name in ("sort", "lexsort"):
        keys = None if op.get("keys") is None else tuple(getattr(o, f) for f in op["keys"])
        if gen:
            r = getattr(o, meth)(keys, **kw)
        else:
            r = getattr(o, meth)(keys) if (keys is not None or op.get("explicit_none")) else getattr(o, meth)()
        return o if name == "sort" else [int(x) for x in r]
    if name in ("group", "ungroup"):
        getattr(o, meth)(**kw); return o
    raise ValueError("unknown op %s" % name)

def apply_genotype(o, op):
    from pybrops.breed.prot.gt.DenseUnphasedGenotyping import DenseUnphasedGenotyping
    from pybrops.breed.prot.gt.DenseMaskedPhasedGenotyping import DenseMaskedPhasedGenotyping
    from pybrops.breed.prot.gt.DenseMaskedUnphasedGenotyping import DenseMaskedUnphasedGenotyping
    if op["prot"] == "unphased":
        return DenseUnphasedGenotyping().genotype(o)
    if op["prot"] == "masked_phased":
        return DenseMaskedPhasedGenotyping(invert=bool(op["invert"])).genotype(o)
    return DenseMaskedUnphasedGenotyping(invert=bool(op["invert"])).genotype(o)

def _exc(e):
    return {"exc": type(e).__name__, "msg": str(e)[:160]}

COPY_MODES = ["copy", "deepcopy", "m_copy", "m_deepcopy", "setters"]
def apply_copy(C, o, mode):
    """obtain the object through the library's own copying routes, or re-assign every public array through its setter"""
    if mode == "copy": return copy.copy(o)
    if mode == "deepcopy": return copy.deepcopy(o)
    if mode == "m_copy": return o.copy()
    if mode == "m_deepcopy": return o.deepcopy()
    if mode == "setters":
        for f in fields_of(C):
            a = getattr(o, f)
            setattr(o, f, None if a is None else numpy.array(a, copy=True))
        for k in C["kinds"]:
            m = KINDS[k]["meta"]
            if m:
                for s_ in MSUF:
                    a = getattr(o, m + "_" + s_)
                    setattr(o, m + "_" + s_, None if a is None else numpy.array(a, copy=True))
        if not C.get("bv"):
            o.mat = numpy.array(o.mat, copy=True)
        return o
    raise ValueError(mode)

HOLD = 4
def _held_ok(held):
    """every matrix set aside earlier (operand of a non-mutating operation, matrix passed as values, original of a copy)
    still has the state it had when it was set aside: later operations on derived objects must not reach it (aliasing)"""
    return all(raw_equal(b, raw_state(Cx, m)) for Cx, m, b in held)

def run_impl(case):
    C = CLASSES[case["cls"]]
    tab = case["tab"]
    cur = make_obj(C, spec_to_state(C, tab, case["init"]), case.get("ploidy"))
    out = {"init": snap(C, cur), "steps": []}
    held = []
    for op in case["ops"]:
        rec = {}
        k = op["k"]
        if k == "genotype":
            before = raw_state(C, cur)
            try:
                new = apply_genotype(cur, op)
            except Exception as e:
                rec["main"] = _exc(e); out["steps"].append(rec); break
            C2 = CLASSES["DensePhasedGenotypeMatrix" if op["prot"] == "masked_phased" else "DenseGenotypeMatrix"]
            rec["self_unchanged"] = raw_equal(before, raw_state(C, cur))
            rec["main"] = snap(C2, new)
            held = (held + [(C, cur, before)])[-HOLD:]
            C, cur = C2, new
            rec["held_unchanged"] = _held_ok(held)
            out["steps"].append(rec)
            continue
        if k == "copy":
            before = raw_state(C, cur)
            try:
                new = apply_copy(C, cur, op["mode"])
            except Exception as e:
                rec["main"] = _exc(e); out["steps"].append(rec); break
            rec["main"] = snap(C, new)
            if new is not cur:
                rec["self_unchanged"] = raw_equal(before, raw_state(C, cur))
                rec["fresh"] = not any(x is not None and y is not None and numpy.shares_memory(x, y)
                                       for x, y in ((getattr(cur, f), getattr(new, f)) for f in fields_of(C)))
                held = (held + [(C, cur, before)])[-HOLD:]
            cur = new
            rec["held_unchanged"] = _held_ok(held)
            out["steps"].append(rec)
            continue
        before = raw_state(C, cur)
        form = op["form"]
        # the other form (axis-generic <-> axis-specific) on an independent rebuilt copy
        if op.get("alt", True) and not (k == "concat" and False):
            try:
                r = apply_op(C, tab, rebuild(C, before), op, k, "s" if form == "g" else "g")
                rec["alt"] = r if k == "lexsort" else snap(C, r)
            except Exception as e:
                rec["alt"] = _exc(e)
        # the mutating / non-mutating counterpart on an independent rebuilt copy
        cp = MUT.get(k) or NONMUT.get(k)
        if cp and not op.get("nocp"):
            try:
                rec["cp"] = snap(C, apply_op(C, tab, rebuild(C, before), op, cp, form))
            except Exception as e:
                rec["cp"] = _exc(e)
        track = []
        try:
            new = apply_op(C, tab, cur, op, k, form, track)
        except Exception as e:
            rec["main"] = _exc(e)
            rec["self_after_exc"] = snap(C, cur) if k not in INPLACE else None
            if k not in INPLACE:
                rec["self_unchanged"] = raw_equal(before, raw_state(C, cur))
            out["steps"].append(rec)
            break
        if k == "lexsort":
            rec["ret"] = new
            rec["self_unchanged"] = raw_equal(before, raw_state(C, cur))
            rec["main"] = snap(C, cur)
        else:
            if k not in INPLACE:
                rec["self_unchanged"] = raw_equal(before, raw_state(C, cur))
                if new is not cur: held.append((C, cur, before))
            rec["main"] = snap(C, new)
            cur = new
        rec["operands_unchanged"] = all(raw_equal(b, raw_state(C, m)) for m, b in track)
        held = (held + [(C, m, b) for m, b in track])[-HOLD:]
        rec["held_unchanged"] = _held_ok(held)
        out["steps"].append(rec)
    return out

# ----------------------------------------------------------------------------------------------- independent specification
# Plain Python list operations on entity lists and label lists (no numpy).  `Invalid` = the arguments are outside
# "valid arguments" of the property (no obligation); `spec_*` never looks at the implementation's output.
class Invalid(Exception):
    pass

def l_take(l, idx):
    n = len(l); out = []
    for i in idx:
        if not (-n <= i < n): raise Invalid("index %d out of range for length %d" % (i, n))
        out.append(l[i])
    return out
def obj_positions(n, o):
    """positions (0-based, order as given) designated by an index argument on an axis of length n"""
    t, v = o["t"], o["v"]
    if t == "int":
        if not (-n <= v < n): raise Invalid("index out of range")
        return [v % n]
    if t == "slice":
        return list(range(n))[slice(*v)]
    if t in ("list", "array"):
        for i in v:
            if not (-n <= i < n): raise Invalid("index out of range")
        return [i % n for i in v]
    if t in ("mask", "lmask"):
        if len(v) != n: raise Invalid("mask length")
        return [i for i, b in enumerate(v) if b]
    raise Invalid(t)
def l_delete(l, o):
    pos = set(obj_positions(len(l), o))
    return [x for i, x in enumerate(l) if i not in pos]
def insert_positions(n, o):
    """for insertion the end position n is allowed"""
    t, v = o["t"], o["v"]
    if t == "int":
        if not (-n <= v <= n): raise Invalid("index out of range")
        return [v + n if v < 0 else v], True
    if t == "slice":
        return list(range(*slice(*v).indices(n))), False
    if t in ("list", "array"):
        for i in v:
            if not (-n <= i <= n): raise Invalid("index out of range")
        return [i + n if i < 0 else i for i in v], False
    if t == "mask":
        if len(v) != n: raise Invalid("mask length")          # numpy does not check this; not a valid argument
        return [i for i, b in enumerate(v) if b], False
    raise Invalid(t)
def l_insert(l, o, vals):
    """insert vals before the designated *original* positions; a single position takes the whole block"""
    n = len(l)
    pos, scalar = insert_positions(n, o)
    if len(pos) == 1:
        i = pos[0]
        return l[:i] + list(vals) + l[i:]
    if len(vals) == 1:
        vals = list(vals) * len(pos)
    if len(vals) != len(pos): raise Invalid("number of inserted items != number of positions")
    out = []
    for p in range(n + 1):
        out += [vals[j] for j in range(len(pos)) if pos[j] == p]       # stable in argument order
        if p < n: out.append(l[p])
    return out

def grp_field(kind):
    return KINDS[kind]["meta"]
def spec_init(C, tab, ms):
    S = {"cls": C["name"], "ents": {k: list(v) for k, v in ms["ents"].items()}, "lab": {}, "grouped": {}}
    for k in C["kinds"]:
        for f in KINDS[k]["fields"]:
            S["lab"][f] = labels_from_table(tab, k, f, ms["ents"][k]) if ms["present"].get(f) else None
        if KINDS[k]["meta"]: S["grouped"][k] = False
    S["unit"] = True
    return S
def _clone(S):
    T = dict(S)
    T["ents"] = {k: list(v) for k, v in S["ents"].items()}
    T["lab"] = {k: (None if v is None else list(v)) for k, v in S["lab"].items()}
    T["grouped"] = dict(S["grouped"])
    return T

def operand_labels(C, tab, S, kind, opd, opname):
    """effective label lists of the operand for every field of `kind` -> dict field -> list|None ; raises Invalid"""
    own = spec_to_state(C, tab, opd)
    k = len(opd["ents"][kind])
    out = {}
    for f in KINDS[kind]["fields"]:
        given = own[f] if opd["pass"] in ("mat", "kw") else None
        if opd["pass"] == "mat" and f in (opd.get("over") or {}): given = labels_from_table(tab, kind, f, opd["over"][f])
        have = S["lab"][f] is not None
        if have and given is None:
            if f in KINDS[kind]["fill"]:
                given = [None] * k
            else:
                raise Invalid("label array %s required" % f)
        if not have and given is not None:
            raise Invalid("label array %s supplied for a matrix that does not carry it" % f)
        out[f] = given
    return out
def check_operand_shape(C, S, kind, opd):
    for n in free_names(C):
        if n != kind and list(opd["ents"][n]) != list(S["ents"][n]):
            raise Invalid("operand does not share the entities of axis %s" % n)

def spec_step(C, tab, S, op):
    """-> (new spec state, return value or None).  Pure list semantics of the public operation."""
    k = op["k"]; kind = op.get("ax")
    if k == "genotype":
        return spec_genotype(C, tab, S, op)
    if k == "copy":
        if op.get("mode") not in COPY_MODES: raise Invalid("copy mode")
        return _clone(S), None
    axes = kind_axes(C, kind)
    if not axes or kind == "free": raise Invalid("no such axis")
    if op["form"] == "g" or op.get("badaxis"):
        nd = len(C["ax"]); g = op["gax"]
        if not (-nd <= g < nd) or (g % nd) not in axes: raise Invalid("generic axis does not address this kind")
    if kind == "phase" and k in ("reorder", "sort", "group", "ungroup", "lexsort"): raise Invalid("not defined for phase axis")
    if kind == "trait" and k in ("group", "ungroup"): raise Invalid("not defined for trait axis")
    T = _clone(S)
    fields = KINDS[kind]["fields"]
    def on_axis(fn):
        T["ents"][kind] = fn(S["ents"][kind])
        for f in fields:
            if S["lab"][f] is not None: T["lab"][f] = fn(S["lab"][f])
    n = len(S["ents"][kind])
    ret = None
    if k == "select":
        on_axis(lambda l: l_take(l, op["idx"]))
    elif k in ("delete", "remove"):
        on_axis(lambda l: l_delete(l, op["obj"]))
    elif k in ("insert", "incorp", "adjoin", "append"):
        opd = op["val"]
        check_operand_shape(C, S, kind, opd)
        labs = operand_labels(C, tab, S, kind, opd, k)
        if k in ("insert", "incorp"):
            T["ents"][kind] = l_insert(S["ents"][kind], op["obj"], opd["ents"][kind])
            for f in fields:
                if S["lab"][f] is not None: T["lab"][f] = l_insert(S["lab"][f], op["obj"], labs[f])
        else:
            T["ents"][kind] = S["ents"][kind] + list(opd["ents"][kind])
            for f in fields:
                if S["lab"][f] is not None: T["lab"][f] = S["lab"][f] + labs[f]
    elif k == "concat":
        ents = list(S["ents"][kind]); labs = {f: (None if S["lab"][f] is None else list(S["lab"][f])) for f in fields}
        for opd in op["vals"]:
            check_operand_shape(C, S, kind, opd)
            own = spec_to_state(C, tab, opd)
            for f in fields:
                if (labs[f] is None) != (own[f] is None):
                    if f in KINDS[kind]["fill"]:
                        if labs[f] is None: labs[f] = [None] * len(ents)
                        if own[f] is None: own[f] = [None] * len(opd["ents"][kind])
                    else:
                        raise Invalid("label array %s needed for all matrices" % f)
            for f in fields:
                if labs[f] is not None: labs[f] = labs[f] + own[f]
            ents = ents + list(opd["ents"][kind])
        T["ents"][kind] = ents
        for f in fields: T["lab"][f] = labs[f]
    elif k == "reorder":
        on_axis(lambda l: l_take(l, op["idx"]))
    elif k in ("sort", "lexsort", "group"):
        keyf = KINDS[kind]["sortkeys"] if (op.get("keys") is None or k == "group") else op["keys"]
        keys = [S["lab"][f] for f in keyf if S["lab"][f] is not None]
        if not keys: raise Invalid("no keys to sort on")
        if n >= 2 and any(x is None for kk in keys for x in kk): raise Invalid("unordered (None) labels among the keys")
        order = sorted(range(n), key=lambda i: tuple(kk[i] for kk in reversed(keys)))      # last key is primary; stable
        if k == "lexsort":
            return T, order
        on_axis(lambda l: [l[i] for i in order])
    elif k == "ungroup":
        pass
    else:
        raise Invalid("unknown op")
    # group metadata of the operated axis: reset by everything except group (set) / lexsort
    if KINDS[kind]["meta"]:
        T["grouped"][kind] = (k == "group") and T["lab"][grp_field(kind)] is not None
    if C.get("bv") and k in ("select", "delete", "insert", "adjoin"): T["unit"] = False
    return T, ret

def spec_genotype(C, tab, S, op):
    if not C.get("phased"): raise Invalid("genotyping needs a phased genotype matrix")
    T = _clone(S)
    prot = op["prot"]
    if prot != "unphased" and S["lab"]["vrnt_mask"] is not None:
        keep = [bool(b) != bool(op["invert"]) for b in S["lab"]["vrnt_mask"]]
        T["ents"]["vrnt"] = [e for e, b in zip(S["ents"]["vrnt"], keep) if b]
        for f in VFIELDS:
            if S["lab"][f] is not None: T["lab"][f] = [x for x, b in zip(S["lab"][f], keep) if b]
    if prot != "masked_phased":
        T["cls"] = "DenseGenotypeMatrix"
        T["sumphase"] = list(S["ents"]["phase"])
        T["ploidy"] = len(S["ents"]["phase"])
    return T, None

def spec_cells(C, S):
    if S.get("sumphase") is not None:
        CP = CLASSES["DensePhasedGenotypeMatrix"]
        return [[sum(cellval(CP, [ph, r, c]) for ph in S["sumphase"]) for c in S["ents"]["vrnt"]] for r in S["ents"]["taxa"]]
    return nested(C, S["ents"])
def runs(labels):
    names, stix, spix = [], [], []
    for i, x in enumerate(labels):
        if not names or names[-1] != x:
            if names: spix.append(i)
            names.append(x); stix.append(i)
    if names: spix.append(len(labels))
    return names, stix, spix, [b - a for a, b in zip(stix, spix)]
def spec_snapshot(C, S):
    """the snapshot the property demands for spec state S (class C = class of S)"""
    ents = S["ents"]
    if S.get("sumphase") is not None:
        shape = [len(ents["taxa"]), len(ents["vrnt"])]
    else:
        shape = shape_of(C, ents)
    d = {"cls": CLASSES[S["cls"]]["pyname"], "shape": shape, "mat": spec_cells(C, S)}
    has_group = any(KINDS[k]["meta"] for k in C["kinds"])
    for k in C["kinds"]:
        for f in KINDS[k]["fields"]:
            d[f] = None if S["lab"][f] is None else list(S["lab"][f])
        m = KINDS[k]["meta"]
        if m:
            g = bool(S["grouped"].get(k)) and S["lab"][m] is not None
            if g:
                nm, st, sp, ln = runs(S["lab"][m])
                d[m + "_name"], d[m + "_stix"], d[m + "_spix"], d[m + "_len"] = nm, st, sp, ln
            else:
                for s in MSUF: d[m + "_" + s] = None
            d["is_grouped_" + k] = g
    gi = []
    for a, k in enumerate(C["ax"]):
        if not has_group: gi.append("na")
        elif KINDS[k]["meta"]: gi.append(d["is_grouped_" + k])
        elif k == "phase" and "taxa" in C["kinds"]: gi.append(False)
        else: gi.append("exc")
    d["gen_is_grouped"] = gi
    if C.get("ploidy"): d["ploidy"] = S.get("ploidy", 2)
    if C.get("phased"): d["ploidy"] = len(ents["phase"])
    cnt = {"mat_shape": list(shape), "mat_ndim": len(shape)}
    for k in C["kinds"]:
        if COUNTER.get(k): cnt[COUNTER[k]] = shape[min(kind_axes(C, k))]
    d["counts"] = cnt
    return d

def partition_ok(labels, name, stix, spix, ln):
    """group names/stix/spix/len describe a true contiguous partition of `labels`"""
    bad = []
    n = len(labels)
    if not (len(name) == len(stix) == len(spix) == len(ln)): return ["metadata arrays differ in length"]
    if any(a >= b for a, b in zip(name, name[1:])): bad.append("group names not strictly increasing")
    if sorted(set(labels)) != list(name): bad.append("group names are not the distinct labels on the axis")
    pos = 0
    for g, a, b, l in zip(name, stix, spix, ln):
        if a != pos: bad.append("start index of group %r is %d, expected %d" % (g, a, pos))
        if b - a != l or l <= 0: bad.append("length of group %r" % (g,))
        if any(x != g for x in labels[a:b]): bad.append("labels inside [stix,spix) of group %r differ from its name" % (g,))
        pos = b
    if pos != n: bad.append("groups cover %d of %d labels" % (pos, n))
    return bad

def diff_snap(exp, got, skip=()):
    out = []
    for k in exp:
        if k in skip: continue
        if k not in got: out.append("%s missing" % k)
        elif exp[k] != got[k]:
            out.append("%s: expected %s got %s" % (k, _short(exp[k]), _short(got[k])))
    return out
def _short(x):
    s = repr(x)
    return s if len(s) <= 70 else s[:67] + "..."

# known deviations of the implementation from the property (documented in known_findings.d/C03.json)
def deviation(C, S, T, op, main):
    """if the implementation's result `main` is exactly one of the known deviations for this step, return
    (tag, rebased spec state or None when the history cannot be followed further)"""
    k = op["k"]; kind = op.get("ax")
    if C.get("drop_other") and k in ("select", "delete", "insert", "adjoin", "concat") and "exc" not in main:
        U = _clone(T)
        for kk in C["kinds"]:
            if kk != kind:
                for f in KINDS[kk]["fields"]: U["lab"][f] = None
                if KINDS[kk]["meta"]: U["grouped"][kk] = False
        if U["lab"] != T["lab"] or U["grouped"] != T["grouped"]:
            if not diff_snap(spec_snapshot(C, U), main):
                return "sqtt-drop", U
    if C["square"] and kind == "taxa" and k in ("insert", "incorp", "concat"):
        return "sq-insert", None
    return None, None

TAGS = {"sqtt-drop": "C03-squaretaxatrait-drops-labels", "sq-insert": "C03-square-insert-one-axis"}

def pred(case, out):
    """the property stated on the implementation's snapshots, by entity tracing with plain list operations"""
    if "exc" in out:
        return ["harness/implementation raised while building the initial matrix: %s %s" % (out["exc"], out.get("msg"))]
    C = CLASSES[case["cls"]]; tab = case["tab"]
    bad = []
    try:
        S = spec_init(C, tab, case["init"])
    except Exception as e:
        return ["bad case: %s" % e]
    if C.get("ploidy"): S["ploidy"] = case.get("ploidy", 2)
    d = diff_snap(spec_snapshot(C, S), out["init"])
    if d: return ["initial matrix: " + x for x in d[:3]]
    follow = True
    for i, (op, rec) in enumerate(zip(case["ops"], out["steps"])):
        name = "step %d %s%s" % (i, op["k"], "" if op["k"] == "genotype" else ("(%s,%s)" % (op.get("ax"), op.get("form"))))
        main = rec["main"]
        # --- clauses that need no specification: partition, operands, forms, counterparts
        C1 = BY_PYNAME.get(main.get("cls"), C)
        spre = ""
        if op["k"] != "genotype" and is_terminal(C, op) and op.get("ax") in C["lkinds"]:
            spre = "[%s] " % terminal_tag(C, op)
        nb = len(bad)
        if "exc" not in main:
            for kk in C1["kinds"]:
                m = KINDS[kk]["meta"]
                if m and main.get("is_grouped_" + kk):
                    lab = main.get(m)
                    if lab is None: bad.append("%s: grouped along %s without group labels" % (name, kk))
                    else:
                        for b in partition_ok(lab, *[main[m + "_" + s] for s in MSUF]):
                            bad.append("%s: %s metadata: %s" % (name, kk, b))
                for f in KINDS[kk]["fields"]:
                    if main.get(f) is not None and len(main[f]) != main["shape"][min(kind_axes(C1, kk))]:
                        bad.append("%s: %s has %d labels for an axis of length %d" % (name, f, len(main[f]), main["shape"][min(kind_axes(C1, kk))]))
                    if main.get(f) is not None and any(isinstance(x, str) for x in main[f]):
                        bad.append("%s: %s holds foreign values %s" % (name, f, _short(main[f])))
        bad[nb:] = [spre + b for b in bad[nb:]]
        if not follow:
            continue
        try:
            T, ret = spec_step(C, tab, S, op)
            valid = True
        except Invalid as e:
            valid = False; why = str(e)
        if not valid:
            # no obligation on the result; the history can only be followed if the operation raised (state unchanged)
            if "exc" in main:
                pass
            follow = False
            continue
        tag, U = deviation(C, S, T, op, main)
        pre = "[%s] " % tag if tag else ""
        if rec.get("self_unchanged") is False:
            bad.append("%s: non-mutating operation changed its operand" % name)
        if rec.get("operands_unchanged") is False:
            bad.append("%s: operation changed the matrix passed as values" % name)
        if rec.get("held_unchanged") is False:
            bad.append("%s: the operation changed a matrix set aside earlier (an operand / the original of a derived matrix): shared mutable arrays" % name)
        if rec.get("fresh") is False:
            bad.append("%s: the copy shares label arrays with its original" % name)
        C2 = CLASSES[T["cls"]]
        exp = spec_snapshot(C2, T)
        if "exc" in main:
            bad.append(pre + "%s: raised %s on valid arguments (%s)" % (name, main["exc"], main.get("msg", "")[:80]))
            follow = False
        else:
            d = diff_snap(exp, main)
            if d:
                if tag and U is not None and not diff_snap(spec_snapshot(C2, U), main):
                    for x in d[:2]: bad.append(pre + "%s: %s" % (name, x))
                    T = U
                else:
                    for x in d[:3]: bad.append(pre + "%s: %s" % (name, x))
                    follow = False
            if op["k"] == "lexsort" and rec.get("ret") != ret:
                bad.append("%s: returned %s, stable lexicographic order is %s" % (name, _short(rec.get("ret")), _short(ret)))
        # axis-generic form == axis-specific form
        if "alt" in rec:
            a = rec["alt"]
            if op["k"] == "lexsort":
                if a != rec.get("ret") and not ("exc" in main and isinstance(a, dict) and "exc" in a):
                    bad.append(pre + "%s: generic and axis-specific forms differ" % name)
            elif ("exc" in a) != ("exc" in main) or ("exc" not in a and diff_snap(main, a)):
                bad.append(pre + "%s: generic and axis-specific forms differ: %s" % (name, "; ".join(diff_snap(main, a)[:2]) if "exc" not in a and "exc" not in main else "one raises"))
        # mutating == non-mutating counterpart
        if "cp" in rec:
            a = rec["cp"]
            okind = [f for kk in C["kinds"] if kk != op.get("ax") for f in KINDS[kk]["fields"] + ([KINDS[kk]["meta"] + "_" + s for s in MSUF] + ["is_grouped_" + kk] if KINDS[kk]["meta"] else [])]
            if C.get("drop_other") and "exc" not in a and "exc" not in main and diff_snap(main, a) and not diff_snap(main, a, skip=okind + ["gen_is_grouped"]):
                bad.append("[sqtt-drop] %s: mutating form keeps, non-mutating form drops the labels of the other axis: %s" % (name, "; ".join(diff_snap(main, a)[:2])))
            elif ("exc" in a) != ("exc" in main) or ("exc" not in a and diff_snap(main, a)):
                bad.append(pre + "%s: mutating and non-mutating counterparts differ: %s" % (name, "; ".join(diff_snap(main, a)[:2]) if "exc" not in a and "exc" not in main else "one raises (%s)" % (a.get("exc") or main.get("exc"))))
        S, C = T, C2
        if tag and U is None and any(b.startswith(pre) for b in bad):
            follow = False
    seen = []
    for b in bad:
        if b not in seen: seen.append(b)
    return seen[:10]

def classify(case, out, clauses):
    if not clauses:
        return None
    tags = []
    for c in clauses:
        if c.startswith("[") and "]" in c and c[1:c.index("]")] in TAGS:
            tags.append(c[1:c.index("]")])
        else:
            return None
    return TAGS[tags[0]]

# ----------------------------------------------------------------------------------------------- case generation
def _new_label(rng, kind, eid, mode):
    if kind == "taxa":
        return [eid % 50 if mode == "unique" else rng.randrange(6), rng.randint(1, 3)]
    if kind == "vrnt":
        return [rng.randint(1, 3), rng.randrange(8), eid % 50 if mode == "unique" else rng.randrange(6), rng.randrange(40),
                rng.randrange(5), rng.randrange(4), rng.randrange(3), rng.randrange(3), rng.randrange(2)]
    if kind == "trait":
        return [eid % 50 if mode == "unique" else rng.randrange(5)]
    return []

class _Gen:
    def __init__(self, rng, clsname, nops, tier):
        self.rng = rng; self.C = CLASSES[clsname]; self.nops = nops; self.tier = tier
        self.tab = {k: {} for k in ("taxa", "vrnt", "trait")}
        self.mode = rng.choice(["dup", "unique", "unique"])
        self.norigin = 1
    def ensure(self, kind, ids):
        if kind in self.tab:
            for e in ids:
                if str(e) not in self.tab[kind]:
                    self.tab[kind][str(e)] = _new_label(self.rng, kind, e, self.mode)
    def size(self, name):
        r = self.rng
        if name == "taxa": return r.choice([1, 1, 2, 2, 3, 3, 4, 5])
        if name == "vrnt": return r.choice([1, 1, 2, 3, 3, 4, 5])
        if name == "trait": return r.choice([1, 1, 2, 3])
        if name == "phase": return r.choice([1, 2, 2, 3])
        return r.choice([1, 2, 3])
    def init(self):
        C, r = self.C, self.rng
        ents = {n: list(range(self.size(n))) for n in dict.fromkeys(free_names(C))}
        pat = r.choice(["all", "all", "all", "none", "rand", "rand", "rand", "rand"])
        present = {f: (pat == "all" or (pat == "rand" and r.random() < 0.7)) for f in fields_of(C)}
        for k in C["kinds"]: self.ensure(k, ents.get(k, []))
        return {"ents": ents, "present": present}
    def fresh(self, kind, k):
        o = self.norigin; self.norigin += 1
        return [o * 64 + j for j in range(k)]
    def operand(self, S, kind, k, valid=True, reuse_ok=True):
        C, r = self.C, self.rng
        if reuse_ok and not C["square"] and r.random() < 0.15 and S["ents"][kind]:
            ids = [r.choice(S["ents"][kind]) for _ in range(k)]
        else:
            ids = self.fresh(kind, k)
        ents = {n: list(v) for n, v in S["ents"].items() if n in free_names(C)}
        ents[kind] = ids
        self.ensure(kind, ids)
        present = {}
        for kk in C["kinds"]:
            for f in KINDS[kk]["fields"]:
                if kk != kind: present[f] = r.random() < 0.5
                else:
                    have = S["lab"][f] is not None
                    present[f] = have
                    if have and f in KINDS[kind]["fill"] and r.random() < 0.3: present[f] = False
        req = [f for f in KINDS[kind]["fields"] if S["lab"][f] is not None and f not in KINDS[kind]["fill"]]
        pas = r.choice(["mat", "mat", "mat", "kw", "kw", "raw"])
        if pas == "raw" and req and valid: pas = "kw"
        if not valid:
            ch = r.random()
            if req and ch < 0.5:
                present[r.choice(req)] = False; pas = r.choice(["mat", "kw"])
            elif req and ch < 0.7:
                pas = "raw"
            else:
                absent = [f for f in KINDS[kind]["fields"] if S["lab"][f] is None]
                if absent: present[r.choice(absent)] = True; pas = r.choice(["mat", "kw"])
                elif req: pas = "raw"
        opd = {"ents": ents, "present": present, "pass": pas}
        if pas == "mat" and valid and r.random() < 0.3:
            cand = [f for f in KINDS[kind]["fields"] if S["lab"][f] is not None]
            if cand:
                ids2 = self.fresh(kind, k); self.ensure(kind, ids2)
                opd["over"] = {f: ids2 for f in r.sample(cand, r.randint(1, len(cand)))}
        return opd
    def del_obj(self, n, valid=True):
        r = self.rng
        if not valid:
            return r.choice([{"t": "int", "v": n + r.randrange(2)}, {"t": "int", "v": -n - 1}, {"t": "list", "v": [0, n]},
                             {"t": "mask", "v": [True] * (n + 1)}])
        for _ in range(20):
            t = r.choice(["int", "int", "slice", "slice", "list", "list", "array", "mask", "lmask"])
            if t == "int": o = {"t": t, "v": r.randrange(-n, n)}
            elif t == "slice":
                o = {"t": t, "v": [r.choice([None, 0, 1, -1, -2, r.randrange(-n - 1, n + 2)]), r.choice([None, n, -1, 1, r.randrange(-n - 1, n + 2)]),
                                   r.choice([None, None, 1, 2, -1, -2])]}
            elif t in ("list", "array"): o = {"t": t, "v": [r.randrange(-n, n) for _ in range(r.choice([0, 1, 1, 2, 2, 3]))]}
            else: o = {"t": t, "v": [r.random() < 0.4 for _ in range(n)]}
            if t == "array" and not o["v"]: continue
            if len(set(obj_positions(n, o))) < n: return o
        return {"t": "list", "v": []}
    def ins_obj(self, n, k, allow_scalar, valid=True):
        """-> (obj, number of inserted items required)"""
        r = self.rng
        if not valid:
            return r.choice([{"t": "int", "v": n + 1}, {"t": "int", "v": -n - 1}, {"t": "list", "v": [n + 1]}])
        t = r.choice(["int", "int", "list", "list", "list", "array", "slice", "mask"]) if allow_scalar else r.choice(["list", "list", "list", "array", "slice", "mask"])
        if t == "int": return {"t": t, "v": r.randrange(-n, n + 1)}
        cnt = 1 if r.random() < 0.4 else (k if k > 1 else r.choice([1, 2, 3]))
        if t in ("list", "array"):
            return {"t": t, "v": [r.randrange(-n, n + 1) for _ in range(cnt)]}
        if t == "mask":
            cnt = min(cnt, n)
            if cnt == 0: return {"t": "list", "v": [0]}
            pos = set(r.sample(range(n), cnt))
            return {"t": t, "v": [i in pos for i in range(n)]}
        cnt = min(cnt, n)
        if cnt == 0: return {"t": "list", "v": [0]}
        a = r.randrange(0, n - cnt + 1)
        return {"t": "slice", "v": [a if a or r.random() < 0.5 else None, a + cnt, None]}
    def idx_kind(self): return self.rng.choice(["list", "list", "array", "tuple"])
    def form(self, kind):
        C, r = self.C, self.rng
        a = r.choice(kind_axes(C, kind)); nd = len(C["ax"])
        return r.choice(["s", "g"]), (a if r.random() < 0.6 else a - nd)

    def allowed(self, S, kind):
        C = self.C
        ops = ["select", "delete", "insert", "adjoin", "concat", "append", "remove", "incorp"]
        if kind != "phase": ops += ["reorder", "sort", "lexsort"]
        if KINDS[kind]["meta"]: ops += ["group", "group", "ungroup"]
        if S.get("sumphase") is not None:
            ops = [o for o in ops if o not in ("insert", "adjoin", "concat", "append", "incorp")]
        if C.get("bv"):
            if kind != "taxa": return []
            if not S.get("unit", True): ops = [o for o in ops if o not in ("append", "incorp", "concat")]
        return ops

    def one_op(self, S, last):
        """-> op dict or None; S is the spec state of the current matrix"""
        C, r = self.C, self.rng
        C = CLASSES[S["cls"]]; self.C = C
        if C.get("phased") and r.random() < (0.25 if last else 0.06):
            return {"k": "genotype", "prot": r.choice(["unphased", "masked_phased", "masked_unphased"]), "invert": r.random() < 0.3}
        if not last and r.random() < 0.07:
            return {"k": "copy", "mode": r.choice(COPY_MODES)}
        if any(len(S["ents"][n_]) == 0 for n_ in free_names(C)): return None
        kinds = [k for k in C["lkinds"] if self.allowed(S, k)]
        if not kinds: return None
        kind = r.choice(kinds)
        k = r.choice(self.allowed(S, kind))
        valid = r.random() > 0.035
        intended = valid
        form, gax = self.form(kind)
        op = {"k": k, "ax": kind, "form": form, "gax": gax}
        n = len(S["ents"][kind])
        if not valid and r.random() < 0.3:
            nd = len(C["ax"]); op["form"] = "g"
            wrong = [a for a in range(-nd - 1, nd + 1) if not (-nd <= a < nd) or (a % nd) not in kind_axes(C, kind)]
            if C.get("bv"): wrong = [-nd - 1, nd]            # trait-axis operations of breeding-value matrices belong to C15 (scaling)
            op["gax"] = r.choice(wrong); op["badaxis"] = True; valid = True           # arguments below are valid, the axis is not
        if k == "select":
            op["idx"] = [r.randrange(-n, n) for _ in range(r.choice([1, 1, 2, 3, n, n + 1]))] if valid else [0, n]
            op["ik"] = self.idx_kind()
            if valid: op["ik"] = encode_ik(r, op["idx"], n, "select", op["ik"])
        elif k in ("delete", "remove"):
            op["obj"] = self.del_obj(n, valid)
            if valid: encode_obj(r, op["obj"], n, k)
        elif k in ("insert", "incorp"):
            if C["square"] and kind == "taxa":
                kk = r.choice([1, n, n, r.choice([1, 2, 3])])
            else:
                kk = r.choice([1, 1, 2, 2, 3])
            op["obj"] = self.ins_obj(n, kk, True, valid)         # scalar indices on every axis (inner axes: a repaired defect)
            if valid:
                pos, _ = insert_positions(n, op["obj"])
                if len(pos) > 1 and kk != 1: kk = len(pos)
                encode_obj(r, op["obj"], n, k)
            op["val"] = self.operand(S, kind, kk, valid or r.random() < 0.5)
        elif k in ("adjoin", "append"):
            op["val"] = self.operand(S, kind, r.choice([1, 1, 2, 3]), valid)
        elif k == "concat":
            op["vals"] = [self.operand(S, kind, r.choice([1, 2, 3]), valid, reuse_ok=False) for _ in range(r.choice([1, 1, 2]))]
            for m in op["vals"]: m["pass"] = "mat"
        elif k == "reorder":
            if not valid: op["idx"] = [0, n]
            elif r.random() < 0.75:
                p = list(range(n)); r.shuffle(p); op["idx"] = p
            else:
                op["idx"] = [r.randrange(-n, n) for _ in range(r.choice([1, n, n + 1]))]
            op["ik"] = r.choice(["array", "array", "list"])
            if valid: op["ik"] = encode_ik(r, op["idx"], n, "reorder", op["ik"])
        elif k in ("sort", "lexsort"):
            have = [f for f in KINDS[kind]["fields"] if S["lab"][f] is not None]
            if have and r.random() < 0.4:
                op["keys"] = [r.choice(have if r.random() < 0.85 else KINDS[kind]["fields"]) for _ in range(r.choice([1, 1, 2]))]
            else:
                op["keys"] = None
                if form == "s" and r.random() < 0.3: op["explicit_none"] = True
        op["_valid"] = intended
        return op

def rebase_like_impl(C, T, op):
    """spec state the implementation is known to continue from (only for the label-dropping class)"""
    if C.get("drop_other") and op["k"] in ("select", "delete", "insert", "adjoin", "concat"):
        U = _clone(T)
        for kk in C["kinds"]:
            if kk != op["ax"]:
                for f in KINDS[kk]["fields"]: U["lab"][f] = None
                if KINDS[kk]["meta"]: U["grouped"][kk] = False
        return U
    return T

def terminal_tag(C, op):
    if op["k"] in ("genotype", "copy"): return None
    kind = op["ax"]
    if C["square"] and kind == "taxa" and op["k"] in ("insert", "incorp", "concat"): return "sq-insert"
    return None
def is_terminal(C, op):
    return terminal_tag(C, op) is not None

def gen_history(rng, clsname, nops, tier):
    G = _Gen(rng, clsname, nops, tier)
    C = G.C
    init = G.init()
    case = {"cls": clsname, "init": init, "ops": []}
    if C.get("ploidy"): case["ploidy"] = rng.choice([1, 2, 2, 3, 4])
    S = spec_init(C, G.tab, init)
    if C.get("ploidy"): S["ploidy"] = case["ploidy"]
    for i in range(nops):
        Cc = CLASSES[S["cls"]]
        op = None
        for _ in range(12):
            cand = G.one_op(S, last=(i == nops - 1))
            if cand is None: break
            if cand["k"] != "genotype" and is_terminal(Cc, cand) and i != nops - 1 and rng.random() < 0.85: continue
            if cand.pop("_valid", True):
                try: spec_step(Cc, G.tab, S, cand)
                except Invalid: continue
            op = cand; break
        if op is None: break
        if Cc.get("bv") and not S.get("unit", True): op["nocp"] = True     # in-place append/incorp ignore location/scale (C15's subject)
        case["ops"].append(op)
        try:
            T, _ = spec_step(Cc, G.tab, S, op)
        except Invalid:
            break                                    # an invalid operation ends the history
        if is_terminal(Cc, op): break
        S = rebase_like_impl(Cc, T, op)
    case["tab"] = G.tab
    return case

def gen_geno_case(rng, nops):
    """grouped phased genotype matrix -> (masked) genotyping: the metadata of the masked result is the subject"""
    G = _Gen(rng, "DensePhasedGenotypeMatrix", nops, "quick")
    C = G.C
    nv = rng.choice([1, 2, 3, 4, 5, 6]); nt = rng.choice([1, 2, 3])
    ents = {"phase": list(range(rng.choice([1, 2, 3]))), "taxa": list(range(nt)), "vrnt": list(range(nv))}
    present = {f: rng.random() < 0.5 for f in fields_of(C)}
    present["vrnt_chrgrp"] = True; present["vrnt_phypos"] = rng.random() < 0.8; present["vrnt_mask"] = rng.random() < 0.85
    present["taxa_grp"] = rng.random() < 0.7
    for k in C["kinds"]: G.ensure(k, ents.get(k, []))
    mode = rng.random()
    if present["vrnt_mask"] and mode < 0.5:                     # mask out whole chromosomes / all / none
        dead = rng.choice([1, 2, 3, 0, -1])
        for e in ents["vrnt"]:
            lab = G.tab["vrnt"][str(e)]
            lab[8] = 1 if dead == 0 else (0 if dead == -1 else int(lab[0] != dead))
    init = {"ents": ents, "present": present}
    case = {"cls": "DensePhasedGenotypeMatrix", "init": init, "ops": []}
    S = spec_init(C, G.tab, init)
    ops = []
    if rng.random() < 0.3:
        p = list(range(nv)); rng.shuffle(p)
        ops.append({"k": "reorder", "ax": "vrnt", "form": "s", "gax": 2, "idx": p, "ik": "array"})
    if rng.random() < 0.9: ops.append({"k": "group", "ax": "vrnt", "form": rng.choice(["s", "g"]), "gax": rng.choice([2, -1])})
    if present["taxa_grp"] and rng.random() < 0.5: ops.append({"k": "group", "ax": "taxa", "form": rng.choice(["s", "g"]), "gax": rng.choice([1, -2])})
    if rng.random() < 0.25 and nt > 1:
        ops.append({"k": "remove", "ax": "taxa", "form": "s", "gax": 1, "obj": encode_obj(rng, {"t": "int", "v": rng.randrange(-nt, nt)}, nt, "remove")})
    ops.append({"k": "genotype", "prot": rng.choice(["masked_phased", "masked_unphased", "masked_phased", "masked_unphased", "unphased"]),
                "invert": rng.random() < 0.35})
    for op in ops:
        Cc = CLASSES[S["cls"]]
        case["ops"].append(op)
        try:
            S, _ = spec_step(Cc, G.tab, S, op)
        except Invalid:
            break
    # continue on the result with layout operations that keep the entities
    for _ in range(rng.choice([0, 0, 1, 2])):
        Cc = CLASSES[S["cls"]]
        G.C = Cc
        if any(len(S["ents"][n_]) == 0 for n_ in free_names(Cc)): break
        cand = G.one_op(S, last=False)
        if cand is None or cand["k"] == "genotype" or not cand.pop("_valid", True): break
        try:
            T, _ = spec_step(Cc, G.tab, S, cand)
        except Invalid:
            break
        case["ops"].append(cand); S = T
    case["tab"] = G.tab
    return case

def gen_cross_case(rng, clsname):
    """group one axis, then operate on the *other* labelled axes: the metadata and labels of the grouped axis must survive"""
    G = _Gen(rng, clsname, 5, "quick")
    C = G.C
    init = G.init()
    for f in init["present"]:
        if rng.random() < 0.8: init["present"][f] = True
    case = {"cls": clsname, "init": init, "ops": []}
    if C.get("ploidy"): case["ploidy"] = rng.choice([1, 2, 3, 4])
    S = spec_init(C, G.tab, init)
    if C.get("ploidy"): S["ploidy"] = case["ploidy"]
    gk = [k for k in C["lkinds"] if KINDS[k]["meta"] and init["present"].get(KINDS[k]["meta"])]
    rng.shuffle(gk)
    for k in gk[:rng.choice([1, 1, 2])]:
        a = rng.choice(kind_axes(C, k))
        op = {"k": "group", "ax": k, "form": rng.choice(["s", "g"]), "gax": a}
        try:
            S, _ = spec_step(C, G.tab, S, op)
        except Invalid:
            continue
        case["ops"].append(op)
    grouped = [k for k in C["lkinds"] if S["grouped"].get(k)]
    n = 0
    for _ in range(60):
        if n >= rng.choice([1, 2, 3]): break
        cand = G.one_op(S, last=False)
        if cand is None: break
        if cand["k"] == "genotype" or not cand.pop("_valid", True) or is_terminal(C, cand): continue
        if cand["k"] == "copy":
            case["ops"].append(cand); continue
        if grouped and cand["ax"] in grouped and rng.random() < 0.9: continue          # stay on the other axes
        if cand["k"] in ("group", "ungroup", "lexsort"): continue
        try:
            T, _ = spec_step(C, G.tab, S, cand)
        except Invalid:
            continue
        if C.get("bv") and not S.get("unit", True): cand["nocp"] = True
        case["ops"].append(cand); S = rebase_like_impl(C, T, cand); n += 1
    case["tab"] = G.tab
    return case

BIG = ["DenseTaxaMatrix", "DenseVariantMatrix", "DenseTaxaVariantMatrix", "DenseGenotypeMatrix", "DensePhasedGenotypeMatrix",
       "DensePhasedTaxaVariantMatrix"]
def gen_big_case(rng, clsname, force=None):
    """one labelled axis longer than a narrow integer type can count (129..300 entities; indices, group start/stop indices and
    group lengths beyond 127 and 255), the other axes of length 1..2: reorder / group, then select / delete / remove / sort with
    high and negative indices, or masked genotyping"""
    G = _Gen(rng, clsname, 4, "quick")
    C = G.C
    big = rng.choice([k for k in C["lkinds"] if k in ("taxa", "vrnt")])
    n = rng.choice([129, 130, 200, 257, 260, 300])
    if force:                                                 # masked genotyping of > 255 grouped variants, always present
        big = "vrnt"; n = rng.choice([257, 260, 300])
    ents = {}
    for nm in dict.fromkeys(free_names(C)):
        ents[nm] = list(range(n)) if nm == big else list(range(rng.choice([1, 1, 2])))
    present = {f: rng.random() < 0.6 for f in fields_of(C)}
    for f in KINDS[big]["fields"]: present[f] = rng.random() < 0.9
    present[KINDS[big]["meta"]] = True
    if big == "vrnt": present["vrnt_mask"] = True
    G.norigin = n // 64 + 1                                   # fresh operand entities above the initial ones
    for k in C["kinds"]: G.ensure(k, ents.get(k, []))
    # few groups, so that group lengths / start indices themselves pass 127 (and 255 for the longest axes)
    gi = KINDS[big]["fields"].index(KINDS[big]["meta"])
    ng = rng.choice([1, 2, 2, 3])
    for e in ents[big]: G.tab[big][str(e)][gi] = 1 + (rng.randrange(ng) if rng.random() < 0.9 else rng.randrange(3))
    init = {"ents": ents, "present": present}
    case = {"cls": clsname, "init": init, "ops": []}
    if C.get("ploidy"): case["ploidy"] = rng.choice([1, 2, 4])
    S = spec_init(C, G.tab, init)
    if C.get("ploidy"): S["ploidy"] = case["ploidy"]
    a = rng.choice(kind_axes(C, big)); nd = len(C["ax"])
    form = lambda: {"ax": big, "form": rng.choice(["s", "g"]), "gax": rng.choice([a, a - nd])}
    ops = []
    if rng.random() < 0.4:
        p = list(range(n)); rng.shuffle(p)
        ops.append(dict(form(), k="reorder", idx=p, ik="array"))
    if rng.random() < 0.85 or force: ops.append(dict(form(), k="group"))
    hi = lambda: rng.choice([n - 1, n - 2, 128, 127, -1, -n, rng.randrange(128, n), rng.randrange(-n, n)])
    t = rng.choice(["select", "delete", "remove", "sort", "lexsort", "copy", "adjoin", "append"] + (["genotype", "genotype"] if C.get("phased") and big == "vrnt" else []))
    if force: t = "genotype"
    if t == "select":
        idx = [hi() for _ in range(rng.choice([1, 3, 6]))]
        ops.append(dict(form(), k="select", idx=idx, ik=encode_ik(rng, idx, n, "select", rng.choice(["list", "array"]))))
    elif t in ("delete", "remove"):
        obj = rng.choice([{"t": "int", "v": hi()}, {"t": "list", "v": [hi() for _ in range(3)]}, {"t": "mask", "v": [rng.random() < 0.5 for _ in range(n)]},
                          {"t": "slice", "v": [rng.choice([None, 100, 130]), rng.choice([None, 256, -1]), rng.choice([None, 2, 3])]}])
        ops.append(dict(form(), k=t, obj=encode_obj(rng, obj, n, t)))
    elif t in ("sort", "lexsort"): ops.append(dict(form(), k=t, keys=None))
    elif t == "copy": ops.append({"k": "copy", "mode": rng.choice(COPY_MODES)})
    elif t in ("adjoin", "append"):
        ops.append(dict(form(), k=t, val=G.operand(S, big, rng.choice([1, 2]), True, reuse_ok=False)))
    else:
        ops.append({"k": "genotype", "prot": force or rng.choice(["masked_phased", "masked_unphased"]), "invert": rng.random() < 0.5})
    if rng.random() < 0.5 and t != "genotype": ops.append(dict(form(), k="group"))
    for op in ops:
        Cc = CLASSES[S["cls"]]
        if Cc.get("bv") and not S.get("unit", True): op["nocp"] = True
        case["ops"].append(op)
        try:
            S, _ = spec_step(Cc, G.tab, S, op)
        except Invalid:
            break
    case["tab"] = G.tab
    return case

def range_list(r, n, top):
    """an arithmetic progression (as a list) with values in [-n, top): ascending, descending down to 0 (the range's stop is -1),
    crossing zero, all negative, step 2 - the shapes on which a range differs from the slice with the same start/stop/step"""
    cand = [[a, a + 1] for a in range(0, top - 1)] + [[a + 1, a] for a in range(0, top - 1)] + [[a] for a in range(0, top)]
    if top >= 2: cand += [[1, 0]] * 3
    if n >= 1 and top >= 1: cand += [[-1, 0]] * 2
    if n >= 2: cand += [[-2, -1], [-1, -2]]
    if top >= 3: cand += [[0, 2], [2, 0]]
    return list(r.choice(cand))
ENC_SEGMENTS = [("scalar", 8), ("lists", 4), ("take", 3)]           # (segment, number of cases its encodings are dealt over)
def gen_enc_case(rng, clsname, kind, seg, part=0, nparts=1):
    """systematic sweep of index-argument ENCODINGS for one (class, axis kind): every axis has >= 2 entities and inserted blocks
    have 2, so an index that reaches numpy in another form than the plain Python value (a scalar not wrapped into a list moves
    axis 0 of the block, a narrow dtype overflows, a mask read as integers) changes cells, shape or raises.
    scalar: insert/incorp then delete/remove with the index as a numpy integer scalar of EVERY width (int8..uint64) and as a 0-d array
            of every width (both for insertion and deletion);
    lists : the same operations with tuple / range / list of numpy scalars / ndarray of every fitting dtype / numpy mask /
            Python list and tuple of bools;
    take  : select / reorder with ndarray of every dtype / tuple / range / list of numpy scalars.
    Operation of each pair (mutating or not) and form (axis-specific or generic, positive or negative axis) are drawn per step;
    run_impl additionally runs the other form and the counterpart of every step on rebuilt copies.
    The encodings of a segment are dealt over `nparts` short cases (a failing step ends the judgement of its history)."""
    G = _Gen(rng, clsname, 0, "quick")
    C = G.C; r = rng
    ents = {n: list(range(r.choice([2, 3]))) for n in dict.fromkeys(free_names(C))}
    full = r.random() < 0.7
    present = {f: (full or r.random() < 0.6) for f in fields_of(C)}
    for k in C["kinds"]: G.ensure(k, ents.get(k, []))
    init = {"ents": ents, "present": present}
    case = {"cls": clsname, "init": init, "ops": []}
    if C.get("ploidy"): case["ploidy"] = r.choice([1, 2, 4])
    S = spec_init(C, G.tab, init)
    if C.get("ploidy"): S["ploidy"] = case["ploidy"]
    sq = C["square"] and kind == "taxa"
    inner = min(kind_axes(C, kind)) > 0
    def n_(): return len(S["ents"][kind])
    def push(k_pair, **kw):
        """append one step (operation drawn from the pair) if the class allows it and the specification accepts it -> bool"""
        nonlocal S
        allowed = G.allowed(S, kind)
        ks = [k for k in k_pair if k in allowed]
        if not ks: return False
        form, gax = G.form(kind)
        op = dict({"k": r.choice(ks), "ax": kind, "form": form, "gax": gax}, **kw)
        if C.get("bv") and not S.get("unit", True): op["nocp"] = True
        try: T, _ = spec_step(C, G.tab, S, op)
        except Invalid: return False
        case["ops"].append(op); S = rebase_like_impl(C, T, op)
        return True
    def grow(obj, k):
        if sq: return push(("adjoin", "append"), val=G.operand(S, kind, k, True, reuse_ok=False))
        return push(("insert", "incorp"), obj=obj, val=G.operand(S, kind, k, True, reuse_ok=False))
    def sc(dt, hi, how="np"):
        lo = 0 if dt.startswith("u") else -n_()
        return {"t": "int", "v": r.randrange(lo, hi), "e": "%s:%s" % (how, dt)}
    def shrink_to(m):
        while n_() > m:
            if not push(("delete", "remove"), obj={"t": "int", "v": r.randrange(-n_(), n_())}): break
    if seg == "scalar":
        dts = list(INT_DTYPES); r.shuffle(dts)
        for i, dt in enumerate(INT_DTYPES):
            if i % nparts != part: continue
            grow(sc(dt, n_() + 1), 2)
            if n_() > 1: push(("delete", "remove"), obj=sc(dts[(i + 3) % 8], n_()))
            if n_() > 1: push(("delete", "remove"), obj=sc(dts[(i + 5) % 8], n_(), "0d" if i % 2 else "np"))
            if not sq:
                # a 0-d integer array (of every width over the parts) is a scalar index like the int; the history goes on after it
                # (repaired finding C03-zero-dim-index-insert-moveaxis: it used to reach numpy.insert unwrapped and moved axis 0 of the block)
                grow(sc(dts[(i + 1) % 8], n_() + 1, "0d"), 2)
                if n_() > 1: push(("delete", "remove"), obj=sc(dts[(i + 2) % 8], n_()))
    elif seg == "lists":
        kinds = ["tuple", "range", "nplist", "mask", "lmask", "ltuple"] + ["dt:" + d for d in INT_DTYPES] + ["range", "range"]
        kinds = kinds[part::nparts]; r.shuffle(kinds)
        for e in kinds:
            n = n_()
            # insertion
            if e in ("lmask", "ltuple"): pass                            # numpy.insert itself rejects Python sequences of bools
            elif e == "mask":
                pos = set(r.sample(range(n), min(n, 2)))
                grow({"t": "mask", "v": [i in pos for i in range(n)]}, len(pos))
            else:
                m = r.choice([1, 2])
                uns = e.startswith("dt:u")
                if uns: m = 1                                              # numpy.insert itself fails on longer unsigned index arrays
                v = [r.randrange(0 if uns else -n, n + 1) for _ in range(m)]
                if e == "range": v = range_list(r, n, n + 1)
                o = {"t": "list", "v": v, "e": e}
                if e.startswith("dt:"): o["t"] = "array"
                if e == "nplist": o["e"] = _nplist_enc(r, fitting_dtypes(v, n, signed_only=(len(v) != 1)))
                grow(o, 2 if len(v) == 1 else len(v))
            # deletion
            n = n_()
            if n < 2: continue
            if e in ("mask", "lmask", "ltuple"):
                pos = set(r.sample(range(n), r.choice([1, 1, max(1, n - 2)])))
                o = {"t": "mask" if e == "mask" else "lmask", "v": [i in pos for i in range(n)]}
                if e == "ltuple": o["e"] = "tuple"
            else:
                uns = e.startswith("dt:u")
                v = [r.randrange(0 if uns else -n, n) for _ in range(r.choice([1, 2, 2]))]
                if e == "range": v = range_list(r, n, n)
                if len(set(x % n for x in v)) >= n: v = v[:1]
                o = {"t": "list", "v": v, "e": e}
                if e.startswith("dt:"): o["t"] = "array"
                if e == "nplist": o["e"] = _nplist_enc(r, fitting_dtypes(v, n))
            push(("delete", "remove"), obj=o)
            shrink_to(4)
    else:
        iks = ["tuple", "range", "nplist"] + ["array:" + d for d in INT_DTYPES]
        iks = iks[part::nparts]; r.shuffle(iks)
        for ik in iks:
            n = n_()
            uns = ik.startswith("array:u")
            for opn in ("select", "reorder"):
                n = n_()
                if opn == "reorder":
                    if kind == "phase" or ik == "tuple": continue         # reorder documents an ndarray; `arr[tuple]` is a multi-axis index
                    idx = list(range(n)); r.shuffle(idx)
                    if not uns and r.random() < 0.5: idx = [i - n if r.random() < 0.4 else i for i in idx]
                    if ik == "range": idx = list(range(n - 1, -1, -1)) if n > 1 else [0]
                else:
                    idx = [r.randrange(0 if uns else -n, n) for _ in range(r.choice([n, n, n + 1, max(2, n - 1)]))]
                    if ik == "range": idx = r.choice([range_list(r, n, n), list(range(n)), list(range(n - 1, -1, -1)), list(range(-n, 0))])
                ikk = _nplist_enc(r, fitting_dtypes(idx, n)) if ik == "nplist" else ik
                push((opn,), idx=idx, ik=ikk)
            shrink_to(4)
    case["tab"] = G.tab
    return case

CROSS = ["DenseTaxaVariantMatrix", "DensePhasedTaxaVariantMatrix", "DenseTaxaTraitMatrix", "DenseSquareTaxaTraitMatrix",
         "DenseGenotypeMatrix", "DensePhasedGenotypeMatrix"]

def gen_cases(rng, tier):
    cases = []
    per = 60 if tier == "quick" else 300
    maxops = 12 if tier == "quick" else 40
    for cn in CLS_ORDER:
        for j in range(per):
            nops = rng.choice([1, 2, 3, 4, 6, 8, maxops]) if j % 3 else rng.randint(1, maxops)
            cases.append(gen_history(rng, cn, nops, tier))
    for j in range(30 if tier == "quick" else 400):
        cases.append(gen_geno_case(rng, 4))
    for cn in CROSS:
        for j in range(16 if tier == "quick" else 150):
            cases.append(gen_cross_case(rng, cn))
    for cn in BIG:
        for j in range(3 if tier == "quick" else 20):
            cases.append(gen_big_case(rng, cn))
    for j in range(2 if tier == "quick" else 12):
        for prot in ("masked_phased", "masked_unphased"):
            cases.append(gen_big_case(rng, "DensePhasedGenotypeMatrix", force=prot))
    # systematic sweep of index-argument encodings: every class x labelled axis kind x segment
    for j in range(1 if tier == "quick" else 6):
        for cn in CLS_ORDER:
            Cn = CLASSES[cn]
            for kind in Cn["lkinds"]:
                if Cn.get("bv") and kind != "taxa": continue          # trait-axis operations of breeding-value matrices: C15
                for seg, nparts in ENC_SEGMENTS:
                    for part in range(nparts):
                        cases.append(gen_enc_case(rng, cn, kind, seg, part, nparts))
    audit_entry_points()
    return cases

# ----------------------------------------------------------------------------------------------- entry-point audit (fail closed)
OPS_ALL = ["adjoin", "delete", "insert", "select", "concat", "append", "remove", "incorp", "lexsort", "reorder", "sort", "group", "ungroup", "is_grouped"]
# parameters every form of an operation is driven with (label keywords of the kind are added below; `axis` for the generic form)
OP_PARAMS = {"adjoin": ["values"], "append": ["values"], "insert": ["obj", "values"], "incorp": ["obj", "values"], "delete": ["obj"], "remove": ["obj"],
             "select": ["indices"], "reorder": ["indices"], "concat": ["mats"], "lexsort": ["keys"], "sort": ["keys"], "group": [], "ungroup": [], "is_grouped": []}
HAS_LABEL_KW = ("adjoin", "append", "insert", "incorp")
# public members of the anchored classes that are observed by snap() or used to build / copy objects
OBSERVED = {"mat", "mat_shape", "mat_ndim", "ntaxa", "nvrnt", "ntrait", "nphase", "ploidy", "copy", "deepcopy", "unscale", "location", "scale",
            "taxa_axis", "vrnt_axis", "trait_axis", "phase_axis", "square_axes", "square_taxa_axes"} | set(TFIELDS) | set(VFIELDS) | {"trait"} | \
           {m + "_" + s_ for m in ("taxa_grp", "vrnt_chrgrp") for s_ in MSUF}
SKIPPED = {
    # name: reason (not a structural operation of the property statement; covered elsewhere)
    "acount": "allele statistics: C09", "afixed": "C09", "afreq": "C09", "apoly": "C09", "gtcount": "C09", "gtfreq": "C09", "maf": "C09", "meh": "C09",
    "tacount": "C09", "tafreq": "C09", "mat_asformat": "format conversion (C09); used by the genotyping protocols, whose results are observed",
    "mat_format": "C09", "from_vcf": "file input: C16", "from_hdf5": "C16", "to_hdf5": "C16", "from_csv": "C16", "to_csv": "C16", "from_pandas": "C16",
    "to_pandas": "C16", "from_numpy": "scaling constructor: C15", "interp_genpos": "genetic map interpolation: C11", "interp_xoprob": "C11",
    "apply_jitter": "numerical conditioning of coancestry matrices: C13", "coancestry": "C13", "kinship": "C13", "inverse": "C13", "from_gmat": "C13",
    "is_positive_semidefinite": "C13", "max_inbreeding": "C13", "min_inbreeding": "C13", "max": "C13", "min": "C13", "mean": "C13",
    "targmax": "trait statistics of breeding values: C15", "targmin": "C15", "tmax": "C15", "tmean": "C15", "tmin": "C15", "trange": "C15",
    "tstd": "C15", "tvar": "C15", "is_square": "shape predicate, no labels involved", "is_square_taxa": "shape predicate, no labels involved",
    "nsquare": "constant of the class", "nsquare_taxa": "constant of the class", "square_axes_len": "derived from mat_shape (observed)",
    "square_taxa_axes_len": "derived from mat_shape (observed)",
}
_AUDITED = []
def audit_entry_points():
    """every public member of the 13 matrix classes and the 3 genotyping protocols is either driven by the generators /
    observed by snap(), or listed in SKIPPED with a reason; every parameter of a driven method is one the generators supply.
    A new class member or parameter makes the check fail until it is classified."""
    if _AUDITED: return
    import inspect, importlib
    problems = []
    for cn, C in CLASSES.items():
        cls = pycls(C)
        kinds_of = {"taxa": "taxa", "vrnt": "vrnt", "trait": "trait", "phase": "phase"}
        for n, v in inspect.getmembers(cls):
            if n.startswith("_"): continue
            base, _, suf = n.rpartition("_")
            op, kind = (base, suf) if (base in OPS_ALL and suf in kinds_of) else ((n, None) if n in OPS_ALL else (None, None))
            if op is None:
                if n not in OBSERVED and n not in SKIPPED:
                    problems.append("%s.%s: public member neither driven/observed nor listed in SKIPPED" % (cn, n))
                continue
            if kind is not None and kind not in C["kinds"]:
                problems.append("%s.%s: operation on an axis kind the class table does not give this class" % (cn, n)); continue
            if kind is None and not callable(v): continue
            allowed = set(OP_PARAMS[op]) | {"self", "kwargs"}
            if kind is None: allowed |= {"axis"}
            if op in HAS_LABEL_KW:
                for k2 in (C["kinds"] if kind is None else [kind]): allowed |= set(KINDS[k2]["fields"])
                # overriding methods of multi-axis classes hand the labels of the other axes through as keywords
                for k2 in C["kinds"]: allowed |= set(KINDS[k2]["fields"])
            try:
                params = set(inspect.signature(v).parameters)
            except (TypeError, ValueError):
                problems.append("%s.%s: no signature" % (cn, n)); continue
            extra = params - allowed
            if extra: problems.append("%s.%s: parameter(s) %s are not supplied by the generators" % (cn, n, sorted(extra)))
            missing = set(OP_PARAMS[op]) - params
            if missing: problems.append("%s.%s: expected parameter(s) %s" % (cn, n, sorted(missing)))
        # every operation x labelled kind of the class table exists
        for k2 in C["lkinds"]:
            for op in ["adjoin", "delete", "insert", "select", "concat", "append", "remove", "incorp"] + \
                      ([] if k2 == "phase" else ["lexsort", "reorder", "sort"]) + (["group", "ungroup", "is_grouped"] if KINDS[k2]["meta"] else []):
                if not callable(getattr(cls, "%s_%s" % (op, k2), None)): problems.append("%s: no method %s_%s" % (cn, op, k2))
    for modn, cn, params in (("pybrops.breed.prot.gt.DenseUnphasedGenotyping", "DenseUnphasedGenotyping", set()),
                             ("pybrops.breed.prot.gt.DenseMaskedPhasedGenotyping", "DenseMaskedPhasedGenotyping", {"invert"}),
                             ("pybrops.breed.prot.gt.DenseMaskedUnphasedGenotyping", "DenseMaskedUnphasedGenotyping", {"invert"})):
        mod = importlib.import_module(modn)
        pub = [n for n, v in inspect.getmembers(mod, inspect.isclass) if v.__module__ == modn]
        if pub != [cn]: problems.append("%s: classes %s (expected [%s])" % (modn, pub, cn))
        cls = getattr(mod, cn)
        got = set(inspect.signature(cls.__init__).parameters) - {"self", "kwargs"}
        if got != params: problems.append("%s.__init__: parameters %s (driven: %s)" % (cn, sorted(got), sorted(params)))
        got = set(inspect.signature(cls.genotype).parameters) - {"self", "kwargs"}
        if got != {"pgmat", "miscout"}: problems.append("%s.genotype: parameters %s" % (cn, sorted(got)))
        for n, v in inspect.getmembers(cls):
            if not n.startswith("_") and n not in ("genotype", "invert"): problems.append("%s.%s: unclassified public member" % (cn, n))
    # every anchored module defines exactly the class the table drives (or is listed here)
    for C in CLASSES.values():
        mod = importlib.import_module(C["mod"])
        pub = [n for n, v in inspect.getmembers(mod, inspect.isclass) if v.__module__ == C["mod"]]
        if C["pyname"] not in pub: problems.append("%s: class %s not defined there" % (C["mod"], C["pyname"]))
        for n in pub:
            if n != C["pyname"]: problems.append("%s: additional public class %s" % (C["mod"], n))
        fns = [n for n, v in inspect.getmembers(mod, inspect.isfunction) if v.__module__ == C["mod"] and not n.startswith("_")]
        for n in fns:
            if not (n.startswith("check_") or n.startswith("is_")): problems.append("%s: unclassified public function %s" % (C["mod"], n))
    mod = importlib.import_module("pybrops.popgen.cmat.DenseCoancestryMatrix")
    if "DenseCoancestryMatrix" not in dir(mod): problems.append("DenseCoancestryMatrix missing")
    if problems:
        raise AssertionError("C03 entry-point audit (classify in harness/props/c03.py: generators, OBSERVED or SKIPPED): " + "; ".join(problems[:12]))
    _AUDITED.append(True)

def search_cases(rng):
    return gen_cases(rng, "thorough")

def nontrivial(case, out):
    """>= 2 operations, at least one of which changes the entity list of an axis carrying >= 2 distinct labels"""
    if "steps" not in out or len(out["steps"]) < 2: return False
    prev = out["init"]
    hit = False
    for rec in out["steps"]:
        m = rec["main"]
        if "exc" in m: break
        for f in fields_of(CLASSES[case["cls"]]):
            a, b = prev.get(f), m.get(f)
            if a is not None and b is not None and a != b and len(set(map(str, a))) >= 2: hit = True
        prev = m
    return hit

def describe(case, out):
    ops = case["ops"]
    steps = out.get("steps", []) if isinstance(out, dict) else []
    d = {"class": case["cls"], "nops": len(ops) if len(ops) < 6 else ("6-12" if len(ops) <= 12 else "13-40"),
         "raised": any("exc" in r["main"] for r in steps),
         "min_axis_len": min(out["init"]["shape"]) if "init" in out else "?",
         "absent_arrays": sum(1 for f, v in case["init"]["present"].items() if not v) > 0,
         "first_op": ops[0]["k"] if ops else "none",
         "last_op": ("%s/%s" % (ops[-1]["k"], ops[-1].get("form", "-"))) if ops else "none",
         "idx_kinds": ",".join(sorted({o["obj"]["t"] for o in ops if "obj" in o})) or "-",
         "idx_encodings": ",".join(sorted({str(o["obj"].get("e", "plain")).split(":")[0] for o in ops if "obj" in o} |
                                          {str(o["ik"]).split(":")[0] for o in ops if "ik" in o})) or "-",
         "error_kind": next((r["main"]["exc"] for r in steps if "exc" in r["main"]), "none")}
    return d

# ----------------------------------------------------------------------------------------------- Coq emission
class EmitError(Exception):
    pass
def _zl(l):
    return E.lst(l, E.z)
def _tensor(nest, nd):
    def chk(x):
        if isinstance(x, list):
            for y in x: chk(y)
        elif not isinstance(x, int): raise EmitError("non-integer cell %r" % (x,))
    chk(nest)
    if nd == 1: return "(T1 %s)" % E.lst(nest, E.z)
    if nd == 2: return "(T2 %s)" % E.lst2(nest, E.z)
    if nd == 3: return "(T3 %s)" % E.lst3(nest, E.z)
    raise EmitError("ndim %d" % nd)
def _larr(codes):
    if codes is None: return "None"
    for c in codes:
        if c is not None and (not isinstance(c, int) or c < 0): raise EmitError("label code %r" % (c,))
    return "(Some (L %s))" % _zl([-1 if c is None else c for c in codes])
def _ozl(l):
    return "None" if l is None else "(Some %s)" % _zl(l)
def _axes(C, st):
    out = []
    for k in C["lkinds"]:
        labs = E.lst([st.get(f) for f in KINDS[k]["fields"]], _larr)
        m = KINDS[k]["meta"]
        meta = " ".join(_ozl(st.get(m + "_" + s)) if m else "None" for s in MSUF)
        out.append("(mkax %s %s)" % (labs, meta))
    return "[" + "; ".join(out) + "]"
def _st(C, st):
    return "(mkst %s %s %s)" % (E.lst(st["shape"], E.nat), _tensor(st["mat"], len(st["shape"])), _axes(C, st))
def _obj(o):
    t, v = o["t"], o["v"]
    if t == "int": return "(OInt %s)" % E.z(v)
    if t == "slice": return "(OSlice %s %s %s)" % tuple(E.opt(x, E.z) for x in v)
    if t in ("list", "array"): return "(OList %s)" % _zl(v)
    if t in ("mask", "lmask"): return "(OMask %s)" % E.lst(v, E.b)
    raise EmitError(t)
def _operand(C, tab, opd, kind, tkind=None):
    """kind: the kind the keyword labels are named after; tkind: the kind of the axis the call really addresses (generic form
    with a foreign axis): keywords of another kind are swallowed by **kwargs there, so the addressed kind gets none"""
    st = spec_to_state(C, tab, opd)
    if tkind is not None and tkind != kind:
        kw = [None for f in KINDS[tkind]["fields"]] if tkind in KINDS else []
    else:
        kw = [st[f] if opd["pass"] == "kw" else
              (labels_from_table(tab, kind, f, opd["over"][f]) if opd["pass"] == "mat" and f in (opd.get("over") or {}) else None)
              for f in KINDS[kind]["fields"]]
    return "(mkopd %s %s %s %s %s)" % (E.lst(st["shape"], E.nat), _tensor(st["mat"], len(st["shape"])), _axes(C, st),
                                        E.b(opd["pass"] == "mat"), E.lst(kw, _larr))
def _hop(C, tab, op, prev):
    k = op["k"]
    if k == "genotype":
        p = {"unphased": "GUnphased", "masked_phased": "(GMaskedPhased %s)" % E.b(op["invert"]),
             "masked_unphased": "(GMaskedUnphased %s)" % E.b(op["invert"])}[op["prot"]]
        return "(HGeno %s)" % p
    kind = op["ax"]
    form = "(Specific %s)" % E.nat(C["lkinds"].index(kind)) if op["form"] == "s" else "(Generic %s)" % E.z(op["gax"])
    tkind = None
    if op["form"] != "s":
        nd = len(C["ax"]); g = op["gax"]
        if -nd <= g < nd: tkind = C["ax"][g % nd]
    keys = lambda: "None" if op.get("keys") is None else "(Some %s)" % E.lst([prev.get(f) for f in op["keys"]], _larr)
    if k == "lexsort": return "(HLex %s %s)" % (form, keys())
    if k == "select": o = "(Select %s)" % _zl(op["idx"])
    elif k == "reorder": o = "(Reorder %s)" % _zl(op["idx"])
    elif k == "delete": o = "(Delete %s)" % _obj(op["obj"])
    elif k == "remove": o = "(Remove %s)" % _obj(op["obj"])
    elif k == "insert": o = "(Insert %s %s)" % (_obj(op["obj"]), _operand(C, tab, op["val"], kind, tkind))
    elif k == "incorp": o = "(Incorp %s %s)" % (_obj(op["obj"]), _operand(C, tab, op["val"], kind, tkind))
    elif k == "adjoin": o = "(Adjoin %s)" % _operand(C, tab, op["val"], kind, tkind)
    elif k == "append": o = "(Append %s)" % _operand(C, tab, op["val"], kind, tkind)
    elif k == "concat": o = "(Concat %s)" % E.lst(op["vals"], lambda m: _operand(C, tab, m, kind, tkind))
    elif k == "sort": o = "(Sort %s)" % keys()
    elif k == "group": o = "Group"
    elif k == "ungroup": o = "Ungroup"
    else: raise EmitError(k)
    return "(HOp %s %s)" % (form, o)
def _obs(C, rec):
    m = rec["main"]
    g = E.lst(m["gen_is_grouped"], lambda x: "(Some %s)" % E.b(x) if isinstance(x, bool) else "None")
    ret = "None" if "ret" not in rec else "(Some %s)" % _zl(rec["ret"])
    return "(%s, %s, %s)" % (_st(C, m), ret, g)

def translate(repo, gen_dir):
    """regenerate the two source tables and the kernel expressions (fail closed: exceptions propagate to check.py)"""
    from translate import c03_dispatch, c03_metareset, c03_kernel
    return [c03_dispatch.translate(repo, gen_dir), c03_metareset.translate(repo, gen_dir), c03_kernel.translate(repo, gen_dir)]

def emit_case(case, out):
    if "exc" in out:
        return "false"
    C = CLASSES[case["cls"]]; tab = case["tab"]
    try:
        init = _st(C, out["init"])
        hops, obs = [], []
        raised = False
        Cc = C
        prev = out["init"]
        for op, rec in zip(case["ops"], out["steps"]):
            if op["k"] == "copy":
                # the model has no copy step: a copy is the identity on the observable state, so the next model step starts
                # from the state before the copy; a copy that raises or alters the state shows up here / in the next step
                if "exc" in rec["main"] or diff_snap(prev, rec["main"]): return "false"
                continue
            hops.append(_hop(Cc, tab, op, prev))
            if "exc" in rec["main"]:
                raised = True; break
            if op["k"] == "genotype":
                Cc = CLASSES["DensePhasedGenotypeMatrix" if op["prot"] == "masked_phased" else "DenseGenotypeMatrix"]
            obs.append(_obs(Cc, rec))
            prev = rec["main"]
    except EmitError:
        return "false"
    return "(agree c%s %s\n  [%s]\n  [%s] %s)" % (case["cls"], init, ";\n   ".join(hops), ";\n   ".join(obs), E.b(raised))
