"""C11 — genetic maps and map functions: correspondence between Model/C11_Map.v + Model/C11_MapFn.v and
StandardGeneticMap / ExtendedGeneticMap / HaldaneMapFunction / KosambiMapFunction /
DenseGeneticMappableMatrix.interp_genpos / interp_xoprob (through DenseGenotypeMatrix and DensePhasedGenotypeMatrix; single calls and
sessions of several calls on one matrix object, Model/C11_Session.v) / util.cM2d,
plus the independent predicate."""
import math, warnings, copy
from fractions import Fraction
import numpy
import coqemit as E

ID = "C11"
PROPS = "Props/C11.v"
IMPORTS = ("From Coq Require Import PrimFloat.\n"
           "From PV Require Import Lib.Common Model.C11_Map Model.C11_MapFn Model.C11_Check.")
SHARD = 18
LEVEL_TEXT = ("Coq theorems: over R, Haldane and Kosambi map 0 to 0, [0,inf) into [0,1/2), are strictly increasing, tend to 1/2 "
              "and are undone by their inverses (both directions); over an exact-rational executable model of both genetic-map classes: "
              "the constructor's stable sort is a sorted permutation and its result does not depend on the row order (no duplicated position), "
              "the spline does not depend on the array order either (auto_group=False), "
              "pairwise distances are symmetric, zero on the diagonal, non-negative, additive for ordered markers, infinite between chromosomes, "
              "sequential distances agree with the pairwise ones and are infinite at chromosome starts, interpolation is exact at "
              "the map's own markers (also proved bit-for-bit in binary64 through Flocq for all finite positions and knot gaps <= 2^53), "
              "equals the chord between the flanking markers, continues the end chords outside, is order-preserving for congruent maps, is "
              "missing (NaN) off the map, and crossover probabilities are the map function of consecutive interpolated gaps with "
              "1/2 at chromosome starts; the map returned by interp_gmap carries no grouping of its source and the grouping it computes "
              "on first use describes its own markers (every query); after remove_discrepancies/select/remove the reduced map is well-formed "
              "and interpolation is at once exact at the remaining markers, on the chord between consecutive remaining markers and "
              "order-preserving once congruent (every well-formed map keeping two markers per chromosome); two regression witnesses about "
              "the former code (old_interp_gmap copied stale group metadata; old_rd_interp_pos kept the old spline), both defects repaired; "
              "after ANY selection of markers (select/remove/prune) keeping two per chromosome the map is well-formed and interpolation is exact "
              "at the remaining markers and on their chords; interpolation is covariant under scaling of the genetic positions and invariant "
              "under a common translation of physical positions and query; sequential distances of a window of a query are those of the sliced "
              "query; in a session on one variant matrix (any state carried from the constructor, any earlier calls) interp_xoprob stores exactly the generated "
              "kernel expression of the map and map function given to that call, interp_genpos the positions of its map (vrnt_xoprob untouched), "
              "after every call of any session. The kernel expressions and call shapes on which these theorems turn (bodies of mapfn/invmapfn, 0.01 factor, default sort keys, "
              "group metadata, congruence comparison, spline mask/knots/assume_sorted, KeyError -> NaN, operand order of the sequential "
              "difference, |gi-gj| and the inf mask, row/column slice bounds, call shapes of gdist1p/gdist2p/rprob*/interp_xoprob) are regenerated "
              "from the source of both map classes on every run (Gen/C11_Kernel.v), proved equal to the model (Proofs/C11_Kernel.v) and the laws "
              "are restated about the generated definitions. "
              "The model is tied to the code by evaluating it inside Coq on generated maps/queries "
              "against the implementation's outputs: exact rationals on dyadic grids, bit-for-bit binary64 (PrimFloat model of "
              "scipy's interp1d arithmetic) everywhere, and Coq-Interval enclosures (proved sound) within 2^-45 for map-function values")
LEVEL_NOTE = ("trusted: Coq kernel + vm_compute, PrimFloat primitives, classical reals, Coq-Interval's verified interval arithmetic; "
              "scipy.interpolate.interp1d._call_linear is modelled (searchsorted-left, clip(1,n-1), barycentric form) and compared bit for bit, "
              "its internal mergesort of already sorted knots is taken as the identity; numpy exp/log/tanh/arctanh compared within 2^-45 "
              "of the real function; gdist1g is modelled on chromosome-sorted input (its documented precondition); "
              "theorems are about the Gallina model; the tie to the code is (a) the kernel translator harness/translate/c11_kernel.py (trusted, "
              "fail closed: expressions located by function and selector, statement shapes checked structurally) and (b) differential on "
              "generated inputs; text round trips (csv/egmap) are compared within a few ulp (pandas' float parser), prune() only as a "
              "selection of markers (which markers it keeps is not specified by the property)")
TECHNIQUE = "Coq proof (reals + exact rationals) over an executable model; in-Coq vm_compute correspondence (exact, PrimFloat bit-exact, Interval enclosures)"
RULE = ("case kinds: mapfn (a vector of distances incl. 0, denormals, grid points, large values, +inf and a vector of probabilities incl. 0 and "
        "values next to 1/2, for one map function), gmap (class Standard|Extended, units M|cM, 1-4 chromosomes with 2-6 markers each, "
        "rows shuffled + a second shuffle, congruent or not, ties in genetic position, dyadic 'grid' maps with power-of-two physical gaps "
        "or generic maps, query markers on/off the map, at knots, between knots and outside the range, python slices for the distance "
        "methods, genotype matrix unphased|phased with Haldane|Kosambi; every map is also built from a second shuffle and with auto_group=False), "
        "igmap (interp_gmap result re-used as a map: dump before and after its first use, congruence, interpolation), rmdisc (non-congruent "
        "grid map reduced by remove_discrepancies and, separately, by remove(flagged indices); queried at removed markers, at and between "
        "remaining markers, outside and on an absent chromosome, right after the reduction and after build_spline), select (grid map reduced by "
        "select(index array | mask), remove(index array | slice) or ExtendedGeneticMap.prune(nt | M | both); an earlier deep copy must not follow), "
        "wide (130-300 markers per chromosome, labels beyond int8/int16, a discordant marker and a removal beyond index 255), audit (introspection "
        "of the anchored modules against the ENTRY_POINTS / SKIPPED tables), gmsess (a SESSION on ONE DenseGenotypeMatrix | DensePhasedGenotypeMatrix "
        "object constructed without / with vrnt_genpos / with vrnt_genpos and vrnt_xoprob: 2-5 calls of interp_genpos(map) | interp_xoprob(map, fn) with "
        "map A (std|ext), another map B on the same chromosomes with other positions (perhaps a chromosome less / one more), Haldane | Kosambi objects "
        "shared by the whole session, the same map object after select(idx|mask) / remove / remove_discrepancies / prune / vrnt_genpos setter (array | "
        "tuple form, scaled and translated) + build_spline, on the object or on a deep copy taken in between; after EVERY call the stored vrnt_genpos / "
        "vrnt_xoprob are compared with the model of the map as it is at that call (exact, bit-for-bit, interval enclosures) and, by the predicate, with "
        "exact interpolation between the flanking markers of the map given to that call and its map function); every gmap case also obtains its map through the library's own "
        "routes (DataFrame / csv / egmap round trips with default and custom columns, property setters, ungroup+group, reorder, sort, select-all, "
        "remove-none on copies) and probes aliasing (in-place writes into results, into copies' arrays and spline dictionaries and into the map "
        "returned by interp_gmap must not reach the map); grid maps carry genetic scales 2^-40..2^10 and physical offsets up to 2^40; non-trivial = "
        "gmap with >= 2 chromosomes, a query marker strictly between two knots, one outside the knot range and one on an absent "
        "chromosome, or mapfn with >= 6 finite distances; distinct by SHA-256 of the case")
TRUSTED = ["harness/translate/c11_kernel.py + translate/pyexpr.py + kernelkit.py (kernel translator, fail closed)",
           "scipy interp1d(kind='linear', fill_value='extrapolate') evaluates _call_linear as modelled (compared bit for bit on every case)",
           "numpy.lexsort is a stable lexicographic sort; numpy.unique on a sorted array yields the runs",
           "numpy exp/log/tanh/arctanh are within 2^-45 (absolute, resp. relative to 1+|d|) of the real functions on the generated points",
           "Python's own float arithmetic (IEEE-754 binary64) is used by the independent predicate as oracle"]
ASSUMPTIONS = ["every chromosome of a map has at least two markers and no duplicated physical position; genetic positions finite",
               "arrays passed to gdist1g/gdist1p are sorted by chromosome (documented precondition)",
               "integer physical positions below 2^53"]

# ----------------------------------------------------------------------------------------------- helpers
def fx(x):
    x = float(x)
    if math.isnan(x): return "nan"
    if math.isinf(x): return "inf" if x > 0 else "-inf"
    return x.hex()
def xf(s):
    if s == "nan": return math.nan
    if s == "inf": return math.inf
    if s == "-inf": return -math.inf
    return float.fromhex(s)
def fxl(a): return [fx(v) for v in numpy.asarray(a, dtype=float).ravel()]
def fxll(a): return [[fx(v) for v in r] for r in numpy.asarray(a, dtype=float)]
def il(a): return None if a is None else [int(v) for v in a]

# ----------------------------------------------------------------------------------------------- entry-point audit
ANCHORED = ["pybrops.popgen.gmap.StandardGeneticMap", "pybrops.popgen.gmap.ExtendedGeneticMap", "pybrops.popgen.gmap.HaldaneMapFunction",
            "pybrops.popgen.gmap.KosambiMapFunction", "pybrops.popgen.gmap.DenseGeneticMappableMatrix", "pybrops.popgen.gmap.util"]
# every public class / function / method / property defined in the anchored modules, with its parameter names, as classified when
# this module was written: the `audit` case re-enumerates them by introspection on every run; a name or parameter that is not in
# this table (or one that disappeared) is reported as a violation until it is classified here (covered by a driver, or SKIPPED)
ENTRY_POINTS = {'DenseGeneticMappableMatrix.__init__': 'self mat vrnt_chrgrp vrnt_phypos vrnt_name vrnt_genpos vrnt_xoprob vrnt_hapgrp vrnt_hapalt vrnt_hapref vrnt_mask kwargs',
 'DenseGeneticMappableMatrix.interp_genpos': 'self gmap kwargs',
 'DenseGeneticMappableMatrix.interp_xoprob': 'self gmap gmapfn kwargs',
 'ExtendedGeneticMap.__copy__': 'self',
 'ExtendedGeneticMap.__deepcopy__': 'self memo',
 'ExtendedGeneticMap.__init__': 'self vrnt_chrgrp vrnt_phypos vrnt_stop vrnt_genpos vrnt_name vrnt_fncode spline spline_kind spline_fill_value vrnt_genpos_units auto_group auto_build_spline kwargs',
 'ExtendedGeneticMap.__len__': 'self',
 'ExtendedGeneticMap.build_spline': 'self kind fill_value kwargs',
 'ExtendedGeneticMap.congruence': 'self',
 'ExtendedGeneticMap.copy': 'self',
 'ExtendedGeneticMap.deepcopy': 'self memo',
 'ExtendedGeneticMap.from_csv': 'cls filename sep header vrnt_chrgrp_col vrnt_phypos_col vrnt_stop_col vrnt_genpos_col vrnt_name_col vrnt_fncode_col spline spline_kind spline_fill_value '
                                'vrnt_genpos_units auto_group auto_build_spline kwargs',
 'ExtendedGeneticMap.from_egmap': 'cls filename spline spline_kind spline_fill_value auto_group auto_build_spline',
 'ExtendedGeneticMap.from_pandas': 'cls df vrnt_chrgrp_col vrnt_phypos_col vrnt_stop_col vrnt_genpos_col vrnt_name_col vrnt_fncode_col spline spline_kind spline_fill_value vrnt_genpos_units '
                                   'auto_group auto_build_spline kwargs',
 'ExtendedGeneticMap.gdist1g': 'self vrnt_chrgrp vrnt_genpos ast asp',
 'ExtendedGeneticMap.gdist1p': 'self vrnt_chrgrp vrnt_phypos ast asp',
 'ExtendedGeneticMap.gdist2g': 'self vrnt_chrgrp vrnt_genpos rst rsp cst csp',
 'ExtendedGeneticMap.gdist2p': 'self vrnt_chrgrp vrnt_phypos rst rsp cst csp',
 'ExtendedGeneticMap.group': 'self kwargs',
 'ExtendedGeneticMap.has_spline': 'self',
 'ExtendedGeneticMap.interp_genpos': 'self vrnt_chrgrp vrnt_phypos',
 'ExtendedGeneticMap.interp_gmap': 'self vrnt_chrgrp vrnt_phypos vrnt_stop vrnt_name vrnt_fncode kwargs',
 'ExtendedGeneticMap.is_congruent': 'self',
 'ExtendedGeneticMap.is_grouped': 'self',
 'ExtendedGeneticMap.lexsort': 'self keys kwargs',
 'ExtendedGeneticMap.nvrnt': 'property',
 'ExtendedGeneticMap.prune': 'self nt M',
 'ExtendedGeneticMap.remove': 'self indices kwargs',
 'ExtendedGeneticMap.remove_discrepancies': 'self',
 'ExtendedGeneticMap.reorder': 'self indices',
 'ExtendedGeneticMap.select': 'self indices kwargs',
 'ExtendedGeneticMap.sort': 'self keys',
 'ExtendedGeneticMap.spline': 'property',
 'ExtendedGeneticMap.spline_fill_value': 'property',
 'ExtendedGeneticMap.spline_kind': 'property',
 'ExtendedGeneticMap.to_csv': 'self filename vrnt_chrgrp_col vrnt_phypos_col vrnt_stop_col vrnt_genpos_col vrnt_name_col vrnt_fncode_col vrnt_genpos_units sep header index kwargs',
 'ExtendedGeneticMap.to_egmap': 'self filename',
 'ExtendedGeneticMap.to_pandas': 'self vrnt_chrgrp_col vrnt_phypos_col vrnt_stop_col vrnt_genpos_col vrnt_name_col vrnt_fncode_col vrnt_genpos_units kwargs',
 'ExtendedGeneticMap.ungroup': 'self kwargs',
 'ExtendedGeneticMap.vrnt_chrgrp': 'property',
 'ExtendedGeneticMap.vrnt_chrgrp_len': 'property',
 'ExtendedGeneticMap.vrnt_chrgrp_name': 'property',
 'ExtendedGeneticMap.vrnt_chrgrp_spix': 'property',
 'ExtendedGeneticMap.vrnt_chrgrp_stix': 'property',
 'ExtendedGeneticMap.vrnt_fncode': 'property',
 'ExtendedGeneticMap.vrnt_genpos': 'property',
 'ExtendedGeneticMap.vrnt_name': 'property',
 'ExtendedGeneticMap.vrnt_phypos': 'property',
 'ExtendedGeneticMap.vrnt_stop': 'property',
 'HaldaneMapFunction.__init__': 'self kwargs',
 'HaldaneMapFunction.invmapfn': 'self r',
 'HaldaneMapFunction.mapfn': 'self d',
 'HaldaneMapFunction.rprob1g': 'self gmap vrnt_chrgrp vrnt_genpos',
 'HaldaneMapFunction.rprob1p': 'self gmap vrnt_chrgrp vrnt_phypos',
 'HaldaneMapFunction.rprob2g': 'self gmap vrnt_chrgrp vrnt_genpos',
 'HaldaneMapFunction.rprob2p': 'self gmap vrnt_chrgrp vrnt_phypos',
 'KosambiMapFunction.__init__': 'self kwargs',
 'KosambiMapFunction.invmapfn': 'self r',
 'KosambiMapFunction.mapfn': 'self d',
 'KosambiMapFunction.rprob1g': 'self gmap vrnt_chrgrp vrnt_genpos',
 'KosambiMapFunction.rprob1p': 'self gmap vrnt_chrgrp vrnt_phypos',
 'KosambiMapFunction.rprob2g': 'self gmap vrnt_chrgrp vrnt_genpos',
 'KosambiMapFunction.rprob2p': 'self gmap vrnt_chrgrp vrnt_phypos',
 'StandardGeneticMap.__copy__': 'self',
 'StandardGeneticMap.__deepcopy__': 'self memo',
 'StandardGeneticMap.__init__': 'self vrnt_chrgrp vrnt_phypos vrnt_genpos spline spline_kind spline_fill_value vrnt_genpos_units auto_group auto_build_spline kwargs',
 'StandardGeneticMap.__len__': 'self',
 'StandardGeneticMap.build_spline': 'self kind fill_value kwargs',
 'StandardGeneticMap.congruence': 'self',
 'StandardGeneticMap.copy': 'self',
 'StandardGeneticMap.deepcopy': 'self memo',
 'StandardGeneticMap.from_csv': 'cls filename vrnt_chrgrp_col vrnt_phypos_col vrnt_genpos_col spline spline_kind spline_fill_value vrnt_genpos_units auto_group auto_build_spline sep header kwargs',
 'StandardGeneticMap.from_pandas': 'cls df vrnt_chrgrp_col vrnt_phypos_col vrnt_genpos_col spline spline_kind spline_fill_value vrnt_genpos_units auto_group auto_build_spline kwargs',
 'StandardGeneticMap.gdist1g': 'self vrnt_chrgrp vrnt_genpos ast asp',
 'StandardGeneticMap.gdist1p': 'self vrnt_chrgrp vrnt_phypos ast asp',
 'StandardGeneticMap.gdist2g': 'self vrnt_chrgrp vrnt_genpos rst rsp cst csp',
 'StandardGeneticMap.gdist2p': 'self vrnt_chrgrp vrnt_phypos rst rsp cst csp',
 'StandardGeneticMap.group': 'self kwargs',
 'StandardGeneticMap.has_spline': 'self',
 'StandardGeneticMap.interp_genpos': 'self vrnt_chrgrp vrnt_phypos',
 'StandardGeneticMap.interp_gmap': 'self vrnt_chrgrp vrnt_phypos kwargs',
 'StandardGeneticMap.is_congruent': 'self',
 'StandardGeneticMap.is_grouped': 'self',
 'StandardGeneticMap.lexsort': 'self keys kwargs',
 'StandardGeneticMap.nvrnt': 'property',
 'StandardGeneticMap.remove': 'self indices kwargs',
 'StandardGeneticMap.remove_discrepancies': 'self',
 'StandardGeneticMap.reorder': 'self indices',
 'StandardGeneticMap.select': 'self indices kwargs',
 'StandardGeneticMap.sort': 'self keys',
 'StandardGeneticMap.spline': 'property',
 'StandardGeneticMap.spline_fill_value': 'property',
 'StandardGeneticMap.spline_kind': 'property',
 'StandardGeneticMap.to_csv': 'self filename vrnt_chrgrp_col vrnt_phypos_col vrnt_genpos_col vrnt_genpos_units sep header index kwargs',
 'StandardGeneticMap.to_pandas': 'self vrnt_chrgrp_col vrnt_phypos_col vrnt_genpos_col vrnt_genpos_units kwargs',
 'StandardGeneticMap.ungroup': 'self kwargs',
 'StandardGeneticMap.vrnt_chrgrp': 'property',
 'StandardGeneticMap.vrnt_chrgrp_len': 'property',
 'StandardGeneticMap.vrnt_chrgrp_name': 'property',
 'StandardGeneticMap.vrnt_chrgrp_spix': 'property',
 'StandardGeneticMap.vrnt_chrgrp_stix': 'property',
 'StandardGeneticMap.vrnt_genpos': 'property',
 'StandardGeneticMap.vrnt_phypos': 'property',
 'cM2d': 'cM',
 'check_is_DenseGeneticMappableMatrix': 'v vname',
 'check_is_ExtendedGeneticMap': 'v vname',
 'check_is_HaldaneMapFunction': 'v vname',
 'check_is_KosambiMapFunction': 'v vname',
 'check_is_StandardGeneticMap': 'v vname'}
SKIPPED = {
    "check_is_StandardGeneticMap": "type guard (raises TypeError); no clause of the property is about it",
    "check_is_ExtendedGeneticMap": "type guard", "check_is_HaldaneMapFunction": "type guard", "check_is_KosambiMapFunction": "type guard",
    "check_is_DenseGeneticMappableMatrix": "type guard",
    "HaldaneMapFunction.__init__": "no state", "KosambiMapFunction.__init__": "no state",
    "DenseGeneticMappableMatrix.__init__": "not constructible (typo `vrnt_mask = vrnt_mask **kwargs`); its two methods are driven through "
                                           "DenseGenotypeMatrix and DensePhasedGenotypeMatrix, which inherit them",
}
# parameters that are accepted but only driven with their default value, and why
PARAMS_FIXED = {
    "spline": "a pre-built spline dictionary is overwritten by auto_build_spline=True; copies hand their own one through (covered by the copy routes)",
    "spline_kind": "only 'linear' is in the property (interpolation between flanking markers is linear); other kinds are scipy's",
    "spline_fill_value": "only 'extrapolate' is modelled", "kind": "see spline_kind", "fill_value": "see spline_fill_value",
    "auto_build_spline": "False only inside the library's own copy routes", "kwargs": "ignored by the library", "memo": "deepcopy protocol",
    "sep": "pandas", "header": "pandas", "index": "pandas",
}

def _enumerate_entry_points():
    import inspect, importlib
    found = {}
    for mn in ANCHORED:
        m = importlib.import_module(mn)
        for name, obj in sorted(vars(m).items()):
            if name.startswith("_") or getattr(obj, "__module__", None) != mn: continue
            if inspect.isclass(obj):
                for an, a in sorted(vars(obj).items()):
                    q = "%s.%s" % (name, an)
                    if isinstance(a, property): found[q] = "property"
                    elif isinstance(a, (classmethod, staticmethod)): found[q] = " ".join(inspect.signature(a.__func__).parameters)
                    elif inspect.isfunction(a): found[q] = " ".join(inspect.signature(a).parameters)
            elif inspect.isfunction(obj): found[name] = " ".join(inspect.signature(obj).parameters)
    return found

def _run_audit(case):
    found = _enumerate_entry_points()
    return {"new": sorted(k for k in found if k not in ENTRY_POINTS), "gone": sorted(k for k in ENTRY_POINTS if k not in found),
            "changed": sorted("%s(%s) was (%s)" % (k, found[k], ENTRY_POINTS[k]) for k in found if k in ENTRY_POINTS and found[k] != ENTRY_POINTS[k]),
            "skipped_unknown": sorted(k for k in SKIPPED if k not in ENTRY_POINTS), "count": len(found)}

def _pred_audit(case, out):
    bad = []
    for k in out["new"]: bad.append("entry point %s of the anchored modules is not classified (cover it in a driver or list it in SKIPPED)" % k)
    for k in out["gone"]: bad.append("entry point %s no longer exists: the drivers / ENTRY_POINTS table are out of date" % k)
    for k in out["changed"]: bad.append("signature changed: %s" % k)
    for k in out["skipped_unknown"]: bad.append("SKIPPED lists %s which is not an entry point" % k)
    return bad

# ----------------------------------------------------------------------------------------------- generators
def _gen_map(rng, grid):
    nchr = rng.choice([1, 2, 2, 3, 3, 4])
    # chromosome labels: small ones, and (one case in three) labels that do not fit int8 / int16 / int32
    labels = rng.sample(list(range(-2, 12)) + ([200, 40000, 2 ** 33 + 7] if rng.random() < 0.34 else []), nchr)
    congruent = rng.random() < 0.7
    # scales (grid maps stay exact: dyadic positions, power-of-two knot gaps): genetic positions from 2^-40 to 2^+10 times the
    # unit grid (large ones only on congruent maps: a large negative gap overflows exp(); not beyond 2^10 because the verified
    # interval evaluation of exp(-2d) costs time linear in d), physical positions offset up to 2^40 (the interpolation weights
    # are differences of physical positions)
    gscale = Fraction(2) ** rng.choice([0, 0, 0, 0, -8, -20, -40] + ([4, 10] if congruent else []))
    poff = rng.choice([0, 0, 0, 2 ** 20, 2 ** 31, 2 ** 40])
    rows = []
    for c in labels:
        k = rng.choice([2, 2, 3, 4, 5, 6])
        if grid:
            pos = [rng.randrange(0, 64) + poff]
            while len(pos) < k: pos.append(pos[-1] + 2 ** rng.randrange(0, 7))
            gens = [Fraction(rng.randrange(-64, 4096), 256) * gscale for _ in range(k)]
        else:
            scale = rng.choice([50, 1000, 10 ** 6, 10 ** 9])
            pos = sorted(rng.sample(range(1, scale + 20), k))
            gens = [rng.random() * rng.choice([0.5, 2.0, 5.0]) for _ in range(k)]
        if congruent:
            gens = sorted(gens)
            if k > 2 and rng.random() < 0.3: gens[1] = gens[0]           # tie in genetic position
        for x, g in zip(pos, gens):
            rows.append([c, x, float(g)])
    rng.shuffle(rows)
    return rows, labels, congruent and (gscale <= 1 or not grid)

def _gen_query(rng, rows, labels, nq, far=True):
    steps = [1, 2, 4, 16, 37] if far else [1, 2, 4]      # steep non-congruent chords far outside overflow exp()
    reach = 64 if far else 4
    absent = [c for c in range(-3, 14) if c not in labels]
    q = []
    for _ in range(nq):
        if rng.random() < 0.15:
            q.append([rng.choice(absent), rng.randrange(0, 100)]); continue
        c = rng.choice(labels)
        xs = sorted(r[1] for r in rows if r[0] == c)
        k = rng.random()
        if k < 0.25: x = rng.choice(xs)                                   # a knot
        elif k < 0.65:                                                   # between two knots
            i = rng.randrange(len(xs) - 1); x = rng.randint(xs[i], xs[i + 1])
        elif k < 0.8: x = xs[0] - rng.choice(steps)          # left of the range
        elif k < 0.95: x = xs[-1] + rng.choice(steps)        # right of the range
        else: x = rng.randint(xs[0] - reach, xs[-1] + reach)
        q.append([c, x])
    return q

def _slice(rng, n):
    def one():
        return None if rng.random() < 0.5 else rng.randint(-n - 1, n + 1)
    return [one(), one()]

def _gmap_case(rng, grid=None, cls=None):
    if grid is None: grid = rng.random() < 0.5
    rows, labels, congruent = _gen_map(rng, grid)
    n = len(rows)
    cls = cls or rng.choice(["std", "ext"])
    units = "M" if grid or rng.random() < 0.7 else "cM"
    if units == "cM": rows = [[c, x, g * 100.0] for c, x, g in rows]
    perm = list(range(n)); rng.shuffle(perm)
    nq = rng.choice([1, 2, 3, 4, 5, 6, 8])
    query = _gen_query(rng, rows, labels, nq, far=congruent)
    case = {"kind": "gmap", "cls": cls, "units": units, "grid": bool(grid),
            "rows": [[c, x, fx(g)] for c, x, g in rows], "perm": perm, "query": query,
            "fn": rng.choice(["haldane", "kosambi"]), "gmat": rng.choice(["unphased", "phased"]),
            "s1": _slice(rng, n) if rng.random() < 0.6 else [None, None],
            "s2": (_slice(rng, n) + _slice(rng, n)) if rng.random() < 0.6 else [None] * 4,
            "q1": _slice(rng, nq) if rng.random() < 0.5 else [None, None],
            "q2": (_slice(rng, nq) + _slice(rng, nq)) if rng.random() < 0.5 else [None] * 4}
    if cls == "ext":
        case["stop"] = [x + rng.randrange(0, 5) for _, x, _ in rows]
        case["name"] = list(range(100, 100 + n)) if rng.random() < 0.8 else None
        case["fncode"] = [rng.randrange(0, 3) for _ in range(n)] if rng.random() < 0.6 else None
    return case

def _mapfn_case(rng):
    fn = rng.choice(["haldane", "kosambi"])
    ds = [0.0, math.inf]
    for _ in range(rng.randint(4, 10)):
        k = rng.random()
        if k < 0.3: ds.append(rng.randrange(0, 1024) / 256.0)
        elif k < 0.6: ds.append(rng.random() * rng.choice([0.01, 0.5, 3.0]))
        elif k < 0.7: ds.append(rng.choice([5e-324, 1e-300, 2.0 ** -60, 2.0 ** -30, 1e-9]))
        elif k < 0.85: ds.append(rng.choice([9.0, 18.0, 20.0, 50.0, 400.0, 1000.0]) + rng.random())
        else: ds.append(rng.random() * 10)
    rs = [0.0, 0.5]
    for _ in range(rng.randint(3, 8)):
        k = rng.random()
        if k < 0.5: rs.append(rng.random() * 0.5)
        elif k < 0.7: rs.append(rng.randrange(0, 128) / 256.0)
        elif k < 0.85: rs.append(0.5 - 2.0 ** -rng.randint(2, 53))
        else: rs.append(rng.choice([5e-324, 1e-300, 2.0 ** -60, 1e-12]))
    return {"kind": "mapfn", "fn": fn, "d": [fx(v) for v in sorted(ds)], "r": [fx(v) for v in sorted(set(rs))]}

def _igmap_case(rng, cls=None):
    c = _gmap_case(rng, grid=True, cls=cls)
    return {"kind": "igmap", "cls": c["cls"], "rows": c["rows"], "query": c["query"], "stop": c.get("stop"),
            "units": "M"}

def _rmdisc_case(rng, cls=None):
    """a non-congruent grid map; after remove_discrepancies the map is queried at and between its remaining markers"""
    while True:
        c = _gmap_case(rng, grid=True, cls=cls)
        rows = sorted([(r[0], r[1], xf(r[2])) for r in c["rows"]])
        keep = [r for i, r in enumerate(rows) if i == 0 or rows[i - 1][0] != r[0] or rows[i - 1][2] <= r[2]]
        cnt = {}
        for r in keep: cnt[r[0]] = cnt.get(r[0], 0) + 1
        if len(keep) < len(rows) and all(v >= 2 for v in cnt.values()): break      # something is removed, >= 2 markers stay
    q = [[r[0], r[1]] for r in rows if r not in keep][:3]          # positions of removed markers
    for a, b in zip(keep, keep[1:]):
        if a[0] == b[0]:
            q.append([a[0], a[1]]); q.append([a[0], (a[1] + b[1]) // 2]); q.append([b[0], b[1]])
    absent = [c for c in range(-3, 14) if c not in cnt]
    q = q[:10] + [[keep[0][0], keep[0][1] - 3], [rng.choice(absent), 7]]
    return {"kind": "rmdisc", "cls": c["cls"], "units": "M", "grid": True, "rows": c["rows"], "query": q,
            "stop": c.get("stop"), "name": c.get("name"), "fncode": c.get("fncode")}

def _select_case(rng, cls=None, op=None):
    """a grid map reduced by select(index array | boolean mask), remove(index array | slice) or ExtendedGeneticMap.prune(nt, M);
    at least two markers stay on every chromosome"""
    c = _gmap_case(rng, grid=True, cls=cls)
    cls = c["cls"]
    rows = sorted([(r[0], r[1], xf(r[2])) for r in c["rows"]])
    n = len(rows)
    op = op or rng.choice(["select_idx", "select_mask", "remove_idx", "remove_slice"] + (["prune", "prune"] if cls == "ext" else []))
    case = {"kind": "select", "cls": cls, "units": "M", "grid": True, "rows": c["rows"], "stop": c.get("stop"), "name": c.get("name"),
            "fncode": c.get("fncode"), "op": op}
    if op == "prune":
        cong = all(rows[i - 1][0] != rows[i][0] or rows[i - 1][2] <= rows[i][2] for i in range(1, n))
        span = {}
        for ch, _, g in rows: span.setdefault(ch, []).append(g)
        usable_M = cong and all(v[-1] > v[0] for v in span.values())
        mode = rng.choice(["nt", "nt", "M", "both"]) if usable_M else "nt"
        case["nt"] = rng.choice([1, 2, 3, 8, 20, 64]) if mode in ("nt", "both") else None
        case["M"] = fx(min(v[-1] - v[0] for v in span.values()) / rng.choice([1, 2, 4])) if mode in ("M", "both") else None
    else:
        # sorted index set of the markers that stay: the two ends of every chromosome plus a random subset of the others
        keep = []
        for i in range(n):
            first = i == 0 or rows[i - 1][0] != rows[i][0]; last = i == n - 1 or rows[i + 1][0] != rows[i][0]
            if op == "remove_slice": continue
            if first or last or rng.random() < 0.5: keep.append(i)
        if op == "remove_slice":
            # remove an interior stretch of one chromosome with >= 3 markers, if there is one
            cand = [(i, j) for i in range(n) for j in range(i + 1, n + 1) if all(0 < k < n - 1 and rows[k - 1][0] == rows[k][0] == rows[k + 1][0] for k in range(i, j))]
            a, b = rng.choice(cand) if cand else (0, 0)
            case["slice"] = [a, b]
        else:
            case["keep"] = keep
    cnt = {}
    for ch, _, _ in rows: cnt[ch] = cnt.get(ch, 0) + 1
    absent = [x for x in range(-3, 14) if x not in cnt]
    q = []
    for i in range(n - 1):
        if rows[i][0] == rows[i + 1][0]: q.append([rows[i][0], rows[i][1]]); q.append([rows[i][0], (rows[i][1] + rows[i + 1][1]) // 2])
    rng.shuffle(q)
    case["query"] = q[:8] + [[rows[0][0], rows[0][1] - 3], [rows[-1][0], rows[-1][1] + 5], [rng.choice(absent), 7]]
    return case

def _wide_case(rng, cls=None):
    """more markers on a chromosome and more chromosomes than a narrow integer type can count (> 127, > 255 markers; labels beyond
    int8 / int16), so that group metadata, run boundaries, indices and labels kept in a narrow type would wrap"""
    cls = cls or rng.choice(["std", "ext"])
    labels = [rng.choice([40000, 70000, 2 ** 33 + 1])] + rng.sample([-3, 5, 130, 250, 300], rng.choice([0, 1, 1]))
    sizes = [rng.choice([260, 300])] if len(labels) == 1 else [130, rng.choice([129, 140])]     # elaboration time of the shard grows faster than n
    rows = []
    for c, k in zip(labels, sizes):
        pos = [rng.randrange(0, 64)]
        while len(pos) < k: pos.append(pos[-1] + 2 ** rng.randrange(0, 4))
        g = Fraction(rng.randrange(0, 64), 256); gens = []
        for _ in range(k):
            gens.append(g); g += Fraction(rng.choice([0, 1, 1, 2, 5]), 256)
        if rng.random() < 0.4:                       # one discordant marker far into the chromosome
            i = rng.randrange(k - 20, k - 1); gens[i] = gens[i - 3] - Fraction(1, 512)
        rows += [[c, x, fx(float(v))] for x, v in zip(pos, gens)]
    rng.shuffle(rows)
    n = len(rows)
    srt = sorted(rows, key=lambda r: (r[0], r[1]))
    q = []
    for i in (0, 126, 127, 128, 254, 255, 256, n - 2):
        if i + 1 < n and srt[i][0] == srt[i + 1][0]: q.append([srt[i][0], (srt[i][1] + srt[i + 1][1] + 1) // 2])
    q.append([srt[-1][0], srt[-1][1] + 3]); q.append([7, 5])
    case = {"kind": "wide", "cls": cls, "units": "M", "grid": True, "rows": rows, "query": q, "win": [max(0, n - 6), None, 250, 259],
            "drop": rng.randrange(n - 30, n - 2)}
    if cls == "ext":
        case["stop"] = [r[1] + 1 for r in rows]; case["name"] = None; case["fncode"] = None
    return case


# ---- sessions on one variant matrix ----------------------------------------------------------------------------------------
def _sess_init(spec):
    """rows a map built from `spec` stores, in stored order: (chromosome, physical, genetic, index of the row in the spec)"""
    t = [(r[0], r[1], xf(r[2]), i) for i, r in enumerate(spec["rows"])]
    return sorted(t, key=lambda r: (r[0], r[1], r[2]))

def _sess_apply(st, pre):
    """rows the map stores after the operation `pre` was applied to it; None = which markers stay is not fixed by the case (prune)"""
    if st is None or pre is None: return st
    op = pre["op"]
    if op in ("select_idx", "select_mask"): return [st[i] for i in sorted(pre["keep"])]
    if op == "remove_idx": return [t for i, t in enumerate(st) if i not in pre["drop"]]
    if op == "rd":
        flags = [i == 0 or st[i - 1][0] != t[0] or st[i - 1][2] <= t[2] for i, t in enumerate(st)]
        return st if all(flags) else [t for t, f in zip(st, flags) if f]
    if op == "setgen":
        a, b = xf(pre["a"]), xf(pre["b"])
        return [(c, x, g * a + b, i) for c, x, g, i in st]
    return None                                                     # prune

def _sess_ok(st):
    cnt = {}
    for c, _, _, _ in st: cnt[c] = cnt.get(c, 0) + 1
    return all(v >= 2 for v in cnt.values())

def _sess_spec(rng, cls, rows):
    n = len(rows)
    s = {"cls": cls, "rows": [[c, x, fx(g)] for c, x, g in rows]}
    if cls == "ext":
        s["stop"] = [x + rng.randrange(0, 5) for _, x, _ in rows]
        s["name"] = list(range(100, 100 + n)) if rng.random() < 0.8 else None
        s["fncode"] = [rng.randrange(0, 3) for _ in range(n)] if rng.random() < 0.6 else None
    return s

def _gmsess_case(rng, i=0):
    """ONE variant matrix (constructed with or without vrnt_genpos / vrnt_xoprob), interpolated several times in a row: with map A,
    with another map B on the same chromosomes (other positions, perhaps a chromosome less / more), with another map function, with
    the same map after it was reduced (select / remove / remove_discrepancies / prune) or given other genetic positions through the
    vrnt_genpos setter (+ build_spline), on the object itself or on a deep copy of it taken in between"""
    grid = rng.random() < 0.7
    rows, labels, _ = _gen_map(rng, grid)
    clsA, clsB = ("std", "ext")[i % 2], rng.choice(["std", "ext"])
    congB = rng.random() < 0.6
    gsB = Fraction(2) ** rng.choice([0, 0, -8, -20] + ([4] if congB else []))
    drop = rng.choice(labels) if len(labels) >= 2 and rng.random() < 0.35 else None
    rowsB = []
    for c in labels:
        if c == drop: continue
        xs = sorted(r[1] for r in rows if r[0] == c)
        gens = [Fraction(rng.randrange(-64, 4096), 256) * gsB if grid else rng.random() * rng.choice([0.5, 2.0, 5.0]) for _ in xs]
        if congB: gens = sorted(gens)
        rowsB += [[c, x, float(g)] for x, g in zip(xs, gens)]
    absent = [c for c in range(-3, 14) if c not in labels]
    if rng.random() < 0.25:                                          # a chromosome that only map B knows
        c = rng.choice(absent); x0 = rng.randrange(0, 60)
        rowsB += [[c, x0, 0.25], [c, x0 + 2 ** rng.randrange(0, 6), 0.75]]
    rng.shuffle(rowsB)
    spec = {"A": _sess_spec(rng, clsA, rows), "B": _sess_spec(rng, clsB, rowsB)}
    variants = _gen_query(rng, rows, labels, rng.choice([2, 3, 4, 5, 6, 8]), far=False)
    st = {k: _sess_init(spec[k]) for k in spec}
    steps = []; prev = None
    for j in range(rng.choice([2, 3, 3, 4, 5])):
        key = rng.choice("AB") if prev is None else (("B" if prev == "A" else "A") if rng.random() < 0.55 else prev)
        pre = None
        cur = st[key]
        if cur is not None and rng.random() < (0.75 if key == prev else 0.3):
            n = len(cur)
            ends = [k for k in range(n) if k == 0 or k == n - 1 or cur[k - 1][0] != cur[k][0] or cur[k + 1][0] != cur[k][0]]
            ops = ["select_idx", "select_mask", "remove_idx", "setgen", "setgen"]
            if spec[key]["cls"] == "ext": ops.append("prune")
            if _sess_apply(cur, {"op": "rd"}) != cur and _sess_ok(_sess_apply(cur, {"op": "rd"})): ops += ["rd", "rd"]
            op = rng.choice(ops)
            if op in ("select_idx", "select_mask", "remove_idx"):
                keep = [k for k in range(n) if k in ends or rng.random() < 0.5]
                if op == "select_idx": rng.shuffle(keep)
                pre = {"op": op, "keep": keep} if op != "remove_idx" else {"op": op, "drop": [k for k in range(n) if k not in keep]}
            elif op == "setgen":
                pre = {"op": op, "a": fx(rng.choice([0.5, 2.0, 1.0, 2.0 ** -10, 4.0])), "b": fx(rng.choice([0.0, 0.25, -1.0, 3.5])),
                       "form": rng.choice(["array", "tuple"])}
            elif op == "prune": pre = {"op": op, "nt": rng.choice([1, 2, 3, 8, 20, 64])}
            else: pre = {"op": "rd"}
            st[key] = _sess_apply(cur, pre)
        steps.append({"call": "xoprob" if rng.random() < 0.65 else "genpos", "map": key, "fn": rng.choice(["haldane", "kosambi"]),
                      "pre": pre, "dc": rng.random() < 0.2})
        prev = key
    steps[-1]["call"] = "xoprob"
    return {"kind": "gmsess", "grid": bool(grid), "units": "M", "A": spec["A"], "B": spec["B"], "variants": variants,
            "gmat": rng.choice(["unphased", "phased"]), "init": rng.choice(["none", "genpos", "both", "both"]), "steps": steps}

def gen_cases(rng, tier):
    cases = [{"kind": "audit"}]
    nm, ng, ni = (30, 170, 6) if tier == "quick" else (400, 3000, 40)
    # fixed corner cases first
    cases.append({"kind": "mapfn", "fn": "haldane", "d": [fx(v) for v in (0.0, 5e-324, 0.1, 0.5, 1.0, 19.0, 1000.0, math.inf)],
                  "r": [fx(v) for v in (0.0, 0.25, 0.5 - 2.0 ** -53, 0.5)]})
    cases.append({"kind": "mapfn", "fn": "kosambi", "d": [fx(v) for v in (0.0, 5e-324, 0.1, 0.5, 1.0, 10.0, 1000.0, math.inf)],
                  "r": [fx(v) for v in (0.0, 0.25, 0.5 - 2.0 ** -53, 0.5)]})
    for _ in range(nm): cases.append(_mapfn_case(rng))
    for cls in ("std", "ext"):
        for grid in (True, False):
            cases.append(_gmap_case(rng, grid, cls))
    for _ in range(ng): cases.append(_gmap_case(rng))
    for i in range(ni): cases.append(_igmap_case(rng, ("std", "ext")[i % 2]))          # both classes, alternating
    for i in range(ni): cases.append(_rmdisc_case(rng, ("std", "ext")[i % 2]))
    for i, op in enumerate(["select_idx", "select_mask", "remove_idx", "remove_slice"] * 2 + ["prune"] * (4 if tier == "quick" else 40)):
        cases.append(_select_case(rng, "ext" if op == "prune" else ("std", "ext")[(i // 4) % 2], op))
    for i in range(ni): cases.append(_select_case(rng))
    for i in range(2 if tier == "quick" else 12): cases.append(_wide_case(rng, ("std", "ext")[i % 2]))
    for i in range(24 if tier == "quick" else 300): cases.append(_gmsess_case(rng, i))
    return cases

# ----------------------------------------------------------------------------------------------- implementation driver
def _mk_map(cls, rows, units, stop=None, name=None, fncode=None, auto_group=True):
    from pybrops.popgen.gmap.StandardGeneticMap import StandardGeneticMap
    from pybrops.popgen.gmap.ExtendedGeneticMap import ExtendedGeneticMap
    chrs = numpy.array([r[0] for r in rows], dtype="int64")
    phy = numpy.array([r[1] for r in rows], dtype="int64")
    gen = numpy.array([xf(r[2]) for r in rows], dtype="float64")
    keep = (chrs.copy(), phy.copy(), gen.copy())
    if cls == "std":
        g = StandardGeneticMap(chrs, phy, gen, vrnt_genpos_units=units, auto_group=auto_group)
    else:
        nm = None if name is None else numpy.array(["m%d" % i for i in name], dtype=object)
        fc = None if fncode is None else numpy.array(["f%d" % i for i in fncode], dtype=object)
        g = ExtendedGeneticMap(chrs, phy, numpy.array(stop, dtype="int64"), gen, vrnt_name=nm, vrnt_fncode=fc,
                               vrnt_genpos_units=units, auto_group=auto_group)
    unchanged = bool(numpy.array_equal(chrs, keep[0]) and numpy.array_equal(phy, keep[1]) and numpy.array_equal(gen, keep[2]))
    return g, unchanged

def _ids(a):
    return None if a is None else [int(str(v)[1:]) for v in a]

def _dump(g, cls):
    d = {"chr": il(g.vrnt_chrgrp), "phy": il(g.vrnt_phypos), "gen": fxl(g.vrnt_genpos),
         "meta": [il(g.vrnt_chrgrp_name), il(g.vrnt_chrgrp_stix), il(g.vrnt_chrgrp_spix), il(g.vrnt_chrgrp_len)],
         "grouped": bool(g.is_grouped()), "nvrnt": int(g.nvrnt), "len": len(g)}
    if cls == "ext":
        d["stop"] = il(g.vrnt_stop); d["name"] = _ids(g.vrnt_name); d["fncode"] = _ids(g.vrnt_fncode)
    return d

def _sub(l, idx): return None if l is None else [l[i] for i in idx]

def run_impl(case):
    if case["kind"] == "audit": return _run_audit(case)
    if case["kind"] == "mapfn": return _run_mapfn(case)
    if case["kind"] == "igmap": return _run_igmap(case)
    if case["kind"] == "rmdisc": return _run_rmdisc(case)
    if case["kind"] == "select": return _run_select(case)
    if case["kind"] == "wide": return _run_wide(case)
    if case["kind"] == "gmsess": return _run_gmsess(case)
    return _run_gmap(case)

def _fnobj(name):
    from pybrops.popgen.gmap.HaldaneMapFunction import HaldaneMapFunction
    from pybrops.popgen.gmap.KosambiMapFunction import KosambiMapFunction
    return HaldaneMapFunction() if name == "haldane" else KosambiMapFunction()

def _run_mapfn(case):
    from pybrops.popgen.gmap.util import cM2d
    f = _fnobj(case["fn"])
    d = numpy.array([xf(v) for v in case["d"]]); r = numpy.array([xf(v) for v in case["r"]])
    with numpy.errstate(all="ignore"):
        md = f.mapfn(d); ir = f.invmapfn(r)
        out = {"mapfn": fxl(md), "invmapfn": fxl(ir), "inv_of_map": fxl(f.invmapfn(md)), "map_of_inv": fxl(f.mapfn(ir)),
               "mapfn_2d": fxll(f.mapfn(d.reshape(1, -1))), "cM2d": fxl(cM2d(d[numpy.isfinite(d)]))}
    return out

def _run_gmap(case):
    from pybrops.popgen.gmat.DenseGenotypeMatrix import DenseGenotypeMatrix
    from pybrops.popgen.gmat.DensePhasedGenotypeMatrix import DensePhasedGenotypeMatrix
    cls = case["cls"]; rows = case["rows"]
    out = {}
    g, unch = _mk_map(cls, rows, case["units"], case.get("stop"), case.get("name"), case.get("fncode"))
    out["map"] = _dump(g, cls); out["inputs_unchanged"] = unch
    p = case["perm"]
    g2, _ = _mk_map(cls, _sub(rows, p), case["units"], _sub(case.get("stop"), p), _sub(case.get("name"), p), _sub(case.get("fncode"), p))
    out["map2"] = _dump(g2, cls)
    out["congruence"] = [bool(b) for b in g.congruence()]
    out["is_congruent"] = bool(g.is_congruent())
    qc = numpy.array([q[0] for q in case["query"]], dtype="int64"); qp = numpy.array([q[1] for q in case["query"]], dtype="int64")
    with warnings.catch_warnings(record=True) as w:
        warnings.simplefilter("always")
        out["own"] = fxl(g.interp_genpos(g.vrnt_chrgrp, g.vrnt_phypos))
        out["q_gen"] = fxl(g.interp_genpos(qc, qp))
        out["q_gen2"] = fxl(g2.interp_genpos(qc, qp))
        out["warned"] = any(issubclass(x.category, RuntimeWarning) and "congruent" in str(x.message) for x in w)
        out["copy_q_gen"] = [fxl(copy.copy(g).interp_genpos(qc, qp)), fxl(copy.deepcopy(g).interp_genpos(qc, qp)), fxl(g.copy().interp_genpos(qc, qp)),
                             fxl(g.deepcopy().interp_genpos(qc, qp))]
        out["copy_dump_same"] = bool(_dump(copy.deepcopy(g), cls) == out["map"] and _dump(copy.copy(g), cls) == out["map"])
    with warnings.catch_warnings():
        warnings.simplefilter("ignore")
        # the same rows with auto_group=False: arrays stay as supplied, the spline is built from unsorted arrays
        g3, _ = _mk_map(cls, rows, case["units"], case.get("stop"), case.get("name"), case.get("fncode"), auto_group=False)
        ng_arrays = (g3.vrnt_chrgrp, g3.vrnt_phypos, g3.vrnt_genpos); ng_keep = tuple(a.copy() for a in ng_arrays)
        out["ng_before"] = _dump(g3, cls)
        out["ng_q_gen"] = fxl(g3.interp_genpos(qc, qp))
        out["ng_after"] = _dump(g3, cls)
        # grouping as a side effect of the first use re-assigns the arrays; the arrays the constructor was given are not written to
        ng_unch = all(numpy.array_equal(a, b) for a, b in zip(ng_arrays, ng_keep))
        if cls == "std": m = g.interp_gmap(qc, qp)
        else: m = g.interp_gmap(qc, qp, qp + 1, vrnt_name=numpy.array(["m%d" % i for i in range(len(qc))], dtype=object))
        out["igmap"] = _dump(m, cls)
        out["igmap_spline_keys"] = sorted(int(k) for k in m.spline.keys())
        s1, s2, q1, q2 = case["s1"], case["s2"], case["q1"], case["q2"]
        ch, ge = g.vrnt_chrgrp, g.vrnt_genpos
        out["g1"] = fxl(g.gdist1g(ch, ge)); out["g2"] = fxll(g.gdist2g(ch, ge))
        out["g1s"] = fxl(g.gdist1g(ch, ge, s1[0], s1[1])); out["g2s"] = fxll(g.gdist2g(ch, ge, *s2))
        o = numpy.lexsort((qp, qc)); sc, sp = qc[o], qp[o]
        out["sq"] = [[int(a), int(b)] for a, b in zip(sc, sp)]
        out["sq_gen"] = fxl(g.interp_genpos(sc, sp))
        out["p1"] = fxl(g.gdist1p(sc, sp)); out["p2"] = fxll(g.gdist2p(qc, qp))
        out["p1s"] = fxl(g.gdist1p(sc, sp, q1[0], q1[1])); out["p2s"] = fxll(g.gdist2p(qc, qp, *q2))
        with numpy.errstate(all="ignore"):
            fo = _fnobj(case["fn"])
            out["rp"] = {"r1g": fxl(fo.rprob1g(g, ch, ge)), "r2g": fxll(fo.rprob2g(g, ch, ge)),
                         "r1p": fxl(fo.rprob1p(g, sc, sp)), "r2p": fxll(fo.rprob2p(g, qc, qp))}
        # genotype matrix on the query variants
        nv = len(qc)
        if case["gmat"] == "phased":
            gm = DensePhasedGenotypeMatrix(numpy.zeros((2, 2, nv), dtype="int8"), vrnt_chrgrp=qc.copy(), vrnt_phypos=qp.copy())
        else:
            gm = DenseGenotypeMatrix(numpy.zeros((2, nv), dtype="int8"), vrnt_chrgrp=qc.copy(), vrnt_phypos=qp.copy(), ploidy=2)
        try:
            gm.interp_xoprob(g, _fnobj(case["fn"])); out["ungrouped_raises"] = False
        except ValueError:
            out["ungrouped_raises"] = True
        gm.group_vrnt()
        with numpy.errstate(all="ignore"):
            gm.interp_xoprob(g, _fnobj(case["fn"]))
        out["gm"] = {"chr": il(gm.vrnt_chrgrp), "phy": il(gm.vrnt_phypos), "genpos": fxl(gm.vrnt_genpos), "xoprob": fxl(gm.vrnt_xoprob)}
        gm2 = copy.deepcopy(gm); gm2.vrnt_genpos = None; gm2.interp_genpos(g2)
        out["gm_genpos_only"] = fxl(gm2.vrnt_genpos)
        out["ng_inputs_unchanged"] = ng_unch
        out["routes"] = _routes(g, cls, case, qc, qp)
        out["alias"] = _alias_probe(g, cls, qc, qp)
    return out

def _sess_init_values(case):
    """what the matrix is constructed with: a junk position / probability per variant (a function of the variant, so that ties
    between equal variants cannot matter)"""
    gp = [7.0 + x / 1024.0 + c for c, x in case["variants"]]
    xo = [0.25 + (x % 7) / 64.0 for c, x in case["variants"]]
    return (gp if case["init"] in ("genpos", "both") else None), (xo if case["init"] == "both" else None)

def _run_gmsess(case):
    from pybrops.popgen.gmat.DenseGenotypeMatrix import DenseGenotypeMatrix
    from pybrops.popgen.gmat.DensePhasedGenotypeMatrix import DensePhasedGenotypeMatrix
    maps = {}
    for key in ("A", "B"):
        sp = case[key]
        maps[key], _ = _mk_map(sp["cls"], sp["rows"], case["units"], sp.get("stop"), sp.get("name"), sp.get("fncode"))
    fns = {"haldane": _fnobj("haldane"), "kosambi": _fnobj("kosambi")}       # the two map-function objects serve the whole session
    qc = numpy.array([q[0] for q in case["variants"]], dtype="int64"); qp = numpy.array([q[1] for q in case["variants"]], dtype="int64")
    nv = len(qc)
    gp0, xo0 = _sess_init_values(case)
    kw = {}
    if gp0 is not None: kw["vrnt_genpos"] = numpy.array(gp0, dtype=float)
    if xo0 is not None: kw["vrnt_xoprob"] = numpy.array(xo0, dtype=float)
    if case["gmat"] == "phased":
        gm = DensePhasedGenotypeMatrix(numpy.zeros((2, 2, nv), dtype="int8"), vrnt_chrgrp=qc.copy(), vrnt_phypos=qp.copy(), **kw)
    else:
        gm = DenseGenotypeMatrix(numpy.zeros((2, nv), dtype="int8"), vrnt_chrgrp=qc.copy(), vrnt_phypos=qp.copy(), ploidy=2, **kw)
    gm.group_vrnt()
    opt = lambda a: None if a is None else fxl(a)
    out = {"chr": il(gm.vrnt_chrgrp), "phy": il(gm.vrnt_phypos), "genpos0": opt(gm.vrnt_genpos), "xoprob0": opt(gm.vrnt_xoprob), "steps": []}
    with warnings.catch_warnings():
        warnings.simplefilter("ignore")
        for stp in case["steps"]:
            m = maps[stp["map"]]; pre = stp["pre"]
            if pre is not None:
                op = pre["op"]
                if op == "select_idx": m.select(numpy.array(pre["keep"], dtype=int))
                elif op == "select_mask":
                    mk = numpy.zeros(len(m), dtype=bool); mk[pre["keep"]] = True; m.select(mk)
                elif op == "remove_idx": m.remove(numpy.array(pre["drop"], dtype=int))
                elif op == "rd": m.remove_discrepancies()
                elif op == "prune": m.prune(nt=pre["nt"], M=None)
                else:
                    new = (m.vrnt_genpos * xf(pre["a"])) + xf(pre["b"])
                    m.vrnt_genpos = new if pre["form"] == "array" else (new, "M")
                    m.build_spline()
            if stp["dc"]: gm = copy.deepcopy(gm)                      # the matrix goes on as a deep copy of itself
            rec = {"map": {"chr": il(m.vrnt_chrgrp), "phy": il(m.vrnt_phypos), "gen": fxl(m.vrnt_genpos), "grouped": bool(m.is_grouped()),
                           "keys": sorted(int(k) for k in m.spline.keys())}}
            other = maps["B" if stp["map"] == "A" else "A"]
            before = (il(other.vrnt_chrgrp), il(other.vrnt_phypos), fxl(other.vrnt_genpos))
            with numpy.errstate(all="ignore"):
                if stp["call"] == "xoprob": gm.interp_xoprob(m, fns[stp["fn"]])
                else: gm.interp_genpos(m)
            rec["genpos"] = opt(gm.vrnt_genpos); rec["xoprob"] = opt(gm.vrnt_xoprob)
            rec["variants_same"] = bool(il(gm.vrnt_chrgrp) == out["chr"] and il(gm.vrnt_phypos) == out["phy"])
            rec["maps_same"] = bool((il(other.vrnt_chrgrp), il(other.vrnt_phypos), fxl(other.vrnt_genpos)) == before
                                    and (il(m.vrnt_chrgrp), il(m.vrnt_phypos), fxl(m.vrnt_genpos)) == (rec["map"]["chr"], rec["map"]["phy"], rec["map"]["gen"]))
            out["steps"].append(rec)
    return out

def _routes(g, cls, case, qc, qp):
    """the same map obtained through the library's own routes (tabular round trips, property setters, structural operations on
    copies): each must store and interpolate exactly like the directly constructed map `g`"""
    import tempfile, shutil, os
    from pybrops.popgen.gmap.StandardGeneticMap import StandardGeneticMap
    from pybrops.popgen.gmap.ExtendedGeneticMap import ExtendedGeneticMap
    K = StandardGeneticMap if cls == "std" else ExtendedGeneticMap
    res = {}
    def rec(name, m, full=True):
        q = fxl(m.interp_genpos(qc, qp))          # first use: a map that is not grouped yet groups (sorts) itself
        d = _dump(m, cls)
        if not full:                              # a format that cannot carry marker names / function codes
            d["name"] = _dump(g, cls)["name"]; d["fncode"] = _dump(g, cls)["fncode"]
        res[name] = {"dump": d, "q_gen": q}
    has_name = cls == "ext" and g.vrnt_name is not None
    has_fn = cls == "ext" and g.vrnt_fncode is not None
    # 1. DataFrame round trip, default column names, Morgans both ways
    kw = {}
    if has_name: kw["vrnt_name_col"] = "name"
    if has_fn: kw["vrnt_fncode_col"] = "fncode"
    df = g.to_pandas(vrnt_genpos_units="M")
    rec("pandas", K.from_pandas(df, vrnt_genpos_units="M", **kw))
    # 2. DataFrame round trip, rows reversed, custom column names written, integer column indices read, auto_group=False
    if cls == "std":
        df2 = g.to_pandas(vrnt_chrgrp_col="c", vrnt_phypos_col="p", vrnt_genpos_col="g", vrnt_genpos_units="Morgans").iloc[::-1].reset_index(drop=True)
        m = K.from_pandas(df2, vrnt_chrgrp_col=0, vrnt_phypos_col=1, vrnt_genpos_col=2, vrnt_genpos_units="Morgans", auto_group=False)
    else:
        df2 = g.to_pandas(vrnt_chrgrp_col="c", vrnt_phypos_col="p", vrnt_stop_col="s", vrnt_genpos_col="g", vrnt_name_col="n", vrnt_fncode_col="f",
                          vrnt_genpos_units="Morgans").iloc[::-1].reset_index(drop=True)
        kw2 = {}
        if has_name: kw2["vrnt_name_col"] = 4
        if has_fn: kw2["vrnt_fncode_col"] = 5
        m = K.from_pandas(df2, vrnt_chrgrp_col=0, vrnt_phypos_col=1, vrnt_stop_col=2, vrnt_genpos_col=3, vrnt_genpos_units="Morgans", auto_group=False, **kw2)
    rec("pandas_ix_nogroup", m)
    # 3. centiMorgan round trip: written as 100*x, read as 0.01*(100*x) (compared within tolerance by the predicate)
    dfc = g.to_pandas()
    mc = K.from_pandas(dfc, vrnt_genpos_units="cM", **kw)
    res["pandas_cM"] = {"gen": fxl(mc.vrnt_genpos), "col": fxl(dfc["cM"].to_numpy(dtype=float)), "chr": il(mc.vrnt_chrgrp), "phy": il(mc.vrnt_phypos)}
    # 4. files
    tmp = tempfile.mkdtemp(prefix="c11_")
    try:
        fn = os.path.join(tmp, "map.csv")
        g.to_csv(fn, vrnt_genpos_units="M")
        rec("csv", K.from_csv(fn, vrnt_genpos_units="M", **kw))
        if cls == "ext":
            fn2 = os.path.join(tmp, "map.egmap")
            g.to_egmap(fn2)
            rec("egmap", K.from_egmap(fn2), full=False)
    finally:
        shutil.rmtree(tmp, ignore_errors=True)
    # 5. property setters: an object built from other markers receives the arrays of this map (reversed), then group + build_spline
    n = len(g)
    rv = numpy.arange(n)[::-1]
    dummy = (numpy.arange(n, dtype="int64") % 2, numpy.arange(n, dtype="int64") * 3 + 1, numpy.linspace(0.0, 1.0, n))
    if cls == "std":
        m = K(dummy[0], dummy[1], dummy[2])
    else:
        m = K(dummy[0], dummy[1], dummy[1] + 1, dummy[2])
    m.vrnt_chrgrp = g.vrnt_chrgrp[rv]; m.vrnt_phypos = g.vrnt_phypos[rv]; m.vrnt_genpos = (g.vrnt_genpos[rv] * 2.0, "M")
    m.vrnt_genpos = g.vrnt_genpos[rv]                     # plain array form of the setter
    if cls == "ext":
        m.vrnt_stop = g.vrnt_stop[rv]
        m.vrnt_name = None if g.vrnt_name is None else g.vrnt_name[rv]
        m.vrnt_fncode = None if g.vrnt_fncode is None else g.vrnt_fncode[rv]
    m.group(); m.build_spline()
    rec("setters", m)
    # 6. structural operations on copies
    c = copy.deepcopy(g); c.ungroup()
    res["ungroup"] = {"grouped": bool(c.is_grouped()), "meta_none": all(v is None for v in (c.vrnt_chrgrp_name, c.vrnt_chrgrp_stix, c.vrnt_chrgrp_spix, c.vrnt_chrgrp_len))}
    c.group(); rec("ungroup_group", c)
    c = copy.copy(g); c.reorder(rv)
    res["reorder_state"] = {"grouped": bool(c.is_grouped()), "chr": il(c.vrnt_chrgrp), "phy": il(c.vrnt_phypos)}
    rec("reorder", c)                                     # interp_genpos groups (sorts) the map again
    c = g.deepcopy(); c.sort(); rec("sort", c)
    c = g.copy(); c.select(numpy.arange(n)); rec("select_all", c)
    c = g.copy(); c.remove(numpy.array([], dtype=int)); rec("remove_none", c)
    c = g.copy(); c.select(numpy.ones(n, dtype=bool)); rec("select_mask_all", c)
    res["lexsort"] = {"default": il(g.lexsort()), "phy_only": il(g.lexsort((g.vrnt_phypos,))), "phy_array": il(g.lexsort(g.vrnt_phypos)),
                      "has_spline": bool(g.has_spline()), "kind": str(g.spline_kind), "fill": str(g.spline_fill_value)}
    return res

def _alias_probe(g, cls, qc, qp):
    """mutate in place everything the map handed out (results, arrays of copies) and look at the map again"""
    ch, ge = g.vrnt_chrgrp, g.vrnt_genpos
    keep = (qc.copy(), qp.copy(), ch.copy(), ge.copy())
    r = g.interp_genpos(qc, qp); r[...] = 777.0
    d1 = g.gdist1g(ch, ge); d1[...] = -5.0
    d2 = g.gdist2g(ch, ge); d2[...] = -5.0
    p1 = g.gdist2p(qc, qp); p1[...] = -5.0
    cg = g.congruence(); cg[...] = False
    for c in (copy.copy(g), copy.deepcopy(g), g.copy(), g.deepcopy()):
        c.vrnt_genpos[...] = -1.0; c.vrnt_phypos[...] = 0; c.vrnt_chrgrp[...] = 99
        for a in (c.vrnt_chrgrp_name, c.vrnt_chrgrp_stix, c.vrnt_chrgrp_spix, c.vrnt_chrgrp_len):
            if a is not None: a[...] = 0
        if cls == "ext": c.vrnt_stop[...] = 0
        c.spline.clear()                                  # a copy owns its spline dictionary
        c.build_spline()
    m = g.interp_gmap(qc.copy(), qp.copy()) if cls == "std" else g.interp_gmap(qc.copy(), qp.copy(), qp + 1)
    m.vrnt_genpos[...] = 3.0
    for k in list(m.spline.keys()): del m.spline[k]                       # the new map owns a deep copy of the spline
    return {"dump": _dump(g, cls), "q_gen": fxl(g.interp_genpos(qc, qp)), "g1": fxl(g.gdist1g(ch, ge)), "congruence": [bool(b) for b in g.congruence()],
            "args_unchanged": bool(numpy.array_equal(qc, keep[0]) and numpy.array_equal(qp, keep[1]) and numpy.array_equal(ch, keep[2]) and numpy.array_equal(ge, keep[3]))}

def _run_igmap(case):
    """the map returned by interp_gmap is used as a genetic map itself"""
    cls = case["cls"]
    g, _ = _mk_map(cls, case["rows"], case["units"], case.get("stop"))
    qc = numpy.array([q[0] for q in case["query"]], dtype="int64"); qp = numpy.array([q[1] for q in case["query"]], dtype="int64")
    out = {}
    with warnings.catch_warnings():
        warnings.simplefilter("ignore")
        out["q_gen"] = fxl(g.interp_genpos(qc, qp))
        m = g.interp_gmap(qc.copy(), qp.copy()) if cls == "std" else g.interp_gmap(qc.copy(), qp.copy(), qp + 1)
        out["igmap"] = _dump(m, cls)
        try:
            out["re"] = fxl(m.interp_genpos(qc, qp))
        except Exception as e:
            out["re"] = {"exc": type(e).__name__, "msg": str(e)[:200]}
        try:
            out["re_congruent"] = bool(m.is_congruent())
        except Exception as e:
            out["re_congruent"] = {"exc": type(e).__name__, "msg": str(e)[:200]}
        out["igmap_after"] = _dump(m, cls)          # the first use groups (sorts) the new map
        out["source_after"] = _dump(g, cls)
        out["source_q_gen_after"] = fxl(g.interp_genpos(qc, qp))
    return out

def _rmdisc_route(case, route):
    """reduce a non-congruent map: 'rd' = remove_discrepancies() (select(mask)); 'rm' = remove(indices of the flagged markers)"""
    cls = case["cls"]
    g, _ = _mk_map(cls, case["rows"], case["units"], case.get("stop"), case.get("name"), case.get("fncode"))
    qc = numpy.array([q[0] for q in case["query"]], dtype="int64"); qp = numpy.array([q[1] for q in case["query"]], dtype="int64")
    out = {}
    if route == "rd": g.remove_discrepancies()
    else: g.remove(numpy.flatnonzero(~g.congruence()))
    out["map"] = _dump(g, cls)
    with warnings.catch_warnings(record=True) as w:
        warnings.simplefilter("always")
        out["is_congruent"] = bool(g.is_congruent())
        out["direct"] = fxl(g.interp_genpos(qc, qp))
        out["warned"] = any("congruent" in str(x.message) for x in w)
    with warnings.catch_warnings():
        warnings.simplefilter("ignore")
        out["own"] = fxl(g.interp_genpos(g.vrnt_chrgrp, g.vrnt_phypos))
        out["spline_keys"] = sorted(int(k) for k in g.spline.keys())
        g.build_spline()
        out["rebuilt"] = fxl(g.interp_genpos(qc, qp))
    return out

def _run_rmdisc(case):
    out = _rmdisc_route(case, "rd")
    out["via_remove"] = _rmdisc_route(case, "rm")
    # the same markers removed from a map that was never grouped (auto_group=False): arrays stay unsorted, the spline is rebuilt
    cls = case["cls"]
    kept = set(zip(out["map"]["chr"], out["map"]["phy"]))
    idx = [i for i, r in enumerate(case["rows"]) if (r[0], r[1]) not in kept]
    qc = numpy.array([q[0] for q in case["query"]], dtype="int64"); qp = numpy.array([q[1] for q in case["query"]], dtype="int64")
    with warnings.catch_warnings():
        warnings.simplefilter("ignore")
        g, _ = _mk_map(cls, case["rows"], case["units"], case.get("stop"), case.get("name"), case.get("fncode"), auto_group=False)
        g.remove(idx)
        d = _dump(g, cls)
        out["ungrouped"] = {"grouped": d["grouped"], "rows": [list(t) for t in zip(d["chr"], d["phy"], d["gen"])],
                            "direct": fxl(g.interp_genpos(qc, qp))}
    return out

def _run_wide(case):
    cls = case["cls"]
    g, unch = _mk_map(cls, case["rows"], case["units"], case.get("stop"))
    qc = numpy.array([q[0] for q in case["query"]], dtype="int64"); qp = numpy.array([q[1] for q in case["query"]], dtype="int64")
    out = {"map": _dump(g, cls), "inputs_unchanged": unch}
    w = case["win"]
    with warnings.catch_warnings(record=True) as ws:
        warnings.simplefilter("always")
        out["congruence"] = [bool(b) for b in g.congruence()]; out["is_congruent"] = bool(g.is_congruent())
        out["q_gen"] = fxl(g.interp_genpos(qc, qp))
        out["warned"] = any("congruent" in str(x.message) for x in ws)
    with warnings.catch_warnings():
        warnings.simplefilter("ignore")
        out["own"] = fxl(g.interp_genpos(g.vrnt_chrgrp, g.vrnt_phypos))
        out["g1"] = fxl(g.gdist1g(g.vrnt_chrgrp, g.vrnt_genpos))
        out["g2w"] = fxll(g.gdist2g(g.vrnt_chrgrp, g.vrnt_genpos, *w))
        c = copy.deepcopy(g); c.remove(case["drop"])
        out["dropped"] = {"map": _dump(c, cls), "q_gen": fxl(c.interp_genpos(qc, qp))}
    return out

def _run_select(case):
    cls = case["cls"]; op = case["op"]
    g, _ = _mk_map(cls, case["rows"], case["units"], case.get("stop"), case.get("name"), case.get("fncode"))
    qc = numpy.array([q[0] for q in case["query"]], dtype="int64"); qp = numpy.array([q[1] for q in case["query"]], dtype="int64")
    n = len(g)
    before = list(zip(il(g.vrnt_chrgrp), il(g.vrnt_phypos)))
    twin = copy.deepcopy(g)                                   # an untouched deep copy: must not follow the reduction
    if op == "select_idx": g.select(numpy.array(case["keep"], dtype=int))
    elif op == "select_mask":
        mk = numpy.zeros(n, dtype=bool); mk[case["keep"]] = True; g.select(mk)
    elif op == "remove_idx": g.remove(numpy.array([i for i in range(n) if i not in case["keep"]], dtype=int))
    elif op == "remove_slice": g.remove(slice(case["slice"][0], case["slice"][1]))
    else: g.prune(nt=case["nt"], M=None if case["M"] is None else xf(case["M"]))
    out = {"map": _dump(g, cls)}
    kept = set(zip(out["map"]["chr"], out["map"]["phy"]))
    out["mask"] = [t in kept for t in before]
    with warnings.catch_warnings():
        warnings.simplefilter("ignore")
        out["is_congruent"] = bool(g.is_congruent())
        out["direct"] = fxl(g.interp_genpos(qc, qp))
        out["own"] = fxl(g.interp_genpos(g.vrnt_chrgrp, g.vrnt_phypos))
        out["spline_keys"] = sorted(int(k) for k in g.spline.keys())
        g.build_spline()
        out["rebuilt"] = fxl(g.interp_genpos(qc, qp))
        out["twin"] = {"n": len(twin), "own": fxl(twin.interp_genpos(twin.vrnt_chrgrp, twin.vrnt_phypos)), "gen": fxl(twin.vrnt_genpos)}
    return out

# ----------------------------------------------------------------------------------------------- Coq emission
def _ext(s):
    if s == "nan": return "NaN"
    if s == "inf": return "PInf"
    if s == "-inf": return "NInf_unexpected"
    return "(Fin %s)" % E.q(Fraction(float.fromhex(s)))
def _fl(s): return E.fhex(xf(s))
def _oz(v): return "None" if v is None else "(Some %s)" % E.z(v)
def _pairs(q): return E.lst(q, lambda t: "(%s, %s)" % (E.z(t[0]), E.z(t[1])))
def _kind(fn): return "Haldane" if fn == "haldane" else "Kosambi"

def _pay(case, i):
    if case["cls"] != "ext": return []
    p = [case["stop"][i]]
    p.append(case["name"][i] if case.get("name") is not None else -1)
    p.append(case["fncode"][i] if case.get("fncode") is not None else -1)
    return p

def _raw(case, order=None):
    idx = range(len(case["rows"])) if order is None else order
    return E.lst(list(idx), lambda i: "(%s, %s, %s, %s)" % (E.z(case["rows"][i][0]), E.z(case["rows"][i][1]), _fl(case["rows"][i][2]),
                                                           E.lst(_pay(case, i), E.z)))

def _dump_term(d, case):
    """implementation's view of a map as a Coq tuple (chr, phy, gen(ext), payload rows, meta)"""
    n = len(d["chr"])
    if case["cls"] == "ext":
        pay = [[d["stop"][i], d["name"][i] if d["name"] is not None else -1, d["fncode"][i] if d["fncode"] is not None else -1] for i in range(n)]
    else:
        pay = [[] for _ in range(n)]
    meta = "(%s, %s, %s, %s)" % tuple(E.lst(m if m is not None else [], E.z) for m in d["meta"])
    return "(%s, %s, %s, %s, %s)" % (E.lst(d["chr"], E.z), E.lst(d["phy"], E.z), E.lst(d["gen"], _ext), E.lst2(pay, E.z), meta), \
           E.lst(d["gen"], _fl)

def emit_case(case, out):
    if "exc" in out: return "false"
    if case["kind"] == "audit": return E.b(not _pred_audit(case, out))
    if '"-inf"' in __import__("json").dumps(out): return None          # exp() overflow on absurd negative gaps: predicate only
    if case["kind"] == "gmsess":
        binds = [("v", "list (Z * Z)", _pairs(case["variants"])), ("sv", "list (Z * Z)", _pairs(list(zip(out["chr"], out["phy"]))))]
        gens = {k: [xf(r[2]) for r in case[k]["rows"]] for k in "AB"}; ver = {"A": 0, "B": 0}; bound = set()
        shifted = {"A": False, "B": False}        # a translation of the genetic positions costs the exactness of binary64 interpolation
        parts = []
        for stp, rec in zip(case["steps"], out["steps"]):
            k = stp["map"]; sp = case[k]
            if stp["pre"] is not None and stp["pre"]["op"] == "setgen":
                a, b = xf(stp["pre"]["a"]), xf(stp["pre"]["b"])
                gens[k] = [g * a + b for g in gens[k]]; ver[k] += 1; shifted[k] = shifted[k] or b != 0.0
            name = "raw%s%d" % (k, ver[k])
            if name not in bound:
                bound.add(name)
                pc = dict(sp); pc["rows"] = [[r[0], r[1], fx(g)] for r, g in zip(sp["rows"], gens[k])]
                binds.append((name, "raw_t", _raw(pc)))
            have = set(zip(rec["map"]["chr"], rec["map"]["phy"]))
            order = sorted(range(len(sp["rows"])), key=lambda i: (sp["rows"][i][0], sp["rows"][i][1], gens[k][i]))
            mask = [(sp["rows"][i][0], sp["rows"][i][1]) in have for i in order]
            if rec["genpos"] is None or (stp["call"] == "xoprob" and rec["xoprob"] is None): return "false"
            parts.append("check_gmat_call %s false %s %s %s v sv %s %s %s" % (
                E.b(case["grid"] and all(mask) and not shifted[k]), _kind(stp["fn"]), name, E.lst(mask, E.b), E.lst(rec["genpos"], _ext), E.lst(rec["genpos"], _fl),
                "(Some %s)" % E.lst(rec["xoprob"], _ext) if stp["call"] == "xoprob" else "None"))
            parts.append(E.b(rec["variants_same"] and rec["maps_same"] and sum(mask) == len(rec["map"]["chr"])))
        head = "".join("let %s : %s := %s in\n   " % b for b in binds)
        return "(" + head + "\n   && ".join(parts) + ")"
    if case["kind"] == "igmap":
        if isinstance(out["re"], dict) or isinstance(out["re_congruent"], dict): return "false"
        def view(d):
            return "(%s, %s, %s, (%s, %s, %s, %s))" % ((E.lst(d["chr"], E.z), E.lst(d["phy"], E.z), E.lst(d["gen"], _ext))
                                                   + tuple(E.lst(m if m is not None else [], E.z) for m in d["meta"]))
        b, a = out["igmap"], out["igmap_after"]
        return "(check_igmap_reuse true false %s %s %s %s %s %s %s)" % (_raw(case), _pairs(case["query"]), view(b), E.b(b["grouped"]),
                                                                      E.lst(out["re"], _ext), view(a), E.b(a["grouped"]))
    if case["kind"] == "rmdisc":
        def one(o):
            t1, _f = _dump_term(o["map"], case)
            return "check_rmdisc false %s %s %s %s %s %s %s" % (_raw(case), _pairs(case["query"]), t1, E.b(o["is_congruent"]), E.b(o["warned"]),
                                                            E.lst(o["direct"], _ext), E.lst(o["rebuilt"], _ext))
        return "(%s\n   && %s\n   && extl_close %s (rd_interp_genpos (gm_rows (to_rows false %s)) %s) && %s)" % (
            one(out), one(out["via_remove"]), E.lst(out["ungrouped"]["direct"], _ext), _raw(case), _pairs(case["query"]),
            E.b(not out["ungrouped"]["grouped"]))
    if case["kind"] == "select":
        t1, _f = _dump_term(out["map"], case)
        return "(check_select false %s %s %s %s %s %s\n   && extl_close %s %s)" % (
            _raw(case, sorted(range(len(case["rows"])), key=lambda i: (case["rows"][i][0], case["rows"][i][1]))), E.lst(out["mask"], E.b),
            _pairs(case["query"]), t1, E.b(out["is_congruent"]), E.lst(out["direct"], _ext), E.lst(out["rebuilt"], _ext), E.lst(out["direct"], _ext))
    if case["kind"] == "wide":
        # big literals are slow to elaborate: every float array is shipped once (binary64) and converted inside Coq
        d = out["map"]; w = case["win"]; n = len(case["rows"])
        pay = [[d["stop"][i], -1, -1] for i in range(n)] if case["cls"] == "ext" else [[] for _ in range(n)]
        meta = "(%s, %s, %s, %s)" % tuple(E.lst(mm if mm is not None else [], E.z) for mm in d["meta"])
        return ("(let raw : raw_t := %s in\n   let gf : list float := %s in\n   let g1f : list float := %s in\n   let g2f : list (list float) := %s in\n   let qf : list float := %s in"
                "\n   check_build false raw (%s, %s, map q_of_float gf, %s, %s) gf\n   && check_congr false raw %s %s %s"
                "\n   && check_interp true false raw %s (map q_of_float qf) qf gf"
                "\n   && check_gdist_g true false raw None None %s %s %s %s (map q_of_float g1f) g1f (map (map q_of_float) g2f) g2f && %s)") % (
            _raw(case), E.lst(d["gen"], _fl), E.lst(out["g1"], _fl), E.lst2(out["g2w"], _fl), E.lst(out["q_gen"], _fl),
            E.lst(d["chr"], E.z), E.lst(d["phy"], E.z), E.lst2(pay, E.z), meta,
            E.lst(out["congruence"], E.b), E.b(out["is_congruent"]), E.b(out["warned"]), _pairs(case["query"]),
            _oz(w[0]), _oz(w[1]), _oz(w[2]), _oz(w[3]), E.b(out["inputs_unchanged"] and out["own"] == d["gen"]))
    if case["kind"] == "mapfn":
        k = _kind(case["fn"])
        return "(check_mapfn %s %s %s %s %s %s %s\n   && fl_eqb (map cM2d_f %s) %s && extll_eqb [%s] %s)" % (
            k, E.lst(case["d"], _ext), E.lst(out["mapfn"], _ext), E.lst(case["r"], _ext), E.lst(out["invmapfn"], _ext),
            E.lst(out["inv_of_map"], _ext), E.lst(out["map_of_inv"], _ext),
            E.lst([v for v in case["d"] if v != "inf"], _fl), E.lst(out["cM2d"], _fl),
            E.lst(out["mapfn"], _ext), E.lst2(out["mapfn_2d"], _ext))
    cm = E.b(case["units"] == "cM")
    exact = E.b(case["grid"])
    parts = []
    t1, f1 = _dump_term(out["map"], case); t2, f2 = _dump_term(out["map2"], case)
    binds = [("raw", "raw_t", _raw(case)), ("raw2", "raw_t", _raw(case, case["perm"])), ("q", "list (Z * Z)", _pairs(case["query"])),
             ("sq", "list (Z * Z)", _pairs(out["sq"])), ("own_f", "list float", E.lst(out["own"], _fl)),
             ("qg", "list ext", E.lst(out["q_gen"], _ext)), ("qgf", "list float", E.lst(out["q_gen"], _fl))]
    parts.append("check_build %s raw %s %s" % (cm, t1, f1))
    parts.append("check_build %s raw2 %s %s" % (cm, t2, f2))
    parts.append("check_congr %s raw %s %s %s" % (cm, E.lst(out["congruence"], E.b), E.b(out["is_congruent"]), E.b(out["warned"])))
    parts.append("check_interp %s %s raw q qg qgf own_f" % (exact, cm))
    if out["q_gen2"] == out["q_gen"]:
        parts.append("check_interp %s %s raw2 q qg qgf own_f" % (exact, cm))
    else:
        parts.append("check_interp %s %s raw2 q %s %s own_f" % (exact, cm, E.lst(out["q_gen2"], _ext), E.lst(out["q_gen2"], _fl)))
    nb = out["ng_before"]
    if case["cls"] == "ext":
        nbpay = [[nb["stop"][i], nb["name"][i] if nb["name"] is not None else -1, nb["fncode"][i] if nb["fncode"] is not None else -1] for i in range(len(nb["chr"]))]
    else:
        nbpay = [[] for _ in nb["chr"]]
    parts.append("check_nogroup %s %s raw q (%s, %s, %s, %s) %s %s %s" % (exact, cm, E.lst(nb["chr"], E.z), E.lst(nb["phy"], E.z), E.lst(nb["gen"], _ext),
                 E.lst2(nbpay, E.z), E.b(nb["grouped"]), "qg" if out["ng_q_gen"] == out["q_gen"] else E.lst(out["ng_q_gen"], _ext),
                 "qgf" if out["ng_q_gen"] == out["q_gen"] else E.lst(out["ng_q_gen"], _fl)))
    if out["ng_after"] != out["map"]:
        t3, f3 = _dump_term(out["ng_after"], case)
        parts.append("check_build %s raw %s %s" % (cm, t3, f3))
    ig = out["igmap"]
    igmeta = "(%s, %s, %s, %s)" % tuple(E.lst(m if m is not None else [], E.z) for m in ig["meta"])
    if case["cls"] == "ext":
        pay_in = [[qq[1] + 1, i, -1] for i, qq in enumerate(case["query"])]
        pay_out = [[ig["stop"][i], ig["name"][i] if ig["name"] is not None else -1, ig["fncode"][i] if ig["fncode"] is not None else -1] for i in range(len(ig["chr"]))]
    else:
        pay_in = pay_out = []
    parts.append("check_igmap %s %s raw q %s (%s, %s, %s, %s) %s %s %s" % (exact, cm, E.lst2(pay_in, E.z), E.lst(ig["chr"], E.z), E.lst(ig["phy"], E.z),
                 "qg" if ig["gen"] == out["q_gen"] else E.lst(ig["gen"], _ext), igmeta, E.b(ig["grouped"]), E.lst2(pay_out, E.z),
                 E.lst(out["igmap_spline_keys"], E.z)))
    s1, s2, q1, q2 = case["s1"], case["s2"], case["q1"], case["q2"]
    parts.append("check_gdist_g %s %s raw None None None None None None %s %s %s %s" % (exact, cm, E.lst(out["g1"], _ext), E.lst(out["g1"], _fl),
                 E.lst2(out["g2"], _ext), E.lst2(out["g2"], _fl)))
    if s1 != [None, None] or s2 != [None] * 4:
        parts.append("check_gdist_g %s %s raw %s %s %s %s %s %s %s %s %s %s" % (exact, cm, _oz(s1[0]), _oz(s1[1]), _oz(s2[0]), _oz(s2[1]), _oz(s2[2]), _oz(s2[3]),
                     E.lst(out["g1s"], _ext), E.lst(out["g1s"], _fl), E.lst2(out["g2s"], _ext), E.lst2(out["g2s"], _fl)))
    parts.append("check_gdist_p %s %s raw q sq None None None None None None %s %s %s %s" % (exact, cm, E.lst(out["p1"], _ext), E.lst(out["p1"], _fl),
                 E.lst2(out["p2"], _ext), E.lst2(out["p2"], _fl)))
    if q1 != [None, None] or q2 != [None] * 4:
        parts.append("check_gdist_p %s %s raw q sq %s %s %s %s %s %s %s %s %s %s" % (exact, cm, _oz(q1[0]), _oz(q1[1]), _oz(q2[0]), _oz(q2[1]), _oz(q2[2]), _oz(q2[3]),
                     E.lst(out["p1s"], _ext), E.lst(out["p1s"], _fl), E.lst2(out["p2s"], _ext), E.lst2(out["p2s"], _fl)))
    gm = out["gm"]
    binds.append(("gmf", "list float", E.lst(gm["genpos"], _fl)))
    parts.append("check_gmat %s %s %s raw q %s %s gmf %s %s %s" % (exact, cm, _kind(case["fn"]),
                 "sq" if [list(t) for t in zip(gm["chr"], gm["phy"])] == out["sq"] else _pairs(list(zip(gm["chr"], gm["phy"]))),
                 E.lst(gm["genpos"], _ext), E.lst(gm["xoprob"], _ext),
                 "gmf" if out["gm_genpos_only"] == gm["genpos"] else E.lst(out["gm_genpos_only"], _fl), E.b(out["ungrouped_raises"])))
    rp = out["rp"]
    flat = lambda m: [v for r in m for v in r]
    dd = (out["g1"] + flat(out["g2"])[:8] + out["p1"] + flat(out["p2"])[:8])
    pp = (rp["r1g"] + flat(rp["r2g"])[:8] + rp["r1p"] + flat(rp["r2p"])[:8])
    parts.append("check_rprob %s %s %s" % (_kind(case["fn"]), E.lst(dd, _ext), E.lst(pp, _ext)))
    parts.append(E.b(out["inputs_unchanged"] and out["ng_inputs_unchanged"] and out["alias"]["args_unchanged"]))
    # every lifecycle route / the map after the aliasing probe: only what differs from the directly constructed map is shipped
    # (and then disagrees with the model, which knows one map per set of rows)
    seen_d, seen_q = [out["map"], out["ng_after"]], [out["q_gen"], out["q_gen2"], out["ng_q_gen"]]
    for name, r in sorted(out["routes"].items()) + [("alias", out["alias"])]:
        if "dump" not in r or name in TEXT_ROUTES: continue
        if r["dump"] not in seen_d:
            seen_d.append(r["dump"]); tr, fr = _dump_term(r["dump"], case)
            parts.append("check_build %s raw %s %s" % (cm, tr, fr))
        if r["q_gen"] not in seen_q:
            seen_q.append(r["q_gen"])
            parts.append("check_interp %s %s raw q %s %s own_f" % (exact, cm, E.lst(r["q_gen"], _ext), E.lst(r["q_gen"], _fl)))
    rt = out["routes"]
    parts.append(E.b(rt["ungroup"] == {"grouped": False, "meta_none": True} and not rt["reorder_state"]["grouped"]))
    head = "".join("let %s : %s := %s in\n   " % b for b in binds)
    return "(" + head + "\n   && ".join(parts) + ")"

# ----------------------------------------------------------------------------------------------- independent predicate
def _close(a, b, tol=2.0 ** -36):
    if math.isnan(a) or math.isnan(b): return math.isnan(a) and math.isnan(b)
    if math.isinf(a) or math.isinf(b): return a == b
    return abs(a - b) <= tol * (1.0 + abs(b))

def _mapfn_py(fn, d):
    if math.isnan(d): return math.nan
    if fn == "haldane": return 0.5 * (1.0 - math.exp(-2.0 * d)) if d > -300 else -math.inf
    return 0.5 * math.tanh(2.0 * d)
def _invmapfn_py(fn, r):
    if r >= 0.5: return math.inf
    if fn == "haldane": return -0.5 * math.log1p(-2.0 * r)
    return 0.5 * math.atanh(2.0 * r)

def _pred_mapfn(case, out):
    bad = []
    fn = case["fn"]
    d = [xf(v) for v in case["d"]]; r = [xf(v) for v in case["r"]]
    m = [xf(v) for v in out["mapfn"]]; iv = [xf(v) for v in out["invmapfn"]]
    im = [xf(v) for v in out["inv_of_map"]]; mi = [xf(v) for v in out["map_of_inv"]]
    for x, y in zip(d, m):
        if x == 0.0 and y != 0.0: bad.append("mapfn(0) = %r != 0" % y)
        if math.isinf(x) and y != 0.5: bad.append("mapfn(inf) = %r != 0.5" % y)
        if not (0.0 <= y <= 0.5): bad.append("mapfn(%r) = %r outside [0, 0.5]" % (x, y))
        if not math.isinf(x) and x >= 2.0 ** -50 and not (y > 0.0): bad.append("mapfn(%r) = %r is not positive" % (x, y))
        if not math.isinf(x) and x < 8.0 and not (y < 0.5): bad.append("mapfn(%r) = %r reaches 0.5 at a finite moderate distance" % (x, y))
        if not _close(y, _mapfn_py(fn, x), 2.0 ** -44): bad.append("mapfn(%r) = %r differs from the %s formula %r" % (x, y, fn, _mapfn_py(fn, x)))
    for i in range(len(d) - 1):                       # d is sorted ascending
        if not (m[i] <= m[i + 1]): bad.append("mapfn not monotone between d=%r and d=%r" % (d[i], d[i + 1]))
        if d[i + 1] - d[i] > 1e-6 and d[i + 1] < 3.0 and not (m[i] < m[i + 1]): bad.append("mapfn not strictly increasing between d=%r and d=%r" % (d[i], d[i + 1]))
    k = 2.0 if fn == "haldane" else 4.0
    for x, y in zip(d, im):
        if math.isinf(x):
            if y != math.inf: bad.append("invmapfn(mapfn(inf)) = %r != inf" % y)
        elif x <= 4.0 and not (abs(y - x) <= 2.0 ** -48 * (1.0 + math.exp(k * x))):
            bad.append("invmapfn(mapfn(%r)) = %r" % (x, y))
    for x, y in zip(r, iv):
        if x == 0.0 and y != 0.0: bad.append("invmapfn(0) = %r != 0" % y)
        if x == 0.5 and y != math.inf: bad.append("invmapfn(0.5) = %r != inf" % y)
        if x < 0.5 and not (0.0 <= y < math.inf): bad.append("invmapfn(%r) = %r not in [0, inf)" % (x, y))
        if x < 0.5 and not _close(y, _invmapfn_py(fn, x), 2.0 ** -44): bad.append("invmapfn(%r) = %r differs from the %s formula %r" % (x, y, fn, _invmapfn_py(fn, x)))
    for i in range(len(r) - 1):
        if not (iv[i] <= iv[i + 1]): bad.append("invmapfn not monotone between r=%r and r=%r" % (r[i], r[i + 1]))
    for x, y in zip(r, mi):
        if not (abs(y - x) <= 2.0 ** -50): bad.append("mapfn(invmapfn(%r)) = %r" % (x, y))
    if out["mapfn_2d"] != [out["mapfn"]]: bad.append("mapfn depends on the array shape")
    for x, y in zip([v for v in d if not math.isinf(v)], [xf(v) for v in out["cM2d"]]):
        if y != 0.01 * x: bad.append("cM2d(%r) = %r != 0.01 * cM" % (x, y))
    return bad

def _interp_exact(knots, x):
    """exact piecewise-linear interpolation/extrapolation through knots [(x, Fraction y)] sorted by x"""
    n = len(knots)
    hi = None
    for i in range(1, n):
        if x <= knots[i][0]: hi = i; break
    if hi is None: hi = n - 1
    (xl, yl), (xh, yh) = knots[hi - 1], knots[hi]
    return yl + (yh - yl) * Fraction(x - xl, xh - xl)

def _pyslice(l, a, b): return l[slice(a, b)]

def _pred_gmap(case, out):
    bad = []
    cls = case["cls"]
    scale = 0.01 if case["units"] == "cM" else None
    rows = []
    for i, (c, x, g) in enumerate(case["rows"]):
        gv = xf(g) if scale is None else 0.01 * xf(g)
        rows.append((c, x, gv, tuple(_pay(case, i))))
    srt = sorted(rows, key=lambda t: (t[0], t[1], t[2]))
    m = out["map"]
    n = len(rows)
    got = list(zip(m["chr"], m["phy"], [xf(v) for v in m["gen"]]))
    if got != [t[:3] for t in srt]: bad.append("constructor: stored rows are not the input rows sorted by (chromosome, physical, genetic)")
    if cls == "ext":
        pay = [(m["stop"][i], m["name"][i] if m["name"] is not None else -1, m["fncode"][i] if m["fncode"] is not None else -1) for i in range(len(m["chr"]))]
        if pay != [t[3] for t in srt]: bad.append("constructor: stop/name/fncode did not travel with their markers")
    names = sorted(set(t[0] for t in rows))
    stix = [min(i for i, t in enumerate(srt) if t[0] == c) for c in names]
    lens = [sum(1 for t in srt if t[0] == c) for c in names]
    if m["meta"] != [names, stix, [a + b for a, b in zip(stix, lens)], lens]: bad.append("constructor: group metadata does not describe the sorted rows")
    if not m["grouped"] or m["nvrnt"] != n or m["len"] != n: bad.append("constructor: is_grouped/nvrnt/len")
    if out["map2"] != out["map"]: bad.append("map depends on the order in which the rows were supplied")
    if out["q_gen2"] != out["q_gen"]: bad.append("interpolation depends on the order in which the rows were supplied")
    if not out["inputs_unchanged"]: bad.append("constructor mutated its input arrays")
    if any(v != out["q_gen"] for v in out["copy_q_gen"]) or not out["copy_dump_same"]: bad.append("a copy / deep copy of the map stores or interpolates differently")
    nb = out["ng_before"]
    if list(zip(nb["chr"], nb["phy"], [xf(v) for v in nb["gen"]])) != [t[:3] for t in rows] or nb["grouped"]:
        bad.append("auto_group=False: the constructor reordered or grouped the arrays")
    if out["ng_q_gen"] != out["q_gen"]: bad.append("interpolation from a map built with auto_group=False differs from the sorted map (spline depends on array order)")
    if out["ng_after"] != out["map"]: bad.append("auto_group=False: after the congruence test inside interp_genpos the map is not the sorted, grouped map")
    # congruence
    cg = [True if i == 0 or srt[i - 1][0] != srt[i][0] else srt[i - 1][2] <= srt[i][2] for i in range(n)]
    if out["congruence"] != cg: bad.append("congruence() flags")
    if out["is_congruent"] != all(cg): bad.append("is_congruent()")
    if out["warned"] != (not all(cg)): bad.append("non-congruence warning")
    congruent = all(cg)
    # distances on the map's own arrays
    g1 = [xf(v) for v in out["g1"]]; g2 = [[xf(v) for v in r] for r in out["g2"]]
    ch = [t[0] for t in srt]; ge = [t[2] for t in srt]
    tol = 0.0 if case["grid"] else 2.0 ** -40
    for i in range(n):
        if g2[i][i] != 0.0: bad.append("gdist2g diagonal [%d] = %r" % (i, g2[i][i]))
        for j in range(n):
            if g2[i][j] != g2[j][i]: bad.append("gdist2g not symmetric at (%d,%d)" % (i, j))
            if ch[i] != ch[j]:
                if g2[i][j] != math.inf: bad.append("gdist2g between chromosomes (%d,%d) = %r" % (i, j, g2[i][j]))
            elif g2[i][j] != abs(ge[i] - ge[j]): bad.append("gdist2g (%d,%d) = %r != |g_i - g_j|" % (i, j, g2[i][j]))
        if i == 0 or ch[i - 1] != ch[i]:
            if g1[i] != math.inf: bad.append("gdist1g at a chromosome start [%d] = %r" % (i, g1[i]))
        elif g1[i] != ge[i] - ge[i - 1]: bad.append("gdist1g[%d] = %r != g_i - g_{i-1}" % (i, g1[i]))
        elif congruent and g1[i] != g2[i - 1][i]: bad.append("gdist1g[%d] != gdist2g[%d][%d]" % (i, i - 1, i))
    if congruent:
        for i in range(n):
            for j in range(i, n):
                for k in range(j, n):
                    if ch[i] == ch[k] and abs(g2[i][k] - (g2[i][j] + g2[j][k])) > tol * (1 + abs(g2[i][k])):
                        bad.append("gdist2g not additive for ordered markers (%d,%d,%d)" % (i, j, k))
    s1, s2 = case["s1"], case["s2"]
    vch, vge = _pyslice(ch, s1[0], s1[1]), _pyslice(ge, s1[0], s1[1])
    w1 = [math.inf if i == 0 or vch[i - 1] != vch[i] else vge[i] - vge[i - 1] for i in range(len(vch))]
    if [xf(v) for v in out["g1s"]] != w1: bad.append("gdist1g with ast=%r asp=%r" % (s1[0], s1[1]))
    w2 = [r[slice(s2[2], s2[3])] for r in g2[slice(s2[0], s2[1])]]
    if [[xf(v) for v in r] for r in out["g2s"]] != w2: bad.append("gdist2g with rst/rsp/cst/csp = %r" % (s2,))
    # interpolation
    knots = {}
    for c, x, g, _ in srt: knots.setdefault(c, []).append((x, Fraction(g)))
    own = [xf(v) for v in out["own"]]
    for i in range(n):
        if not _close(own[i], ge[i], 2.0 ** -44): bad.append("interpolation at the map's own marker %d: %r != stored %r" % (i, own[i], ge[i]))
    qg = [xf(v) for v in out["q_gen"]]
    def chk_interp(label, pairs, vals):
        for (c, x), v in zip(pairs, vals):
            if c not in knots:
                if not math.isnan(v): bad.append("%s: chromosome %d is absent from the map but the position is %r" % (label, c, v))
                continue
            want = _interp_exact(knots[c], x)
            if math.isnan(v) or math.isinf(v) or abs(Fraction(v) - want) > Fraction(1, 2 ** 36) * (1 + abs(want)):
                bad.append("%s: position of (%d,%d) = %r, linear interpolation between the flanking markers gives %r" % (label, c, x, v, float(want)))
    chk_interp("interp_genpos", case["query"], qg)
    if congruent:
        for (c1, x1), v1 in zip(case["query"], qg):
            for (c2, x2), v2 in zip(case["query"], qg):
                if c1 == c2 and c1 in knots and x1 <= x2 and not (v1 <= v2 + 2.0 ** -40 * (1 + abs(v2))):
                    bad.append("interpolation on a congruent map is not order-preserving: (%d,%d)->%r, (%d,%d)->%r" % (c1, x1, v1, c2, x2, v2))
    ig = out["igmap"]
    if [list(t) for t in zip(ig["chr"], ig["phy"])] != [list(q) for q in case["query"]] or ig["gen"] != out["q_gen"]:
        bad.append("interp_gmap: markers/positions of the new map differ from interp_genpos")
    if out["igmap_spline_keys"] != names: bad.append("interp_gmap: spline not carried over")
    if ig["grouped"] and not _own_meta(ig): bad.append("interp_gmap: the new map claims to be grouped but its group metadata does not describe its own markers")
    if not ig["grouped"] and any(v is not None for v in ig["meta"]): bad.append("interp_gmap: the new map is not grouped but carries group metadata")
    if cls == "ext" and (ig["stop"] != [q[1] + 1 for q in case["query"]] or ig["name"] != list(range(len(case["query"]))) or ig["fncode"] is not None):
        bad.append("interp_gmap: vrnt_stop/vrnt_name/vrnt_fncode of the new map are not the ones supplied")
    # distances from physical positions
    sq = sorted([tuple(q) for q in case["query"]])
    if [tuple(t) for t in out["sq"]] != sq: bad.append("harness: sorted query")
    sg = [xf(v) for v in out["sq_gen"]]
    chk_interp("interp_genpos(sorted query)", sq, sg)
    def same(a, b):
        return len(a) == len(b) and all((math.isnan(x) and math.isnan(y)) or x == y for x, y in zip(a, b))
    p1 = [xf(v) for v in out["p1"]]
    w = [math.inf if i == 0 or sq[i - 1][0] != sq[i][0] else sg[i] - sg[i - 1] for i in range(len(sq))]
    if not same(p1, w): bad.append("gdist1p != sequential differences of the interpolated positions")
    p2 = [[xf(v) for v in r] for r in out["p2"]]
    qs = case["query"]
    w2 = [[(abs(qg[i] - qg[j]) if qs[i][0] == qs[j][0] else math.inf) for j in range(len(qs))] for i in range(len(qs))]
    if len(p2) != len(w2) or not all(same(a, b) for a, b in zip(p2, w2)): bad.append("gdist2p != pairwise |g_i - g_j| of the interpolated positions / inf across chromosomes")
    q1, q2 = case["q1"], case["q2"]
    vq, vg = _pyslice(sq, q1[0], q1[1]), _pyslice(sg, q1[0], q1[1])
    w = [math.inf if i == 0 or vq[i - 1][0] != vq[i][0] else vg[i] - vg[i - 1] for i in range(len(vq))]
    if not same([xf(v) for v in out["p1s"]], w): bad.append("gdist1p with ast=%r asp=%r" % (q1[0], q1[1]))
    w2s = [r[slice(q2[2], q2[3])] for r in w2[slice(q2[0], q2[1])]]
    got = [[xf(v) for v in r] for r in out["p2s"]]
    if len(got) != len(w2s) or not all(same(a, b) for a, b in zip(got, w2s)): bad.append("gdist2p with rst/rsp/cst/csp = %r" % (q2,))
    # genotype matrix
    gm = out["gm"]
    if not out["ungrouped_raises"]: bad.append("interp_xoprob on an ungrouped matrix did not raise")
    if [tuple(t) for t in zip(gm["chr"], gm["phy"])] != sq: bad.append("genotype matrix variants are not sorted by (chromosome, physical)")
    gp = [xf(v) for v in gm["genpos"]]; xo = [xf(v) for v in gm["xoprob"]]
    chk_interp("vrnt_genpos", sq, gp)
    if out["gm_genpos_only"] != gm["genpos"]: bad.append("DenseGeneticMappableMatrix.interp_genpos differs from the positions set by interp_xoprob")
    for i in range(len(sq)):
        if i == 0 or sq[i - 1][0] != sq[i][0]:
            if xo[i] != 0.5: bad.append("vrnt_xoprob at a chromosome start [%d] = %r != 0.5" % (i, xo[i]))
        else:
            want = _mapfn_py(case["fn"], gp[i] - gp[i - 1])
            if not _close(xo[i], want, 2.0 ** -44): bad.append("vrnt_xoprob[%d] = %r != %s(gap %r) = %r" % (i, xo[i], case["fn"], gp[i] - gp[i - 1], want))
    # lifecycle: the same map through the library's own routes; aliasing
    rt = out["routes"]
    for name in ROUTES:
        if name not in rt:
            if name != "egmap" or cls == "ext": bad.append("harness: route %s was not run" % name)
            continue
        rd, rq = rt[name]["dump"], rt[name]["q_gen"]
        if name in TEXT_ROUTES:
            # pandas' default text-to-float conversion is not correctly rounded: positions within a few ulp, everything else exact
            near = lambda a, b: len(a) == len(b) and all(_close(xf(x), xf(y), 2.0 ** -48) for x, y in zip(a, b))
            if {k: v for k, v in rd.items() if k != "gen"} != {k: v for k, v in out["map"].items() if k != "gen"} or not near(rd["gen"], out["map"]["gen"]):
                bad.append("route %s: the map read back stores other rows / group metadata than the map written" % name)
            if not near(rq, out["q_gen"]): bad.append("route %s: the map read back interpolates differently from the map written" % name)
            continue
        if rd != out["map"]: bad.append("route %s: the map stores other rows / group metadata than the directly constructed map" % name)
        if rq != out["q_gen"]: bad.append("route %s: the map interpolates differently from the directly constructed map" % name)
    pc = rt["pandas_cM"]
    if pc["chr"] != m["chr"] or pc["phy"] != m["phy"] or [xf(v) for v in pc["col"]] != [100.0 * v for v in ge] \
            or [xf(v) for v in pc["gen"]] != [0.01 * (100.0 * v) for v in ge]:
        bad.append("centiMorgan round trip: to_pandas() does not write 100 * position or from_pandas(units cM) does not store 0.01 * column")
    if rt["ungroup"] != {"grouped": False, "meta_none": True}: bad.append("ungroup(): the map still claims to be grouped / keeps group metadata")
    if rt["reorder_state"] != {"grouped": False, "chr": m["chr"][::-1], "phy": m["phy"][::-1]}: bad.append("reorder(): arrays not reordered as asked or stale group metadata kept")
    ls = rt["lexsort"]
    by_phy = sorted(range(n), key=lambda i: m["phy"][i])
    if ls["default"] != list(range(n)) or ls["phy_only"] != by_phy or ls["phy_array"] != by_phy:
        bad.append("lexsort(): default keys on a sorted map are not the identity, or custom keys are not honoured")
    if not ls["has_spline"] or ls["kind"] != "linear" or ls["fill"] != "extrapolate": bad.append("has_spline()/spline_kind/spline_fill_value after construction")
    al = out["alias"]
    if al["dump"] != out["map"] or al["q_gen"] != out["q_gen"] or al["g1"] != out["g1"] or al["congruence"] != out["congruence"]:
        bad.append("aliasing: writing into results / into the arrays of copies / into the map returned by interp_gmap changed the map")
    if not al["args_unchanged"]: bad.append("aliasing: a query method wrote into its argument arrays")
    if not out["ng_inputs_unchanged"]: bad.append("auto_group=False: grouping on first use wrote into the arrays the constructor was given")
    # recombination probabilities = map function of the corresponding distances
    rp = out["rp"]
    flat = lambda m: [v for r in m for v in r]
    for name, dist, prob in (("rprob1g", out["g1"], rp["r1g"]), ("rprob2g", flat(out["g2"]), flat(rp["r2g"])),
                             ("rprob1p", out["p1"], rp["r1p"]), ("rprob2p", flat(out["p2"]), flat(rp["r2p"]))):
        if len(dist) != len(prob): bad.append("%s: shape differs from the distance array" % name); continue
        for dv, pv in zip(dist, prob):
            dv, pv = xf(dv), xf(pv)
            want = 0.5 if dv == math.inf else _mapfn_py(case["fn"], dv)
            if not _close(pv, want, 2.0 ** -44): bad.append("%s: %r for distance %r, %s gives %r" % (name, pv, dv, case["fn"], want)); break
    return bad

TEXT_ROUTES = ("csv", "egmap")
ROUTES = ("pandas", "pandas_ix_nogroup", "csv", "egmap", "setters", "ungroup_group", "reorder", "sort", "select_all", "remove_none", "select_mask_all")

def _own_meta(d):
    """does the grouping metadata of a dumped map describe its own (sorted) chromosome array?"""
    ch = d["chr"]
    names = sorted(set(ch))
    lens = [ch.count(c) for c in names]
    stix = [ch.index(c) for c in names]
    return ch == sorted(ch) and d["meta"] == [names, stix, [a + b for a, b in zip(stix, lens)], lens]

def _pred_igmap(case, out):
    """the map returned by interp_gmap is a genetic map of its own: it can be asked for its congruence and interpolates like
    its source; whenever it says it is grouped, the grouping describes its own markers"""
    bad = []
    ig = out["igmap"]
    qs = [tuple(q) for q in case["query"]]
    if [tuple(t) for t in zip(ig["chr"], ig["phy"])] != qs or ig["gen"] != out["q_gen"]:
        bad.append("interp_gmap result: markers/positions of the new map differ from the query / interp_genpos")
    if isinstance(out["re"], dict): bad.append("interp_gmap result: interp_genpos on the returned map raises %s" % out["re"]["exc"])
    elif out["re"] != out["q_gen"]: bad.append("interp_gmap result: interpolates differently from its source map")
    qg = [xf(v) for v in out["q_gen"]]
    order = sorted(range(len(qs)), key=lambda i: qs[i])          # equal (chromosome, position) pairs carry equal positions
    sq = [qs[i] for i in order]; sg = [qg[i] for i in order]
    want_c = all(sq[i - 1][0] != sq[i][0] or sg[i - 1] <= sg[i] for i in range(1, len(sq)))
    if isinstance(out["re_congruent"], dict): bad.append("interp_gmap result: is_congruent on the returned map raises %s" % out["re_congruent"]["exc"])
    elif out["re_congruent"] != want_c: bad.append("interp_gmap result: is_congruent() = %r, its own markers say %r" % (out["re_congruent"], want_c))
    if ig["grouped"] and not _own_meta(ig): bad.append("interp_gmap result: claims to be grouped but its group metadata does not describe its own markers")
    if not ig["grouped"] and any(v is not None for v in ig["meta"]): bad.append("interp_gmap result: not grouped but carries group metadata")
    af = out["igmap_after"]
    same = lambda a, b: len(a) == len(b) and all((math.isnan(x) and math.isnan(y)) or x == y for x, y in zip(a, b))
    if not isinstance(out["re_congruent"], dict):
        if [tuple(t) for t in zip(af["chr"], af["phy"])] != sq or not same([xf(v) for v in af["gen"]], sg):
            bad.append("interp_gmap result: after its first use the new map does not hold its own markers sorted by (chromosome, physical)")
        if not af["grouped"] or not _own_meta(af): bad.append("interp_gmap result: after its first use the group metadata does not describe its own markers")
        if case["cls"] == "ext" and af["stop"] != [x + 1 for _, x in sq]: bad.append("interp_gmap result: vrnt_stop did not travel with its markers")
    if out["source_after"]["nvrnt"] != len(case["rows"]) or not out["source_after"]["grouped"] or out["source_q_gen_after"] != out["q_gen"]:
        bad.append("interp_gmap result: using the new map changed its source map")
    return bad

def _pred_rmdisc(case, out):
    """after remove_discrepancies() (and after the same reduction through remove()): the flagged markers are gone, the rest is
    sorted and grouped, interpolation follows the chords between the flanking markers of the reduced map at once and after
    build_spline(), returns the stored position at the remaining markers, and preserves order if the reduced map is congruent"""
    bad = []
    rows = sorted((c, x, xf(g)) for c, x, g in case["rows"])
    want = [r for i, r in enumerate(rows) if i == 0 or rows[i - 1][0] != r[0] or rows[i - 1][2] <= r[2]]
    for label, o in (("remove_discrepancies", out), ("remove(flagged)", out["via_remove"])):
        m = o["map"]
        got = list(zip(m["chr"], m["phy"], [xf(v) for v in m["gen"]]))
        if got != want: bad.append("%s: the reduced map is not the sorted list of markers flagged congruent" % label)
        if not m["grouped"] or not _own_meta(m): bad.append("%s: group metadata does not describe the reduced map" % label)
        cong = all(got[i - 1][0] != got[i][0] or got[i - 1][2] <= got[i][2] for i in range(1, len(got)))
        if o["is_congruent"] != cong or o["warned"] != (not cong): bad.append("%s: is_congruent()/warning of the reduced map" % label)
        knots = {}
        for c, x, g in got: knots.setdefault(c, []).append((x, Fraction(g)))
        if o["spline_keys"] != sorted(knots): bad.append("%s: the spline does not cover exactly the chromosomes of the reduced map" % label)
        if len(o["own"]) != len(got) or not all(_close(xf(a), g, 2.0 ** -44) for a, (_, _, g) in zip(o["own"], got)):
            bad.append("%s: interpolation at the remaining markers does not return their stored positions" % label)
        def chk(what, vals):
            for (c, x), v in zip(case["query"], vals):
                v = xf(v)
                if c not in knots:
                    if not math.isnan(v): bad.append("%s %s: chromosome %d is absent from the reduced map but the position is %r" % (label, what, c, v))
                    continue
                if len(knots[c]) < 2: continue
                w = _interp_exact(knots[c], x)
                if math.isnan(v) or abs(Fraction(v) - w) > Fraction(1, 2 ** 36) * (1 + abs(w)):
                    bad.append("%s %s: position of (%d,%d) = %r, the flanking markers of the reduced map give %r" % (label, what, c, x, v, float(w))); break
        chk("interp_genpos right after the reduction", o["direct"])
        chk("interp_genpos after build_spline()", o["rebuilt"])
        if cong:
            dv = [xf(v) for v in o["direct"]]
            for (c1, x1), v1 in zip(case["query"], dv):
                for (c2, x2), v2 in zip(case["query"], dv):
                    if c1 == c2 and c1 in knots and x1 <= x2 and not (v1 <= v2 + 2.0 ** -40 * (1 + abs(v2))):
                        bad.append("%s: the reduced map is congruent but interpolation is not order-preserving: (%d,%d)->%r, (%d,%d)->%r" % (label, c1, x1, v1, c2, x2, v2))
    ug = out["ungrouped"]
    if ug["grouped"] or ug["rows"] != [[c, x, g] for c, x, g in case["rows"] if (c, x, xf(g)) in want]:
        bad.append("remove() on an ungrouped map: the remaining arrays are not the supplied rows without the removed markers, in the supplied order")
    if ug["direct"] != out["direct"]: bad.append("remove() on an ungrouped map: interpolation differs from the grouped map reduced to the same markers")
    if out["via_remove"] != {k: v for k, v in out.items() if k not in ("via_remove", "ungrouped")}: bad.append("remove(flagged markers) and remove_discrepancies() leave different maps / splines")
    return bad

def _rows_congruent(d):
    g = [xf(v) for v in d["gen"]]
    return all(d["chr"][i - 1] != d["chr"][i] or g[i - 1] <= g[i] for i in range(1, len(g)))

def _pred_wide(case, out):
    bad = []
    rows = sorted((c, x, xf(g)) for c, x, g in case["rows"])
    n = len(rows); m = out["map"]
    if list(zip(m["chr"], m["phy"], [xf(v) for v in m["gen"]])) != rows: bad.append("constructor: stored rows are not the input rows sorted by (chromosome, physical, genetic)")
    if not m["grouped"] or not _own_meta(m) or m["nvrnt"] != n or m["len"] != n: bad.append("constructor: group metadata / length does not describe the %d sorted rows" % n)
    if not out["inputs_unchanged"]: bad.append("constructor mutated its input arrays")
    cg = [True if i == 0 or rows[i - 1][0] != rows[i][0] else rows[i - 1][2] <= rows[i][2] for i in range(n)]
    if out["congruence"] != cg or out["is_congruent"] != all(cg) or out["warned"] != (not all(cg)): bad.append("congruence() flags / is_congruent() / warning")
    knots = {}
    for c, x, g in rows: knots.setdefault(c, []).append((x, Fraction(g)))
    def chk(label, kn, vals):
        for (c, x), v in zip(case["query"], vals):
            v = xf(v)
            if c not in kn:
                if not math.isnan(v): bad.append("%s: chromosome %d is absent from the map but the position is %r" % (label, c, v))
            elif math.isnan(v) or Fraction(v) != _interp_exact(kn[c], x):
                bad.append("%s: position of (%d,%d) = %r, linear interpolation between the flanking markers gives %r" % (label, c, x, v, float(_interp_exact(kn[c], x)))); break
    chk("interp_genpos", knots, out["q_gen"])
    if [xf(v) for v in out["own"]] != [t[2] for t in rows]: bad.append("interpolation at the map's own markers does not return their stored positions")
    g1 = [xf(v) for v in out["g1"]]
    if g1 != [math.inf if i == 0 or rows[i - 1][0] != rows[i][0] else rows[i][2] - rows[i - 1][2] for i in range(n)]: bad.append("gdist1g != first differences inside chromosomes, inf at chromosome starts")
    w = case["win"]
    want = [[(abs(a[2] - b[2]) if a[0] == b[0] else math.inf) for b in rows[slice(w[2], w[3])]] for a in rows[slice(w[0], w[1])]]
    if [[xf(v) for v in r] for r in out["g2w"]] != want: bad.append("gdist2g window %r" % (w,))
    d = out["dropped"]["map"]; rest = rows[:case["drop"]] + rows[case["drop"] + 1:]
    if list(zip(d["chr"], d["phy"], [xf(v) for v in d["gen"]])) != rest or not _own_meta(d): bad.append("remove(%d): the reduced map is not the map without that marker" % case["drop"])
    kn2 = {}
    for c, x, g in rest: kn2.setdefault(c, []).append((x, Fraction(g)))
    chk("interp_genpos after remove(%d)" % case["drop"], kn2, out["dropped"]["q_gen"])
    return bad

def _pred_select(case, out):
    """select / remove / prune keep a subset of the markers: what is kept is what was asked for, the reduced map is sorted and
    grouped with metadata of its own, interpolation follows the remaining markers at once (no stale spline), is exact at them,
    and an earlier deep copy is untouched"""
    bad = []
    rows = sorted((c, x, xf(g)) + (tuple(_pay(case, i)),) for i, (c, x, g) in enumerate(case["rows"]))
    n = len(rows); op = case["op"]
    m = out["map"]
    got = list(zip(m["chr"], m["phy"], [xf(v) for v in m["gen"]]))
    if op in ("select_idx", "select_mask", "remove_idx"): want_ix = list(case["keep"])
    elif op == "remove_slice": want_ix = [i for i in range(n) if not (case["slice"][0] <= i < case["slice"][1])]
    else:
        want_ix = None
        if sum(out["mask"]) != len(got): bad.append("prune: the reduced map holds markers that the map did not have")
        for i in range(n):
            end = i == 0 or rows[i - 1][0] != rows[i][0] or i == n - 1 or rows[i + 1][0] != rows[i][0]
            if end and not out["mask"][i]: bad.append("prune: the first / last marker of a chromosome was dropped"); break
    if want_ix is not None and out["mask"] != [i in want_ix for i in range(n)]: bad.append("%s: the markers kept are not the ones asked for" % op)
    want = [rows[i] for i in range(n) if out["mask"][i]]
    if got != [t[:3] for t in want]: bad.append("%s: the reduced map is not the kept markers sorted by (chromosome, physical, genetic)" % op)
    if case["cls"] == "ext":
        pay = [(m["stop"][i], m["name"][i] if m["name"] is not None else -1, m["fncode"][i] if m["fncode"] is not None else -1) for i in range(len(m["chr"]))]
        if pay != [t[3] for t in want]: bad.append("%s: stop/name/fncode did not travel with their markers" % op)
    if not m["grouped"] or not _own_meta(m) or m["nvrnt"] != len(got) or m["len"] != len(got): bad.append("%s: group metadata / length does not describe the reduced map" % op)
    knots = {}
    for c, x, g in got: knots.setdefault(c, []).append((x, Fraction(g)))
    if out["spline_keys"] != sorted(knots): bad.append("%s: the spline does not cover exactly the chromosomes of the reduced map" % op)
    cong = all(got[i - 1][0] != got[i][0] or got[i - 1][2] <= got[i][2] for i in range(1, len(got)))
    if out["is_congruent"] != cong: bad.append("%s: is_congruent() of the reduced map" % op)
    if len(out["own"]) != len(got) or not all(_close(xf(a), g, 2.0 ** -44) for a, (_, _, g) in zip(out["own"], got)):
        bad.append("%s: interpolation at the remaining markers does not return their stored positions" % op)
    for what, vals in (("right after the reduction", out["direct"]), ("after build_spline()", out["rebuilt"])):
        for (c, x), v in zip(case["query"], vals):
            v = xf(v)
            if c not in knots:
                if not math.isnan(v): bad.append("%s %s: chromosome %d is absent but the position is %r" % (op, what, c, v))
                continue
            if len(knots[c]) < 2: continue
            w = _interp_exact(knots[c], x)
            if math.isnan(v) or abs(Fraction(v) - w) > Fraction(1, 2 ** 36) * (1 + abs(w)):
                bad.append("%s %s: position of (%d,%d) = %r, the flanking markers of the reduced map give %r" % (op, what, c, x, v, float(w))); break
    tw = out["twin"]
    if tw["n"] != n or [xf(v) for v in tw["gen"]] != [t[2] for t in rows] or not all(_close(xf(a), t[2], 2.0 ** -44) for a, t in zip(tw["own"], rows)):
        bad.append("%s: a deep copy taken before the reduction changed with it" % op)
    return bad

def _pred_gmsess(case, out):
    """a session on ONE variant matrix: after every call the stored vrnt_genpos is the linear interpolation of the matrix's variants
    between the flanking markers of the map GIVEN TO THAT CALL (its rows as they are at the call; missing off the map), and after
    interp_xoprob the stored vrnt_xoprob is the map function GIVEN TO THAT CALL of the consecutive gaps of those positions (1/2 at
    chromosome starts) - whatever the matrix carried from its constructor or from earlier calls"""
    bad = []
    sv = sorted(tuple(q) for q in case["variants"])
    if [tuple(t) for t in zip(out["chr"], out["phy"])] != sv: bad.append("variant matrix: group_vrnt() did not sort the variants by (chromosome, physical)")
    gp0, xo0 = _sess_init_values(case)
    for label, given, got in (("vrnt_genpos", gp0, out["genpos0"]), ("vrnt_xoprob", xo0, out["xoprob0"])):
        if given is None:
            if got is not None: bad.append("variant matrix: constructed without %s but carries one" % label)
        elif got is None or sorted(zip(case["variants"], given), key=lambda t: tuple(t[0])) != [(list(a), xf(b)) for a, b in zip(sv, got)]:
            bad.append("variant matrix: %s given to the constructor did not travel with its variants" % label)
    st = {k: _sess_init(case[k]) for k in "AB"}
    shifted = {"A": False, "B": False}
    for j, (stp, rec) in enumerate(zip(case["steps"], out["steps"])):
        k = stp["map"]; pre = stp["pre"]
        if pre is not None and pre["op"] == "setgen" and xf(pre["b"]) != 0.0: shifted[k] = True
        what = "call %d (%s with map %s%s%s)" % (j + 1, "interp_xoprob" if stp["call"] == "xoprob" else "interp_genpos", k,
                                               "" if pre is None else " after " + pre["op"], ", " + stp["fn"] if stp["call"] == "xoprob" else "")
        m = rec["map"]
        have = list(zip(m["chr"], m["phy"], [xf(v) for v in m["gen"]]))
        want = _sess_apply(st[k], pre)
        if want is None:                                             # prune: any subset keeping the ends of every chromosome
            prev = st[k]; hs = set(have)
            if not hs <= set(t[:3] for t in prev) or have != [t[:3] for t in prev if t[:3] in hs]: bad.append("%s: prune left markers the map did not hold" % what)
            for i, t in enumerate(prev):
                if (i == 0 or prev[i - 1][0] != t[0] or i == len(prev) - 1 or prev[i + 1][0] != t[0]) and t[:3] not in hs:
                    bad.append("%s: prune dropped the first / last marker of a chromosome" % what); break
            want = [t for t in prev if t[:3] in hs]
        elif have != [t[:3] for t in want]: bad.append("%s: the map does not store the markers / positions it was left with" % what)
        st[k] = want
        if not m["grouped"] or m["keys"] != sorted(set(m["chr"])): bad.append("%s: the map is not grouped or its spline does not cover exactly its chromosomes" % what)
        if not rec["variants_same"]: bad.append("%s: the call changed the matrix's variants" % what)
        if not rec["maps_same"]: bad.append("%s: the call changed a genetic map" % what)
        knots = {}
        for c, x, g in have: knots.setdefault(c, []).append((x, Fraction(g)))
        if rec["genpos"] is None: bad.append("%s: vrnt_genpos is not set" % what); continue
        gp = [xf(v) for v in rec["genpos"]]
        exact = case["grid"] and len(have) == len(case[k]["rows"]) and not shifted[k]
        for (c, x), v in zip(sv, gp):
            if c not in knots:
                if not math.isnan(v): bad.append("%s: chromosome %d is absent from the map of this call but vrnt_genpos holds %r" % (what, c, v))
                continue
            w = _interp_exact(knots[c], x)
            tol = 0 if exact else Fraction(1, 2 ** 40) * max(abs(y) for _, y in knots[c])
            if math.isnan(v) or math.isinf(v) or abs(Fraction(v) - w) > tol:
                bad.append("%s: vrnt_genpos of variant (%d,%d) = %r, the map given to this call yields %r" % (what, c, x, v, float(w))); break
        if stp["call"] != "xoprob": continue
        if rec["xoprob"] is None: bad.append("%s: vrnt_xoprob is not set" % what); continue
        xo = [xf(v) for v in rec["xoprob"]]
        for i in range(len(sv)):
            if i == 0 or sv[i - 1][0] != sv[i][0]:
                if xo[i] != 0.5: bad.append("%s: vrnt_xoprob at a chromosome start [%d] = %r != 0.5" % (what, i, xo[i])); break
            else:
                w = _mapfn_py(stp["fn"], gp[i] - gp[i - 1])
                if not _close(xo[i], w, 2.0 ** -46):
                    bad.append("%s: vrnt_xoprob[%d] = %r, the map function given to this call yields %s(gap %r) = %r" % (what, i, xo[i], stp["fn"], gp[i] - gp[i - 1], w)); break
    return bad

def pred(case, out):
    """the property, stated directly on the implementation's outputs (independent of the Coq model)"""
    if "exc" in out:
        return ["implementation raised %s: %s" % (out["exc"], out["msg"])]
    bad = {"mapfn": _pred_mapfn, "gmap": _pred_gmap, "igmap": _pred_igmap, "rmdisc": _pred_rmdisc, "select": _pred_select, "audit": _pred_audit, "wide": _pred_wide, "gmsess": _pred_gmsess}[case["kind"]](case, out)
    seen = []
    for b in bad:
        if b not in seen: seen.append(b)
    return seen[:8]

def nontrivial(case, out):
    if case["kind"] == "mapfn": return sum(1 for v in case["d"] if v not in ("inf",)) >= 6
    if case["kind"] == "audit": return False
    if case["kind"] == "gmsess":           # the matrix carries positions when a call arrives
        return len(case["steps"]) >= 2 or case["init"] != "none"
    if case["kind"] != "gmap": return True
    chrs = set(r[0] for r in case["rows"])
    knots = {}
    for c, x, _ in case["rows"]: knots.setdefault(c, []).append(x)
    inside = any(c in knots and min(knots[c]) < x < max(knots[c]) and x not in knots[c] for c, x in case["query"])
    outside = any(c in knots and (x < min(knots[c]) or x > max(knots[c])) for c, x in case["query"])
    absent = any(c not in knots for c, x in case["query"])
    return len(chrs) >= 2 and inside and (outside or absent)

def describe(case, out):
    if case["kind"] == "mapfn": return {"kind": "mapfn", "fn": case["fn"], "npoints": len(case["d"]) + len(case["r"]), "raised": "exc" in out}
    if case["kind"] == "audit": return {"kind": "audit", "entry_points": out.get("count")}
    if case["kind"] in ("igmap", "rmdisc"): return {"kind": case["kind"], "cls": case["cls"], "raised": "exc" in out}
    if case["kind"] == "wide": return {"kind": "wide", "cls": case["cls"], "nmarkers": len(case["rows"]), "nchr": len(set(r[0] for r in case["rows"])), "raised": "exc" in out}
    if case["kind"] == "select": return {"kind": "select", "cls": case["cls"], "op": case["op"], "raised": "exc" in out}
    if case["kind"] == "gmsess":
        return {"kind": "gmsess", "cls": case["A"]["cls"] + "/" + case["B"]["cls"], "gmat": case["gmat"], "init": case["init"], "ncalls": len(case["steps"]),
                "maps_used": "".join(sorted(set(s["map"] for s in case["steps"]))), "map_changed": sorted(set(s["pre"]["op"] for s in case["steps"] if s["pre"])),
                "deepcopy_between": any(s["dc"] for s in case["steps"]), "raised": "exc" in out}
    knots = set(r[0] for r in case["rows"])
    return {"kind": "gmap", "cls": case["cls"], "units": case["units"], "grid": case["grid"], "nchr": len(knots),
            "nmarkers": len(case["rows"]), "nquery": len(case["query"]), "fn": case["fn"], "gmat": case["gmat"],
            "congruent": out.get("is_congruent"), "absent_chr_in_query": any(q[0] not in knots for q in case["query"]),
            "sliced": case["s1"] != [None, None] or case["s2"] != [None] * 4, "raised": "exc" in out}

def classify(case, out, clauses):
    return None          # no open findings: the two former ones (interp_gmap group metadata, stale spline) are repaired

def shrink(case, fails):
    """drop query markers, then whole chromosomes, while the predicate still fails"""
    if case["kind"] != "gmap": return case
    cur = copy.deepcopy(case)
    for key in ("s1", "q1"):
        t = copy.deepcopy(cur); t[key] = [None, None]
        if fails(t): cur = t
    for key in ("s2", "q2"):
        t = copy.deepcopy(cur); t[key] = [None] * 4
        if fails(t): cur = t
    j = 0
    while len(cur["query"]) > 1 and j < len(cur["query"]):
        t = copy.deepcopy(cur); del t["query"][j]; t["q1"] = [None, None]; t["q2"] = [None] * 4
        if fails(t): cur = t
        else: j += 1
    for c in sorted(set(r[0] for r in cur["rows"])):
        keep = [i for i, r in enumerate(cur["rows"]) if r[0] != c]
        if not keep or len(keep) == len(cur["rows"]): continue
        t = copy.deepcopy(cur)
        t["rows"] = [cur["rows"][i] for i in keep]
        for k in ("stop", "name", "fncode"):
            if t.get(k) is not None: t[k] = [cur[k][i] for i in keep]
        t["perm"] = list(range(len(keep)))[::-1]
        t["s1"] = [None, None]; t["s2"] = [None] * 4
        if fails(t): cur = t
    return cur


def translate(repo, gen_dir):
    """regenerate Gen/C11_Kernel.v (kernel expressions and call shapes of the genetic maps, the map functions and interp_xoprob)
    from the current source; fail closed"""
    from translate import c11_kernel
    return [c11_kernel.translate(repo, gen_dir)]
