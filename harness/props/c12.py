"""C12 — progeny (co)variance matrices of two-/three-/four-way DH and dihybrid crosses:
correspondence between Model/C12_Var.v and the pybrops variance/covariance matrix classes, their factories and the
usefulness criterion, plus the independent predicate (gamete enumeration)."""
import math, itertools, contextlib, copy as _copy
from fractions import Fraction
import numpy
import coqemit as E

ID = "C12"
PROPS = "Props/C12.v"
IMPORTS = "From PV Require Import Lib.Common Model.C12_Var."
SHARD = 12
SHARD_TIMEOUT = 600
LEVEL_TEXT = ("Coq theorems over an exact-rational executable model of the blocked double sum of all variance/covariance classes: "
              "(1) srange chunking tiles every linkage group for every step >= 1, hence every matrix entry is independent of `mem`; "
              "(2) EVERY entry of the two-way, three-way, four-way and dihybrid matrices (repeated last parents and dihybrid selfs included) "
              "equals the covariance of the two doubled-haploid trait values under the exhaustive enumeration of whole MULTI-LOCUS gametes "
              "(uniform initial strand, independent crossovers per gap, p = 1/2 between linkage groups; k selfing generations = two independent "
              "meioses of the same individual each) for EVERY number of loci, linkage-group layout, gap vector and selfing depth k; proved via "
              "(a) the pairwise marginal of the multi-locus selfing process is the two-locus process with r = chain fraction, (b) the two-locus selfing "
              "recursion derived from the enumeration and solved as the coded rprob_filial / D1 / D2 for all k, within 2^-(k+1) of the nself=inf formula; "
              "(3) the former code, whose loops never visited repeated last parents / dihybrid selfs / genic diagonals, is kept as old_* definitions: "
              "it agrees with the repaired code off that diagonal and is refuted on it by computed witnesses (regression statements); "
              "(4) symmetry in exchangeable parents and traits, zero for identical parents, taxa equivariance under every index map, "
              "every entry of the two-, three-, four-way and dihybrid genic matrices = genetic with linkage ignored, "
              "UC = mean + i*sqrt(var), Haldane no-interference over R; "
              "(5) the kernel expressions of the CURRENT source (rprob_filial / cov_D1s / cov_D2s / srange; for each of the eight genetic (co)variance loop nests: "
              "group zip, chunk step, row / column chunk zips, which helper feeds D1 / D2, the taxa loop ranges, the accumulation index tuple, which D table and which two "
              "haplotypes every partial sum combines, the combination, the scaling, the mirror loops and assignment, allocated shape, constructor keywords, epgc; "
              "for the four genic classes: weights, parent tuple, per-marker term, loop ranges, written positions; _calc_uc's mean and criterion) are regenerated into "
              "Gen/C12_Kernel.v on every run, proved equal to the model's, and the exactness / selfing / chunking / genic / usefulness theorems are restated about matrices "
              "re-assembled from the generated definitions alone (C12_kernel_*): a changed expression breaks Props/C12.vo whatever the cases exercise; "
              "(6) scale covariance (effects x c => every entry x c^2; UC conditions preserved) and the session law (a call's result is the model of the state at that call; "
              "earlier calls leave no trace). "
              "The model is tied to the code by evaluating it inside Coq (vm_compute, exact Q, tolerance 2^-30) against the implementation's matrices.")
LEVEL_NOTE = ("trusted: Coq kernel + vm_compute; classical-real axioms only in the Haldane lemma; the tie to the code is differential on generated inputs; "
              "recombination fractions r_ij are either computed in the model (positions on the k*ln2/2 grid where Haldane's r is the rational (1-2^-k)/2, "
              "proved to be chain fractions) or taken from the implementation's HaldaneMapFunction.mapfn on |genpos_i-genpos_j| and checked in Coq for "
              "no-interference multiplicativity (2^-30); the enumeration theorems quantify over rational gap probabilities (Haldane values are irrational; "
              "the identities are polynomial); nself=inf is covered by the limit bound, not by an enumeration; sqrt in UC compared through squares; "
              "genic covariance classes (abstract in pybrops: the audit fails if they become instantiable) and from_pandas/hdf5 round trips are not modelled; "
              "trait/taxa labels, epgc (also a generated kernel), the result class, axis properties, to_pandas rows, untouched inputs / unshared arrays / no stale results are checked by the predicate only; "
              "the kernel translator (harness/translate/c12_kernel.py) is trusted and fail-closed; it translates index arithmetic over nat (all quantities are non-negative indices; the only "
              "subtraction is lsp - lst of a group's bounds) and float expressions over Q (regime T); Kosambi cases: r_ij come from the implementation's KosambiMapFunction.mapfn "
              "(the entry-exactness theorems hold for any table of pair fractions; the multi-locus no-interference theorems do not apply); cases with > 255 markers are predicate-only")
TECHNIQUE = "Coq proof over an executable exact-rational model + enumeration semantics; in-Coq vm_compute correspondence; Python gamete enumeration as independent predicate"
RULE = ("case = (scheme two|three|four|di, kind var|cov|genic|uc, entry point from_algmod|from_gmod|factory, phased 0/1 genotypes, chromosome sizes, "
        "positions (ln2/2 grid or dyadic), dyadic marker effects for 1-3 traits, nself in {0,1,2,3,5,inf}, mem in {1,2,3,5,None,...}); one PRNG; "
        "corners: 1 taxon, 1 marker, 1-marker chromosomes, duplicate parents, coincident positions, mem = / > chromosome size; every index tuple of every "
        "matrix is compared, so crosses with a repeated parent (female == male, female1 == male1, dihybrid selfs, genic diagonals) are in every case; "
        "phase 2: entry-point audit by introspection (every public class / function / method / parameter of vmat, vmat.fcty, pcvmat, util.py, srange, the UC module is driven or listed in "
        "SKIPPED with a reason; anything new fails), util.py helpers called directly (1-D and 2-D r, t = 0 variants), ncross in {1,3}, nprogeny in {1,10,80}, effects scaled by "
        "2^{-40,-20,-8,0,7,20} (reported values divided by 4^e exactly), free positions scaled by 2^{-34,0,14}, Haldane and Kosambi, inputs obtained by constructor / copy / deepcopy / "
        "select_taxa from a larger population / property setters / a session (same objects used for an earlier call in another state, then updated in place), from_pgmat_gpmod_xmap, "
        "258-marker linkage group with mem in {127,128,None} (predicate only); after every call: inputs byte-identical, result shares no memory with inputs or a second result, a clobbered "
        "result does not influence the next call, an earlier session result is untouched; axis properties and every to_pandas row against the matrix; "
        "non-trivial = some cross has parents differing at >= 2 linked markers; distinct by SHA-256 of the case")
TRUSTED = ["numpy float64 matrix products are compared in tolerance regime T (2^-30 relative to 1+|exact value|) against the exact rational model",
           "free-position cases: the r_ij fed to the Coq model come from HaldaneMapFunction.mapfn (verified by C11); the predicate recomputes them with math.exp",
           "numpy.empty is poisoned with NaN inside run_impl (harness side) so that reads of uninitialised memory are deterministic",
           "harness/translate/c12_kernel.py (ast -> Gen/C12_Kernel.v, fail closed) and the hand-written link lemmas of Proofs/C12_Kernel.v (reflexivity / case analysis)",
           "scaling by powers of two commutes exactly with binary64 arithmetic in the absence of under/overflow (uscale in [-40, 20])"]
ASSUMPTIONS = ["alleles coded 0/1, ploidy 2; two-/three-/four-way parents inbred (both phases identical); markers sorted by chromosome and position; mem >= 1 or None"]

LN2H = math.log(2.0) / 2.0
SCHEMES = ("two", "three", "four", "di")
NPAR = {"two": 2, "three": 3, "four": 4, "di": 2}
CLSNAME = {"two": "TwoWay", "three": "ThreeWay", "four": "FourWay", "di": "Dihybrid"}

# ----------------------------------------------------------------------------------------------- case generation
def _mkcase(rng, scheme, kind, **kw):
    n = kw.get("n", rng.randint(1, {"two": 5, "three": 4, "four": 3, "di": 4}[scheme]))
    nchr = kw.get("nchr", rng.choice([1, 2, 2, 3]))
    maxp = {"two": 12, "three": 9, "four": 7, "di": 8}[scheme]
    nself = kw.get("nself", rng.choice([0, 0, 1, 2, 3, 5, "inf"]))
    posmode = kw.get("posmode", rng.choice(["ln2", "free"]))
    if posmode == "free" and nself != 0:
        maxp = min(maxp, 7)                       # denominators 1+2r are pairwise coprime: keep the exact sums small
    sizes = kw.get("sizes")
    if kw.get("big"): maxp = 10 ** 6
    if sizes is None:
        while True:
            sizes = [rng.choice([1, 2, 3, 3, 4, 5, 6]) for _ in range(nchr)]
            if sum(sizes) <= maxp: break
    p = sum(sizes)
    t = kw.get("t") or rng.choice([1, 2, 2, 3])
    pos = []
    for s in sizes:
        x = 0 if rng.random() < 0.5 else rng.randint(0, 3)
        for _ in range(s):
            pos.append(x)
            if posmode == "ln2": x += rng.choice([0, 1, 1, 1, 2, 3])
            else: x += rng.choice([0, 1, 2, 3, 5, 8, 13, 24, 40])         # units of 1/64 Morgan
    if kw.get("big"):
        pos = []
        for s_ in sizes:
            x = 0
            for k_ in range(s_):
                pos.append(x); x += 1 if k_ % 16 == 15 else 0      # dense map: r stays well inside (0, 1/2)
    hap0 = [[rng.randint(0, 1) for _ in range(p)] for _ in range(n)]
    if n >= 2 and rng.random() < 0.3:
        hap0[rng.randrange(n)] = list(hap0[rng.randrange(n)])            # duplicate (genetically identical) parents
    if scheme == "di":
        hap1 = [[(a if rng.random() < 0.5 else 1 - a) for a in row] for row in hap0]
        if rng.random() < 0.2: hap1[rng.randrange(n)] = list(hap0[rng.randrange(n)])
    else:
        hap1 = [list(r) for r in hap0]
    u = [[rng.randint(-12, 12) for _ in range(t)] for _ in range(p)]      # units of 1/4
    if rng.random() < 0.15:
        u[rng.randrange(p)] = [0] * t
    mem = kw.get("mem", rng.choice([1, 2, 3, 5, None, None, max(sizes), max(sizes) + 1, 1024]))
    via = kw.get("via", rng.choice(["algmod", "algmod", "gmod", "fcty_gmod", "fcty_algmod"]))
    if kind == "cov": via = rng.choice(["algmod", "gmod"]) if "via" not in kw else kw["via"]
    if kind == "genic":
        via = kw.get("via", rng.choice(["algmod", "gmod"] + (["fcty_gmod", "fcty_algmod"] if scheme == "two" else [])))
        nself = 0; posmode = "ln2"
        mem = kw.get("mem", rng.choice([1, 7, 1000]))
    case = {"scheme": scheme, "kind": kind, "via": via, "hap0": hap0, "hap1": hap1, "sizes": sizes, "pos": pos, "posmode": posmode,
            "u": u, "beta": [rng.randint(-8, 8) for _ in range(t)], "nself": nself, "mem": mem,
            "perm": rng.sample(range(n), n), "tlabels": rng.random() < 0.8}
    if kw.get("big"): case["big"] = True
    # phase-2 dimensions: non-default ncross / nprogeny (must not matter), marker effects far from 1 (dyadic scale 2^uscale; the
    # reported values are divided by 4^uscale, exactly), how the input objects are obtained (constructor, copy, deepcopy, select_taxa
    # out of a larger population, property setters, a SESSION = same objects used for an earlier call in another state and updated
    # in place), positions far from 1 (2^pe) and the second map function (free positions only)
    case["ncross"] = kw.get("ncross", rng.choice([1, 1, 3]))
    case["nprogeny"] = kw.get("nprogeny", rng.choice([10, 10, 1, 80]))
    case["uscale"] = kw.get("uscale", rng.choice([0, 0, 0, 0, -40, -20, -8, 7, 20]))
    case["route"] = kw.get("route", rng.choice(["ctor", "ctor", "copy", "deepcopy", "select", "session", "setter"]))
    if posmode == "free":
        case["pe"] = kw.get("pe", rng.choice([0, 0, 0, -34, 14]))
        case["mapfn"] = kw.get("mapfn", rng.choice(["haldane", "haldane", "kosambi"]))
    if kind == "uc":
        case["nself"] = nself if nself != "inf" else 4
        case["si"] = rng.choice([0, 2, 4, 6, 7, 11])                       # units of 1/4
        case["unique"] = rng.random() < 0.6
        case["ucvia"] = kw.get("ucvia", rng.choice(["calc", "calc", "Subset", "Real", "Integer", "Binary"]))
        case["pct"] = rng.choice([1, 2, 4, 8, 16])                          # upper percentile = pct/32
        case["via"] = "fcty_gmod"
        case["xmapctor"] = rng.random() < 0.4          # from_pgmat_gpmod_xmap with the cross map handed in explicitly
    return case

def gen_cases(rng, tier):
    cases = []
    # deterministic corners
    for scheme in SCHEMES:
        for kind in ("var", "cov", "genic", "uc"):
            cases.append(_mkcase(rng, scheme, kind, n=1, sizes=[1], t=1, nself=0, mem=None))
            cases.append(_mkcase(rng, scheme, kind, n=2, sizes=[1, 1], t=2, nself=1, mem=1))
            cases.append(_mkcase(rng, scheme, kind, n=2, sizes=[3], t=1, nself=0, mem=2, posmode="ln2"))
        for nself in (0, 1, 2, 3, 5, "inf"):
            for mem in (1, 2, None):
                cases.append(_mkcase(rng, scheme, "var", nself=nself, mem=mem, n=min(3, {"two": 3, "three": 3, "four": 2, "di": 3}[scheme]),
                                     posmode="ln2" if (nself, mem) != (0, 1) else "free", via="algmod"))
        for via in ("algmod", "gmod", "fcty_gmod", "fcty_algmod"):
            cases.append(_mkcase(rng, scheme, "var", via=via, n=2))
    # genic matrices of every scheme with enough taxa for all parents to differ, and the covariance classes of every scheme
    for scheme in SCHEMES:
        for via in ("algmod", "gmod"):
            cases.append(_mkcase(rng, scheme, "genic", via=via, n=3))
            cases.append(_mkcase(rng, scheme, "cov", via=via, n=3 if scheme != "four" else 2, t=2))
    # usefulness criterion: every scheme x entry point x unique/repeated parents, enough taxa for a proper cross
    for scheme in SCHEMES:
        for ucvia in ("calc", "Subset", "Real", "Integer", "Binary"):
            for unique in (True, False):
                c = _mkcase(rng, scheme, "uc", n={"two": 3, "three": 4 if unique else 3, "four": 4 if unique else 2, "di": 3}[scheme],
                            ucvia=ucvia, sizes=[2, 2] if scheme == "four" else None)
                c["unique"] = unique
                cases.append(c)
    # entry-point audit (introspection, fail closed) and the helper functions of vmat/util.py called directly
    cases.append({"kind": "audit", "scheme": "two"})
    for nself in (0, 1, 2, 5, "inf"):
        cases.append({"kind": "util", "scheme": "two", "nself": nself, "rs": sorted(set([0, 32] + [rng.randint(0, 32) for _ in range(6)])),
                      "shape2": rng.random() < 0.5})
    # every scheme x every route of obtaining the inputs, at a non-trivial scale; both map functions
    for scheme in SCHEMES:
        for route in ("copy", "deepcopy", "select", "session", "setter"):
            cases.append(_mkcase(rng, scheme, rng.choice(["var", "cov"]), route=route, n=2 if scheme == "four" else 3, uscale=rng.choice([-40, 20, 0]),
                                 via=rng.choice(["algmod", "gmod"])))
        for kind_ in ("var", "cov"):
            cases.append(_mkcase(rng, scheme, kind_, posmode="free", mapfn="kosambi", n=2, nself=rng.choice([0, 1, "inf"]), via="algmod", t=2 if kind_ == "cov" else None))
        cases.append(_mkcase(rng, scheme, "uc", route="session", uscale=-20, n={"two": 3, "three": 3, "four": 2, "di": 3}[scheme], ucvia="calc"))
    # more markers than a narrow integer can count (> 255), chunk size at the 128 boundary: predicate only (not evaluated in Coq)
    for scheme in (("two", "three") if tier == "quick" else SCHEMES):
        cases.append(_mkcase(rng, scheme, rng.choice(["var", "cov"]), n=2, sizes=[258, 3], t=1, nself=rng.choice([0, 2]), mem=rng.choice([128, 127, None]),
                             posmode="ln2", via="algmod", route="ctor", big=True))
    N = {"quick": 170, "thorough": 2600}[tier]
    for _ in range(N):
        scheme = rng.choice(["two", "two", "three", "four", "di", "di"])
        kind = rng.choice(["var", "var", "var", "var", "cov", "cov", "genic", "uc"])
        cases.append(_mkcase(rng, scheme, kind))
    # small cases for the full multi-locus enumeration in the predicate
    for _ in range({"quick": 40, "thorough": 500}[tier]):
        scheme = rng.choice(SCHEMES)
        nchr = rng.choice([1, 2])
        sizes = [[4], [3], [2, 2], [3, 1], [1, 2]][rng.randrange(5)] if nchr == 2 or True else None
        cases.append(_mkcase(rng, scheme, rng.choice(["var", "var", "cov"]), n=rng.randint(2, 3), sizes=sizes, nself=rng.choice([0, 1, 2]),
                             t=rng.choice([1, 2])))
    return cases

# ----------------------------------------------------------------------------------------------- implementation driver
def _genpos(case):
    if case["posmode"] == "ln2": return [k * LN2H for k in case["pos"]]
    return [k / 64.0 * 2.0 ** case.get("pe", 0) for k in case["pos"]]

def _usc(case): return 2.0 ** case.get("uscale", 0)

def _mapfn_obj(case):
    if case.get("mapfn", "haldane") == "kosambi":
        from pybrops.popgen.gmap.KosambiMapFunction import KosambiMapFunction
        return KosambiMapFunction()
    from pybrops.popgen.gmap.HaldaneMapFunction import HaldaneMapFunction
    return HaldaneMapFunction()

def _chrgrp(case):
    out = []
    for c, s in enumerate(case["sizes"]): out += [c + 1] * s
    return out

@contextlib.contextmanager
def _poison_empty():
    """numpy.empty -> NaN-filled for float arrays: a read of never-written memory becomes a deterministic NaN"""
    orig = numpy.empty
    def empty(shape, dtype=float, *a, **k):
        arr = orig(shape, dtype, *a, **k)
        if arr.dtype.kind == "f": arr.fill(numpy.nan)
        return arr
    numpy.empty = empty
    try: yield
    finally: numpy.empty = orig

def _state(case, perm=None, decoy=False):
    """the arrays of the wanted state (or of a DECOY state of the same shapes: other alleles, effects, positions)"""
    h0 = numpy.array(case["hap0"], dtype="int8"); h1 = numpy.array(case["hap1"], dtype="int8")
    n, p = h0.shape
    taxa = numpy.array(["T%02d" % i for i in range(n)], dtype=object)
    grp = numpy.array([i // 2 for i in range(n)], dtype=int)
    if perm is not None:
        h0, h1, taxa, grp = h0[perm], h1[perm], taxa[perm], grp[perm]
    u = numpy.array(case["u"], dtype=float) / 4.0 * _usc(case)
    beta = numpy.array([case["beta"]], dtype=float) * _usc(case)
    genpos = numpy.array(_genpos(case), dtype=float)
    if decoy:
        h0 = (1 - h0[::-1]).astype("int8"); h1 = numpy.roll(h1, 1, axis=1).astype("int8")
        u = -1.5 * u[::-1] + _usc(case); beta = beta + 3.0 * _usc(case); genpos = genpos * 1.5 + numpy.arange(p) * 0.03125
    return dict(h0=h0, h1=h1, taxa=taxa, grp=grp, u=u, beta=beta, genpos=genpos)

def _build(case, st):
    from pybrops.popgen.gmat.DensePhasedGenotypeMatrix import DensePhasedGenotypeMatrix
    from pybrops.model.gmod.DenseAdditiveLinearGenomicModel import DenseAdditiveLinearGenomicModel
    p = st["h0"].shape[1]
    pg = DensePhasedGenotypeMatrix(numpy.stack([st["h0"], st["h1"]]), taxa=st["taxa"], taxa_grp=st["grp"], vrnt_chrgrp=numpy.array(_chrgrp(case), dtype=int),
                                   vrnt_phypos=numpy.arange(1, p + 1) * 10, vrnt_genpos=st["genpos"].copy())
    pg.group_vrnt()
    t = len(case["u"][0])
    trait = numpy.array(["tr%d" % k for k in range(t)], dtype=object) if case.get("tlabels", True) else None
    gm = DenseAdditiveLinearGenomicModel(beta=st["beta"].copy(), u_misc=None, u_a=st["u"].copy(), trait=trait)
    return pg, gm

def _objects(case, perm=None, first_call=None):
    """the input objects in the wanted state, obtained by the route the case names.  `first_call(pg, gm, mf)` is what a session does
    with the objects while they are still in the decoy state (its result is returned for the stale-result checks)."""
    route = case.get("route", "ctor")
    mf = _mapfn_obj(case)
    st = _state(case, perm)
    early = None
    if route in ("ctor", "copy", "deepcopy"):
        pg, gm = _build(case, st)
        if route == "copy": pg, gm = _copy.copy(pg), _copy.copy(gm)
        elif route == "deepcopy": pg, gm = _copy.deepcopy(pg), _copy.deepcopy(gm)
    elif route == "select":
        # a larger population: a decoy taxon in front of every wanted one; the wanted ones are selected in order
        dc = _state(case, perm, decoy=True)
        n = len(st["taxa"])
        big = {k: numpy.stack([x for i in range(n) for x in (dc[k][i], st[k][i])]) for k in ("h0", "h1")}
        big["taxa"] = numpy.array([x for i in range(n) for x in ("D%02d" % i, st["taxa"][i])], dtype=object)
        big["grp"] = numpy.array([x for i in range(n) for x in (90 + i, st["grp"][i])], dtype=int)
        big.update(u=st["u"], beta=st["beta"], genpos=st["genpos"])
        pg0, gm = _build(case, big)
        pg = pg0.select_taxa(numpy.arange(1, 2 * n, 2))
        if not pg.is_grouped_vrnt(): pg.group_vrnt()
    else:
        dc = _state(case, perm, decoy=True)
        pg, gm = _build(case, dc)
        if route == "session" and first_call is not None:
            try: early = first_call(pg, gm, mf)
            except Exception as e: early = "raised " + type(e).__name__
        if route == "setter":
            pg.mat = numpy.stack([st["h0"], st["h1"]]); pg.vrnt_genpos = st["genpos"].copy(); gm.u_a = st["u"].copy(); gm.beta = st["beta"].copy()
        else:                                   # session: in-place updates of the arrays the objects hold
            pg.mat[0, :, :] = st["h0"]; pg.mat[1, :, :] = st["h1"]; pg.vrnt_genpos[:] = st["genpos"]; gm.u_a[:, :] = st["u"]; gm.beta[:, :] = st["beta"]
    if first_call is not None: return pg, gm, mf, early
    return pg, gm, mf

def _nself(case):
    return numpy.inf if case["nself"] == "inf" else int(case["nself"])

def _matrix_class(scheme, kind):
    import importlib
    if kind == "cov":
        name = "Dense%sDHAdditiveProgenyGeneticCovarianceMatrix" % CLSNAME[scheme]; mod = "pybrops.model.pcvmat." + name
    else:
        name = "Dense%sDHAdditive%sVarianceMatrix" % (CLSNAME[scheme], "Genic" if kind == "genic" else "Genetic"); mod = "pybrops.model.vmat." + name
    return getattr(importlib.import_module(mod), name)

def _factory(scheme, kind):
    import importlib
    name = "Dense%sDHAdditive%sVarianceMatrixFactory" % (CLSNAME[scheme], "Genic" if kind == "genic" else "Genetic")
    return getattr(importlib.import_module("pybrops.model.vmat.fcty." + name), name)()

def _call(case, mem, pg, gm, mf):
    scheme, kind, via = case["scheme"], case["kind"], case["via"]
    nself = _nself(case)
    nc, npg = case.get("ncross", 1), case.get("nprogeny", 10)
    cls = _matrix_class(scheme, kind)
    with _poison_empty():
        if kind == "genic":
            if via == "algmod": o = cls.from_algmod(gm, pg, npg, mem=mem)
            elif via == "gmod": o = cls.from_gmod(gm, pg, npg, mem=mem)
            elif via == "fcty_gmod": o = _factory(scheme, kind).from_gmod(gm, pg, npg, mem=mem)
            else: o = _factory(scheme, kind).from_algmod(gm, pg, npg, mem=mem)
        else:
            if via == "algmod": o = cls.from_algmod(gm, pg, nc, npg, nself, mf, mem=mem)
            elif via == "gmod": o = cls.from_gmod(gm, pg, nc, npg, nself, mf, mem=mem)
            elif via == "fcty_gmod": o = _factory(scheme, kind).from_gmod(gm, pg, nc, npg, nself, mf, mem=mem)
            else: o = _factory(scheme, kind).from_algmod(gm, pg, nc, npg, nself, mf, mem=mem)
    return o, cls

def _snap(pg, gm):
    return [pg.mat.tobytes(), pg.vrnt_genpos.tobytes(), gm.u_a.tobytes(), gm.beta.tobytes(), repr(list(pg.taxa)), repr(list(pg.taxa_grp)),
            repr(list(pg.vrnt_chrgrp)), repr(None if gm.trait is None else list(gm.trait))]

def _compute(case, mem, perm=None, hygiene=None):
    """one computation; with `hygiene` (a list) also: inputs unchanged by the call, the result shares no memory with the inputs nor with a
    second result, a result clobbered in place does not influence the next call, a session's earlier result is not touched"""
    pg, gm, mf, early = _objects(case, perm, first_call=lambda a, b, c: _call(case, mem, a, b, c)[0])
    if isinstance(early, str):
        if hygiene is not None: hygiene.append("session: the first call (other state of the same objects) " + early)
        early = None
    early_snap = None if early is None else early.mat.copy()
    before = _snap(pg, gm)
    o, cls = _call(case, mem, pg, gm, mf)
    if hygiene is not None:
        names = ["pgmat.mat", "pgmat.vrnt_genpos", "algmod.u_a", "algmod.beta", "pgmat.taxa", "pgmat.taxa_grp", "pgmat.vrnt_chrgrp", "algmod.trait"]
        for nm, a, b in zip(names, before, _snap(pg, gm)):
            if a != b: hygiene.append("the call modified its input %s" % nm)
        for nm, arr in (("pgmat.mat", pg.mat), ("algmod.u_a", gm.u_a), ("pgmat.vrnt_genpos", pg.vrnt_genpos)):
            if numpy.shares_memory(o.mat, arr): hygiene.append("the result's mat shares memory with %s" % nm)
        if early is not None:
            if numpy.shares_memory(o.mat, early.mat): hygiene.append("session: two results share their mat array")
            if early.mat.tobytes() != early_snap.tobytes(): hygiene.append("session: an earlier result changed when the objects were used again")
        keep = o.mat.copy()
        o.mat.fill(777.0)
        o2, _ = _call(case, mem, pg, gm, mf)
        if numpy.shares_memory(o2.mat, o.mat): hygiene.append("two calls return the same mat array")
        if o2.mat.tobytes() != keep.tobytes(): hygiene.append("a second call on the same objects (first result overwritten in place) gives other values")
        o.mat[...] = keep
    return o, cls

def _fl(a):
    """nested list of floats; NaN -> 'nan' (JSON-safe, deterministic)"""
    a = numpy.asarray(a, dtype=float)
    if a.ndim == 0:
        x = float(a)
        return "nan" if math.isnan(x) else x
    return [_fl(x) for x in a]

def _labels(x):
    return None if x is None else [str(v) for v in x]

AXES = {"two": ["female", "male"], "di": ["female", "male"], "three": ["recurrent", "female", "male"], "four": ["female2", "male2", "female1", "male1"]}

def _summary(o, cls, case=None):
    k4 = 1.0 if case is None else _usc(case) ** 2
    out = {"mat": _fl(o.mat / k4), "shape": list(o.mat.shape), "trait": _labels(o.trait), "taxa": _labels(o.taxa),
           "taxa_grp": None if o.taxa_grp is None else [int(v) for v in o.taxa_grp], "epgc": [float(x) for x in o.epgc],
           "isinst": bool(type(o) is cls)}
    if case is not None and not case.get("big"):
        ax = {}
        for nm in AXES[case["scheme"]]:
            ax[nm + "_axis"] = int(getattr(o, nm + "_axis")); ax["n" + nm] = int(getattr(o, "n" + nm))
        ax["trait_axis"] = int(o.trait_axis); ax["ntaxa"] = int(o.ntaxa); ax["ntrait"] = int(o.ntrait)
        ax["square_taxa_axes"] = [int(v) for v in o.square_taxa_axes]
        out["axes"] = ax
        if o.mat.size <= 600:
            # the labelled long table: one row per cross and trait (pair)
            try:
                df = o.to_pandas()
                cols = [c for c in df.columns if not str(c).endswith("_grp")]
                rows = []
                for r in df[cols].itertuples(index=False):
                    v = float(r[-1]) / k4
                    rows.append([str(x) for x in r[:-1]] + ["nan" if math.isnan(v) else v])
                out["pandas"] = {"cols": [str(c) for c in cols], "rows": rows}
            except Exception as e:
                out["pandas"] = "raised %s: %s" % (type(e).__name__, str(e)[:120])
    return out

def _rmatrix(case):
    g = numpy.array(_genpos(case), dtype=float)
    return _mapfn_obj(case).mapfn(numpy.abs(g[:, None] - g[None, :]))

def run_impl(case):
    out = {}
    if case["kind"] == "uc":
        return _run_uc(case)
    if case["kind"] == "audit":
        return {"audit": _audit()}
    if case["kind"] == "util":
        return _run_util(case)
    try:
        hyg = []
        o, cls = _compute(case, case["mem"], hygiene=hyg)
        out.update(_summary(o, cls, case))
        out["hygiene"] = hyg
    except Exception as e:
        out["raised"] = type(e).__name__; out["msg"] = str(e)[:200]
        return out
    if case["posmode"] == "free":
        out["R"] = _fl(_rmatrix(case))
    # the same computation with unlimited chunk size, and with the taxa reordered
    if case["kind"] != "genic":
        try: out["mat_memnone"] = _fl(_compute(case, None)[0].mat / _usc(case) ** 2)
        except Exception as e: out["mat_memnone"] = "raised " + type(e).__name__
    try:
        o2, _ = _compute(case, case["mem"], perm=numpy.array(case["perm"], dtype=int))
        out["mat_perm"] = _fl(o2.mat / _usc(case) ** 2); out["taxa_perm"] = _labels(o2.taxa)
    except Exception as e: out["mat_perm"] = "raised " + type(e).__name__
    return out

def _run_uc(case):
    import pybrops.breed.prot.sel.prob.UsefulnessCriterionSelectionProblem as UC
    out = {}
    fc = _factory(case["scheme"], "var")
    npar = NPAR[case["scheme"]]
    nself = int(case["nself"])
    P = UC.UsefulnessCriterionSubsetMateSelectionProblem
    nc, npg = case.get("ncross", 1), case.get("nprogeny", 10)
    def first(pg_, gm_, mf_):
        xm = P._calc_xmap(pg_.ntaxa, npar, case["unique"])
        return None if xm.ndim != 2 else P._calc_uc(fc, nc, npg, nself, mf_, 1.25, pg_, gm_, xm)
    pg, gm, mf, early = _objects(case, first_call=first)
    early_snap = None if early is None or isinstance(early, str) else early.copy()
    n = pg.ntaxa
    out["bv"] = _fl(gm.gebv(pg).unscale() / _usc(case))
    try:
        if case["ucvia"] == "calc":
            si = case["si"] / 4.0
            xmap = P._calc_xmap(n, npar, case["unique"])
            if xmap.ndim != 2:
                out["raised"] = "empty-xmap"; return out
            with _poison_empty():
                uc = P._calc_uc(fc, nc, npg, nself, mf, si, pg, gm, xmap)
        else:
            import scipy.stats
            pct = case["pct"] / 32.0
            si = float(scipy.stats.norm.pdf(scipy.stats.norm.ppf(1.0 - pct)) / pct)
            cls = getattr(UC, "UsefulnessCriterion%sMateSelectionProblem" % case["ucvia"])
            xmap0 = P._calc_xmap(n, npar, case["unique"])
            if xmap0.ndim != 2:
                out["raised"] = "empty-xmap"; return out
            nx = len(xmap0)
            t = len(case["u"][0])
            if case["ucvia"] == "Subset":
                kw = dict(ndecn=min(2, nx), decn_space=numpy.arange(nx), decn_space_lower=numpy.repeat(0, min(2, nx)), decn_space_upper=numpy.repeat(nx - 1, min(2, nx)))
            else:
                lo = numpy.repeat(0.0 if case["ucvia"] == "Real" else 0, nx); hi = numpy.repeat(1.0 if case["ucvia"] == "Real" else 1, nx)
                kw = dict(ndecn=nx, decn_space=numpy.stack([lo, hi]), decn_space_lower=lo, decn_space_upper=hi)
            with _poison_empty():
                if case.get("xmapctor"):
                    prob = cls.from_pgmat_gpmod_xmap(npar, nc, npg, nself, pct, fc, mf, case["unique"], pg, gm, xmap0.copy(), nobj=t, **kw)
                else:
                    prob = cls.from_pgmat_gpmod(npar, nc, npg, nself, pct, fc, mf, case["unique"], pg, gm, nobj=t, **kw)
            uc = prob.ucmat; xmap = prob.decn_space_xmap
    except Exception as e:
        out["raised"] = type(e).__name__; out["msg"] = str(e)[:200]
        return out
    out["uc"] = _fl(numpy.asarray(uc) / _usc(case)); out["xmap"] = [[int(v) for v in r] for r in xmap]; out["si"] = si
    hyg = []
    if isinstance(early, str): hyg.append("session: the first call " + early)
    elif early is not None:
        if numpy.shares_memory(early, uc): hyg.append("session: two usefulness-criterion results share memory")
        if early.tobytes() != early_snap.tobytes(): hyg.append("session: an earlier usefulness-criterion result changed when the objects were used again")
    out["hygiene"] = hyg
    if case["posmode"] == "free": out["R"] = _fl(_rmatrix(case))
    return out

# ----------------------------------------------------------------------------------------------- vmat/util.py called directly
def _run_util(case):
    import pybrops.model.vmat.util as U_
    r0 = numpy.array(case["rs"], dtype=float) / 64.0
    if case.get("shape2"): r0 = r0[:, None] * numpy.ones((1, 2))
    ns = _nself(case)
    out = {"hygiene": []}
    def call(name, f, *a):
        r = r0.copy(); keep = r.tobytes()
        try: v = f(r, *a)
        except Exception as e:
            out[name] = "raised " + type(e).__name__; return
        if r.tobytes() != keep: out["hygiene"].append("%s modified its argument r in place" % name)
        if isinstance(v, numpy.ndarray) and numpy.shares_memory(v, r): out["hygiene"].append("%s returns memory of its argument" % name)
        v = numpy.asarray(v, dtype=float)
        out[name] = _fl(v[:, 0] if v.ndim == 2 else v) if v.shape[:1] == r0.shape[:1] else "shape %s" % (v.shape,)
    call("rk", U_.rprob_filial, ns + 1)
    call("D1", U_.cov_D1s, ns); call("D2", U_.cov_D2s, ns)
    call("D1t0", U_.cov_D1st, ns, 0); call("D2t0", U_.cov_D2st, ns, 0)
    return out

def _pred_util(case, out):
    bad = list(out.get("hygiene", []))
    for i, k in enumerate(case["rs"]):
        r = k / 64.0
        G0, F = _meiosis2(r), _evolve2(r, case["nself"])
        d1 = 4.0 * _cov2(numpy.einsum("ab,abg->g", _init_dist("two", G0, (3, 0)), F))
        d2 = 16.0 * _cov2(numpy.einsum("ab,abg->g", _init_dist("three", G0, (0, 3, 0)), F)) - 2.0 * d1
        for nm, want in (("D1", d1), ("D2", d2), ("D1t0", d1), ("D2t0", d2), ("rk", (1.0 - d1) / 2.0)):
            got = out.get(nm)
            if isinstance(got, str) or got is None: bad.append("%s(r, nself=%s) %s" % (nm, case["nself"], got)); continue
            if not _close(got[i], want, 1e-9): bad.append("%s at r=%r, nself=%s: %r, the two-locus enumeration gives %r" % (nm, r, case["nself"], got[i], want))
    seen = []
    for b in bad:
        if b not in seen: seen.append(b)
    return seen

def _emit_util(case, out):
    if any(isinstance(out.get(k), str) or k not in out for k in ("rk", "D1", "D2", "D1t0", "D2t0")): return "false"
    if any(_has_nan(out[k]) for k in ("rk", "D1", "D2", "D1t0", "D2t0")): return "false"
    rs = E.lst([Fraction(k, 64) for k in case["rs"]], E.q)
    d = "None" if case["nself"] == "inf" else "(Some %s)" % E.nat(case["nself"])
    f = lambda k: E.lst(out[k], _q)
    return ("(let rs := %s in let d := %s in qclose_l %s (map (fun r => rprob_filial r (dsucc d)) rs) && qclose_l %s (map (fun r => cov_D1s r d) rs) && "
            "qclose_l %s (map (fun r => cov_D2s r d) rs) && qclose_l %s (map (fun r => cov_D1s r d) rs) && qclose_l %s (map (fun r => cov_D2s r d) rs))"
            % (rs, d, f("rk"), f("D1"), f("D2"), f("D1t0"), f("D2t0")))

# ----------------------------------------------------------------------------------------------- entry-point audit (fail closed)
_S4 = ("TwoWay", "ThreeWay", "FourWay", "Dihybrid")
COVERED_CLASSES = (["pybrops.model.vmat.Dense%sDHAdditive%sVarianceMatrix" % (s_, k_) for s_ in _S4 for k_ in ("Genetic", "Genic")]
                   + ["pybrops.model.pcvmat.Dense%sDHAdditiveProgenyGeneticCovarianceMatrix" % s_ for s_ in _S4])
COVERED_FACTORIES = (["pybrops.model.vmat.fcty.Dense%sDHAdditiveGeneticVarianceMatrixFactory" % s_ for s_ in _S4]
                     + ["pybrops.model.vmat.fcty.DenseTwoWayDHAdditiveGenicVarianceMatrixFactory"])
SKIPPED = {
    # abstract interfaces / semi-abstract bases: no computation of their own, cannot be instantiated (checked: they must stay abstract)
    "abstract": ["pybrops.model.vmat." + n_ for n_ in ("AdditiveGeneticVarianceMatrix", "AdditiveGenicVarianceMatrix", "DenseAdditiveGeneticVarianceMatrix",
                 "DenseAdditiveGenicVarianceMatrix", "DenseGeneticVarianceMatrix", "DenseGenicVarianceMatrix", "GeneticVarianceMatrix", "GenicVarianceMatrix")]
                + ["pybrops.model.vmat.fcty." + n_ for n_ in ("AdditiveGeneticVarianceMatrixFactory", "AdditiveGenicVarianceMatrixFactory",
                   "GeneticVarianceMatrixFactory", "GenicVarianceMatrixFactory")]
                + ["pybrops.model.pcvmat." + n_ for n_ in ("AdditiveProgenyGeneticCovarianceMatrix", "AdditiveProgenyGenicCovarianceMatrix",
                   "DenseAdditiveProgenyGeneticCovarianceMatrix", "DenseAdditiveProgenyGenicCovarianceMatrix", "DenseProgenyGeneticCovarianceMatrix",
                   "DenseProgenyGenicCovarianceMatrix", "ProgenyGeneticCovarianceMatrix", "ProgenyGenicCovarianceMatrix")]
                # the genic covariance classes have a from_algmod but leave is_square_trait / nsquare_trait / square_trait_axes_len abstract:
                # no object of them can exist; if they become concrete the audit fails until they are covered
                + ["pybrops.model.pcvmat.Dense%sDHAdditiveProgenyGenicCovarianceMatrix" % s_ for s_ in _S4],
    # members of the covered classes that are not (co)variance computations
    "members": {"from_csv": "persistence round trips: property C16", "from_hdf5": "C16", "from_pandas": "C16", "to_csv": "C16", "to_hdf5": "C16"},
    "functions": {"pybrops.model.vmat.util.cov_D1st[t>0]": "random intermating generations are outside the property statement (selfing only); t = 0 is covered and must equal cov_D1s",
                  "pybrops.model.vmat.util.cov_D2st[t>0]": "as cov_D1st",
                  "pybrops.core.util.subroutines.matrix_is_sorted": "not used by the anchored computations", "pybrops.core.util.subroutines.slice_to_range": "not used",
                  "pybrops.core.util.subroutines.slice_to_list": "not used", "pybrops.core.util.subroutines.human2bytes": "not used"},
    "parameters": {"gmapfn": "HaldaneMapFunction and KosambiMapFunction (free positions) are driven; they are the only GeneticMapFunction subclasses",
                   "ploidy != 2 / more than two phases": "the property is about diploid parents (ASSUMPTIONS)", "nself < 0": "rejected by cov_D1s (ValueError), outside the quantifier"},
}
COVERED_MEMBERS = {"from_algmod", "from_gmod", "epgc", "mat", "to_pandas", "trait_axis", "square_axes", "square_taxa_axes", "square_trait_axes",
                   "female_axis", "male_axis", "recurrent_axis", "female1_axis", "female2_axis", "male1_axis", "male2_axis",
                   "nfemale", "nmale", "nrecurrent", "nfemale1", "nfemale2", "nmale1", "nmale2"}
_SIG = {"genetic.from_algmod": ["algmod", "pgmat", ("nmating", "ncross"), "nprogeny", "nself", "gmapfn", "mem"],
        "genetic.from_gmod": ["gmod", "pgmat", ("nmating", "ncross"), "nprogeny", "nself", "gmapfn", "kwargs"],
        "genic.from_algmod": ["algmod", "pgmat", "nprogeny", "mem"], "genic.from_gmod": ["gmod", "pgmat", "nprogeny", "kwargs"],
        "fcty.genetic.from_algmod": ["self", "algmod", "pgmat", "ncross", "nprogeny", "nself", "gmapfn", "mem", "kwargs"],
        "fcty.genetic.from_gmod": ["self", "gmod", "pgmat", "ncross", "nprogeny", "nself", "gmapfn", "kwargs"],
        "fcty.genic.from_algmod": ["self", "algmod", "pgmat", "nprogeny", "mem", "kwargs"], "fcty.genic.from_gmod": ["self", "gmod", "pgmat", "nprogeny", "kwargs"]}

def _audit():
    """every public class / function / method / parameter of the anchored packages is either driven by the generators or listed in
    SKIPPED with a reason; anything new makes the check fail until it is classified"""
    import importlib, pkgutil, inspect
    bad = []
    def sig_ok(f, want):
        got = list(inspect.signature(f).parameters)
        return len(got) == len(want) and all((g in w) if isinstance(w, tuple) else g == w for g, w in zip(got, want))
    known = set(COVERED_CLASSES) | set(COVERED_FACTORIES) | set(SKIPPED["abstract"])
    for pkgname in ("pybrops.model.vmat", "pybrops.model.vmat.fcty", "pybrops.model.pcvmat"):
        pkg = importlib.import_module(pkgname)
        for mi in pkgutil.iter_modules(pkg.__path__):
            if mi.ispkg:
                if pkgname + "." + mi.name != "pybrops.model.vmat.fcty": bad.append("unclassified sub-package %s.%s" % (pkgname, mi.name))
                continue
            full = pkgname + "." + mi.name
            m = importlib.import_module(full)
            for nm, o in vars(m).items():
                if nm.startswith("_") or getattr(o, "__module__", None) != full: continue
                if inspect.isclass(o):
                    if full not in known or nm != mi.name: bad.append("unclassified class %s.%s" % (full, nm)); continue
                    abstract = bool(getattr(o, "__abstractmethods__", None))
                    if full in SKIPPED["abstract"]:
                        if not abstract: bad.append("%s is listed as abstract but can now be instantiated: cover it" % full)
                        continue
                    if abstract: bad.append("%s is covered but abstract" % full); continue
                    own = {k for k in vars(o) if not k.startswith("_")}
                    if full in COVERED_FACTORIES:
                        if own != {"from_algmod", "from_gmod"}: bad.append("%s: unclassified members %s" % (full, sorted(own - {"from_algmod", "from_gmod"})))
                        fam = "fcty.genic" if "Genic" in nm else "fcty.genetic"
                    else:
                        extra = own - COVERED_MEMBERS - set(SKIPPED["members"])
                        if extra: bad.append("%s: unclassified members %s" % (full, sorted(extra)))
                        fam = "genic" if "Genic" in nm else "genetic"
                    for meth in ("from_algmod", "from_gmod"):
                        if not sig_ok(getattr(o, meth), _SIG[fam + "." + meth]):
                            bad.append("%s.%s has parameters %s (the generators drive %s)" % (full, meth, list(inspect.signature(getattr(o, meth)).parameters), _SIG[fam + "." + meth]))
                elif callable(o):
                    if full == "pybrops.model.vmat.util":
                        if nm not in ("rprob_filial", "cov_D1s", "cov_D2s", "cov_D1st", "cov_D2st"): bad.append("unclassified function %s.%s" % (full, nm))
                    elif not nm.startswith("check_is_"): bad.append("unclassified function %s.%s" % (full, nm))
    import pybrops.model.vmat.util as U_
    for nm, want in (("rprob_filial", ["r", "k"]), ("cov_D1s", ["r", "nself"]), ("cov_D2s", ["r", "nself"]), ("cov_D1st", ["r", "nself", "t"]), ("cov_D2st", ["r", "nself", "t"])):
        if not sig_ok(getattr(U_, nm), want): bad.append("util.%s has parameters %s" % (nm, list(inspect.signature(getattr(U_, nm)).parameters)))
    import pybrops.core.util.subroutines as S_
    for nm, o in vars(S_).items():
        if callable(o) and getattr(o, "__module__", None) == S_.__name__ and not nm.startswith("_"):
            if nm != "srange" and "pybrops.core.util.subroutines." + nm not in SKIPPED["functions"]: bad.append("unclassified function subroutines." + nm)
    if not sig_ok(S_.srange, ["start", "stop", "step"]): bad.append("srange parameters changed")
    import pybrops.breed.prot.sel.prob.UsefulnessCriterionSelectionProblem as UC
    want_uc = {"UsefulnessCriterionSelectionProblemMixin": {"_calc_uc", "_calc_xmap", "from_pgmat_gpmod", "from_pgmat_gpmod_xmap", "nlatent", "ucmat"},
               "UsefulnessCriterionBinaryMateSelectionProblem": {"from_pgmat_gpmod", "from_pgmat_gpmod_xmap", "latentfn"},
               "UsefulnessCriterionIntegerMateSelectionProblem": {"from_pgmat_gpmod", "from_pgmat_gpmod_xmap", "latentfn"},
               "UsefulnessCriterionRealMateSelectionProblem": {"from_pgmat_gpmod", "from_pgmat_gpmod_xmap", "latentfn"},
               "UsefulnessCriterionSubsetMateSelectionProblem": {"from_pgmat_gpmod", "from_pgmat_gpmod_xmap", "latentfn", "ucmat"}}
    for nm, o in vars(UC).items():
        if inspect.isclass(o) and o.__module__ == UC.__name__:
            own = {k for k in vars(o) if not k.startswith("__") and k != "_abc_impl"}
            if nm not in want_uc: bad.append("unclassified class %s in the usefulness-criterion module" % nm)
            elif own != want_uc[nm]: bad.append("%s: members %s (classified: %s; latentfn / nlatent belong to property C05)" % (nm, sorted(own), sorted(want_uc[nm])))
    if not sig_ok(UC.UsefulnessCriterionSelectionProblemMixin._calc_uc,
                  ["vmatfcty", "ncross", "nprogeny", "nself", "gmapfn", "selection_intensity", "pgmat", "gmod", "xmap"]): bad.append("_calc_uc parameters changed")
    return bad

# ----------------------------------------------------------------------------------------------- independent predicate
def _haldane(d): return 0.5 * (1.0 - math.exp(-2.0 * d))
def _kosambi(d): return 0.5 * math.tanh(2.0 * d)
def _mapr(case, d): return _kosambi(d) if case.get("mapfn", "haldane") == "kosambi" else _haldane(d)

_H2 = [(0, 0), (0, 1), (1, 0), (1, 1)]                 # two-locus haplotypes
def _meiosis2(r):
    """G[(h1,h2)] -> distribution over the 4 two-locus haplotypes produced by one meiosis of individual (h1,h2)"""
    G = numpy.zeros((4, 4, 4))
    for a, ha in enumerate(_H2):
        for b, hb in enumerate(_H2):
            G[a, b, _H2.index(ha)] += (1 - r) / 2; G[a, b, _H2.index(hb)] += (1 - r) / 2
            G[a, b, _H2.index((ha[0], hb[1]))] += r / 2; G[a, b, _H2.index((hb[0], ha[1]))] += r / 2
    return G

def _evolve2(r, nself):
    """returns F with F[a,b,:] = distribution of the DH gamete from individual (a,b) after nself selfing generations (two-locus enumeration)"""
    G = _meiosis2(r)
    k = 80 if nself == "inf" else int(nself)
    # distribution over individuals as a (4,4) array; linear map applied k times, starting from each pure individual
    F = G.copy()                                             # nself = 0
    if k == 0: return F
    # T[(a,b) -> (c,d)] = G[a,b,c] * G[a,b,d]
    T = numpy.einsum("abc,abd->abcd", G, G).reshape(16, 16)
    M = numpy.linalg.matrix_power(T, k)
    return (M @ G.reshape(16, 4)).reshape(4, 4, 4)

def _cov2(dist):
    """covariance of the two allele indicators under a distribution over the 4 haplotypes, and both variances"""
    e1 = dist[2] + dist[3]; e2 = dist[1] + dist[3]; e12 = dist[3]
    return e12 - e1 * e2

def _init_dist(scheme, G0, haps):
    """(4,4) distribution of the individual whose selfing descendants are made DH; haps = two-locus haplotype indices of the parental gametes"""
    D = numpy.zeros((4, 4))
    if scheme == "two":
        D[haps[0], haps[1]] = 1.0
    elif scheme == "three":                                   # (female x male) F1 gamete  x  recurrent
        r_, f, m = haps
        for g in range(4): D[g, r_] += G0[f, m, g]
    else:                                                     # four: (P1 x P2) gamete x (P3 x P4) gamete ; di: the same with the parents' two phases
        a, b, c, d = haps
        D = numpy.einsum("g,h->gh", G0[a, b], G0[c, d])
    return D

def _crosses(case, n):
    s = case["scheme"]
    if s in ("two", "di"): return list(itertools.product(range(n), repeat=2))
    return list(itertools.product(range(n), repeat=NPAR[s]))

def _parent_haps(case, cross):
    """list of parental haplotypes (allele lists) in the order the enumeration wants them"""
    h0, h1 = case["hap0"], case["hap1"]
    s = case["scheme"]
    if s == "two": return [h0[cross[0]], h0[cross[1]]]
    if s == "three": return [h0[cross[0]], h0[cross[1]], h0[cross[2]]]
    if s == "four": return [h0[cross[0]], h0[cross[1]], h0[cross[2]], h0[cross[3]]]
    return [h0[cross[0]], h1[cross[0]], h0[cross[1]], h1[cross[1]]]

def truth_pairwise(case):
    """exact progeny (co)variance of every cross: 4 * sum_ij u_i u_j Cov(g_i, g_j), every Cov from the two-locus enumeration"""
    pos = _genpos(case); chrom = _chrgrp(case)
    u = numpy.array(case["u"], dtype=float) / 4.0
    p, t = u.shape
    n = len(case["hap0"])
    crosses = _crosses(case, n)
    res = {c: numpy.zeros((t, t)) for c in crosses}
    cache = {}
    for i in range(p):
        for j in range(p):
            r = 0.5 if chrom[i] != chrom[j] else _mapr(case, abs(pos[i] - pos[j]))
            if i == j: r = 0.0
            key = round(r, 15)
            if key not in cache: cache[key] = (_meiosis2(r), _evolve2(r, case["nself"]))
            G0, F = cache[key]
            w = numpy.outer(u[i], u[j])
            if not w.any(): continue
            memo = {}
            for c in crosses:
                ph = _parent_haps(case, c)
                hk = tuple(_H2.index((h[i], h[j])) for h in ph)
                if hk not in memo:
                    D = _init_dist(case["scheme"], G0, hk)
                    memo[hk] = _cov2(numpy.einsum("ab,abg->g", D, F))
                cv = memo[hk]
                if cv != 0.0: res[c] += 4.0 * cv * w
    return res

def truth_genic(case):
    """genetic variance with linkage ignored: sum_i (2 u_i)^2 p_i (1 - p_i), p_i the allele frequency among the cross's gametes"""
    u = numpy.array(case["u"], dtype=float) / 4.0
    n = len(case["hap0"])
    contrib = {"two": (0.5, 0.5), "three": (0.5, 0.25, 0.25), "four": (0.25,) * 4, "di": (0.25,) * 4}[case["scheme"]]
    res = {}
    for c in _crosses(case, n):
        ph = numpy.array(_parent_haps(case, c), dtype=float)
        pfreq = numpy.dot(contrib, ph)
        res[c] = ((2.0 * u) ** 2 * (pfreq * (1 - pfreq))[:, None]).sum(0)
    return res

def _gametes_full(h1, h2, gaps, cache):
    key = (h1, h2)
    if key in cache: return cache[key]
    L = len(h1); d = {}
    for s0 in (0, 1):
        for xo in itertools.product((0, 1), repeat=L - 1):
            pr = 0.5; s = s0; g = [(h1, h2)[s][0]]
            for k in range(1, L):
                if xo[k - 1]: s = 1 - s; pr *= gaps[k - 1]
                else: pr *= 1 - gaps[k - 1]
                g.append((h1, h2)[s][k])
            g = tuple(g)
            if pr: d[g] = d.get(g, 0.0) + pr
    cache[key] = d
    return d

def truth_full(case, cross):
    """brute force over whole multi-locus gametes (all chromosomes as one chain, p = 1/2 between chromosomes): (t,t) covariance of the DH value"""
    pos = _genpos(case); chrom = _chrgrp(case)
    L = len(pos)
    gaps = [0.5 if chrom[k] != chrom[k - 1] else _haldane(abs(pos[k] - pos[k - 1])) for k in range(1, L)]
    u = numpy.array(case["u"], dtype=float) / 4.0
    ph = [tuple(h) for h in _parent_haps(case, cross)]
    cache = {}
    s = case["scheme"]
    if s == "two": dist = {(ph[0], ph[1]): 1.0}
    elif s == "three":
        dist = {}
        for g, pr in _gametes_full(ph[1], ph[2], gaps, cache).items(): dist[(g, ph[0])] = dist.get((g, ph[0]), 0.0) + pr
    else:
        dist = {}
        for g, pr in _gametes_full(ph[0], ph[1], gaps, cache).items():
            for g2, pr2 in _gametes_full(ph[2], ph[3], gaps, cache).items():
                dist[(g, g2)] = dist.get((g, g2), 0.0) + pr * pr2
    for _ in range(int(case["nself"])):
        nd = {}
        for (a, b), pr in dist.items():
            gd = _gametes_full(a, b, gaps, cache)
            for g1, p1 in gd.items():
                for g2, p2 in gd.items():
                    nd[(g1, g2)] = nd.get((g1, g2), 0.0) + pr * p1 * p2
        dist = nd
    fin = {}
    for (a, b), pr in dist.items():
        for g, p1 in _gametes_full(a, b, gaps, cache).items(): fin[g] = fin.get(g, 0.0) + pr * p1
    vals = numpy.array([2.0 * numpy.dot(numpy.array(g, dtype=float), u) for g in fin]); w = numpy.array(list(fin.values()))
    mean = w @ vals
    return (vals - mean).T @ ((vals - mean) * w[:, None])

def _close(x, y, tol=1e-9):
    if isinstance(x, str) or isinstance(y, str): return False
    return abs(x - y) <= tol * (1.0 + abs(y))

def _get(mat, idx):
    for k in idx: mat = mat[k]
    return mat

def _diag_pattern(scheme, cross):
    """crosses with a repeated last parent / selfs (the index pattern the loops did not visit before the repairs)"""
    if scheme in ("two", "di"): return cross[0] == cross[1]
    if scheme == "three": return cross[1] == cross[2]
    return cross[2] == cross[3]

def _expected_dim(case):
    return {"two": 2, "three": 3, "four": 4, "di": 2}[case["scheme"]]

def pred(case, out):
    if "exc" in out:
        return ["harness/implementation raised %s: %s" % (out["exc"], out["msg"])]
    bad = []
    scheme, kind = case["scheme"], case["kind"]
    if kind == "audit":
        return list(out["audit"])
    if kind == "util":
        return _pred_util(case, out)
    n = len(case["hap0"]); t = len(case["u"][0])
    if kind == "uc":
        return _pred_uc(case, out)
    if "raised" in out:
        return ["%s/%s via %s raised %s: %s" % (scheme, kind, case["via"], out["raised"], out.get("msg", ""))]
    # ---- metadata
    dim = _expected_dim(case)
    want_shape = [n] * dim + ([t, t] if kind == "cov" else [t])
    if out["shape"] != want_shape: return ["result shape %s, expected %s" % (out["shape"], want_shape)]
    if not out["isinst"]: bad.append("result is not an instance of the class it was requested from")
    taxa = ["T%02d" % i for i in range(n)]
    if out["taxa"] != taxa: bad.append("taxa labels %s != %s" % (out["taxa"], taxa))
    if out["taxa_grp"] != [i // 2 for i in range(n)]: bad.append("taxa_grp not carried over")
    want_trait = ["tr%d" % k for k in range(t)] if case.get("tlabels", True) else None
    if out["trait"] != want_trait:
        bad.append("trait labels %s, the genomic model's are %s" % (out["trait"], want_trait))
    want_epgc = {"two": [0.5, 0.5], "three": [0.5, 0.25, 0.25], "four": [0.25] * 4, "di": [0.5, 0.5]}[scheme]
    if out["epgc"] != want_epgc: bad.append("epgc %s" % out["epgc"])
    bad += list(out.get("hygiene", []))
    # ---- which axis carries which parent; the labelled long table (to_pandas) reports the same numbers under the right labels
    if "axes" in out:
        want_ax = {"trait_axis": dim, "ntaxa": n, "ntrait": t, "square_taxa_axes": list(range(dim))}
        for k_, nm in enumerate(AXES[scheme]):
            want_ax[nm + "_axis"] = k_; want_ax["n" + nm] = n
        if out["axes"] != want_ax: bad.append("axis properties %s, expected %s" % (out["axes"], want_ax))
    if isinstance(out.get("pandas"), str): bad.append("to_pandas " + out["pandas"])
    elif "pandas" in out:
        cols = out["pandas"]["cols"]
        want_cols = AXES[scheme] + (["trait1", "trait2", "covariance"] if kind == "cov" else ["trait", "variance"])
        if cols != want_cols: bad.append("to_pandas columns %s, expected %s" % (cols, want_cols))
        else:
            seen_rows = set()
            for r in out["pandas"]["rows"]:
                try:
                    ix_ = tuple(int(v[1:]) for v in r[:dim]) + tuple(int("".join(ch for ch in v if ch.isdigit())) for v in r[dim:-1])
                except ValueError:
                    bad.append("to_pandas row %s: unreadable labels" % (r,)); break
                seen_rows.add(ix_)
                got = r[-1]; want = _get(out["mat"], ix_)
                if got != want and not _close(got, want, 1e-12):
                    bad.append("to_pandas row %s reports %r, the matrix entry is %r" % (r[:-1], got, want)); break
            nrows = n ** dim * (t * t if kind == "cov" else t)
            if len(seen_rows) != nrows: bad.append("to_pandas has %d distinct rows, expected %d" % (len(seen_rows), nrows))
    # ---- values against the enumeration
    truth = truth_genic(case) if kind == "genic" else truth_pairwise(case)
    mat = out["mat"]
    nbad = 0
    for c, tv in truth.items():
        for a in range(t):
            for b in (range(t) if kind == "cov" else [a]):
                got = _get(mat, c + ((a, b) if kind == "cov" else (a,)))
                want = tv[a] if kind == "genic" else tv[a, b]
                if not _close(got, want):
                    nbad += 1
                    bad.append("entry %s trait %s: reported %r, gamete enumeration gives %r" % (list(c), (a, b) if kind == "cov" else a, got, float(want)))
    # ---- full multi-locus enumeration on a few crosses (small cases)
    if kind != "genic" and len(case["pos"]) <= 4 and case["nself"] in (0, 1, 2) and case.get("mapfn", "haldane") == "haldane":
        crosses = [c for c in truth if not _diag_pattern(scheme, c)][:4] + [c for c in truth if _diag_pattern(scheme, c)][-3:]
        for c in crosses:
            tv = truth_full(case, c)
            for a in range(t):
                for b in (range(t) if kind == "cov" else [a]):
                    got = _get(mat, c + ((a, b) if kind == "cov" else (a,)))
                    if not _close(got, tv[a, b]):
                        bad.append("entry %s trait %s: reported %r, multi-locus gamete enumeration gives %r" % (list(c), (a, b), got, float(tv[a, b])))
    # ---- structural clauses
    def entries(m):
        for c in truth:
            yield c, _get(m, c)
    def veq(x, y):
        fx = numpy.array([[numpy.nan if v == "nan" else v for v in numpy.ravel(numpy.array(x, dtype=object))]], dtype=float)
        fy = numpy.array([[numpy.nan if v == "nan" else v for v in numpy.ravel(numpy.array(y, dtype=object))]], dtype=float)
        return bool(numpy.all(numpy.isclose(fx, fy, rtol=1e-9, atol=1e-9) | (numpy.isnan(fx) & numpy.isnan(fy))))
    for c, v in entries(mat):
        # symmetric in exchangeable parents (last two indices)
        c2 = c[:-2] + (c[-1], c[-2])
        if not veq(v, _get(mat, c2)): bad.append("not symmetric: entry %s != entry %s" % (list(c), list(c2)))
        if kind == "cov" and not veq(v, numpy.array([[numpy.nan if x == "nan" else x for x in r] for r in v], dtype=float).T.tolist()):
            bad.append("trait covariance block of %s is not symmetric" % (list(c),))
    if "mat_memnone" in out and not (isinstance(out["mat_memnone"], str)) and not veq(mat, out["mat_memnone"]):
        bad.append("result depends on the chunk size: mem=%s differs from mem=None" % case["mem"])
    if isinstance(out.get("mat_memnone"), str): bad.append("mem=None run " + out["mat_memnone"])
    if isinstance(out.get("mat_perm"), str): bad.append("reordered-taxa run " + out["mat_perm"])
    elif "mat_perm" in out:
        perm = case["perm"]
        if out["taxa_perm"] != [taxa[k] for k in perm]: bad.append("reordered taxa labels wrong")
        for c, v in entries(out["mat_perm"]):
            if not veq(v, _get(mat, tuple(perm[k] for k in c))):
                bad.append("not equivariant under taxa reordering at %s" % (list(c),)); break
    seen = []
    for b in bad:
        if b not in seen: seen.append(b)
    return seen

def _pred_uc(case, out):
    if "raised" in out:
        if out["raised"] == "empty-xmap": return []
        return ["usefulness criterion (%s) raised %s: %s" % (case["scheme"], out["raised"], out.get("msg", ""))]
    bad = list(out.get("hygiene", []))
    scheme = case["scheme"]
    n = len(case["hap0"]); t = len(case["u"][0])
    npar = NPAR[scheme]
    want_x = [list(c) for c in (itertools.combinations(range(n), npar) if case["unique"] else itertools.combinations_with_replacement(range(n), npar))]
    if out["xmap"] != want_x: return ["cross map %s != %s" % (out["xmap"], want_x)]
    u = numpy.array(case["u"], dtype=float) / 4.0
    h = numpy.array(case["hap0"], dtype=float) + numpy.array(case["hap1"], dtype=float)
    bv = h @ u + numpy.array(case["beta"], dtype=float)[None, :]
    contrib = {"two": (0.5, 0.5), "three": (0.5, 0.25, 0.25), "four": (0.25,) * 4, "di": (0.5, 0.5)}[scheme]
    truth = truth_pairwise(case)
    if case["ucvia"] == "calc": si = case["si"] / 4.0
    else:
        pct = case["pct"] / 32.0
        z = _norm_ppf(1.0 - pct); si = math.exp(-z * z / 2) / math.sqrt(2 * math.pi) / pct
    for row, c in zip(out["uc"], out["xmap"]):
        c = tuple(c)
        # the variance matrix is indexed (parent1, parent2[, ...]); the implementation reads entry c
        tv = truth[c]
        for a in range(t):
            want = float(numpy.dot(contrib, bv[list(c), a]) + si * math.sqrt(max(tv[a, a], 0.0)))
            if not _close(row[a], want, 1e-7):
                bad.append("UC of cross %s trait %d: reported %r, mean + i*sqrt(enumerated variance) = %r" % (list(c), a, row[a], want))
    return bad

def _norm_ppf(q):
    lo, hi = -10.0, 10.0
    for _ in range(200):
        mid = (lo + hi) / 2
        if 0.5 * (1 + math.erf(mid / math.sqrt(2))) < q: lo = mid
        else: hi = mid
    return (lo + hi) / 2

# ----------------------------------------------------------------------------------------------- bookkeeping
def classify(case, out, clauses):
    """every defect formerly recorded for C12 has been repaired in the library (known_findings.d/C12.json: all `fixed`):
    no failure pattern is excused any more"""
    return None

def nontrivial(case, out):
    if case["kind"] in ("audit", "util"): return case["kind"] == "util" and "exc" not in out
    chrom = _chrgrp(case)
    h = case["hap0"] + case["hap1"]
    for a in h:
        for b in h:
            d = [i for i in range(len(a)) if a[i] != b[i] and any(case["u"][i])]
            if any(chrom[i] == chrom[j] for i in d for j in d if i < j): return "raised" not in out and "exc" not in out
    return False

def describe(case, out):
    if case["kind"] in ("audit", "util"): return {"kind": case["kind"], "nself": case.get("nself", "-")}
    return {"route": case.get("route", "ctor"), "uscale": case.get("uscale", 0), "mapfn": case.get("mapfn", "haldane"), "pe": case.get("pe", 0),
            "ncross": case.get("ncross", 1), "nprogeny": case.get("nprogeny", 10), "scheme": case["scheme"], "kind": case["kind"], "via": case["via"] if case["kind"] != "uc" else "uc:" + case["ucvia"],
            "nself": case["nself"], "mem": "None" if case["mem"] is None else ("1" if case["mem"] == 1 else ("<=chr" if case["mem"] <= max(case["sizes"]) else ">chr")),
            "ntaxa": len(case["hap0"]), "nloci": len(case["pos"]), "nchr": len(case["sizes"]), "ntrait": len(case["u"][0]), "posmode": case["posmode"],
            "raised": out.get("raised", out.get("exc", "no"))}

def _q(x): return E.q(Fraction(x))
def _bounds(case):
    b, s0 = [], 0
    for s in case["sizes"]:
        b.append((s0, s0 + s)); s0 += s
    return b

def _setup_expr(case, out):
    p = len(case["pos"])
    U = E.lst2([[Fraction(v, 4) for v in r] for r in case["u"]], E.q)
    chroms = E.lst(_bounds(case), lambda c: E.pair(E.nat(c[0]), E.nat(c[1])))
    mem = E.opt(case["mem"], E.nat)
    nself = "None" if case["nself"] == "inf" else "(Some %s)" % E.nat(case["nself"])
    if case["posmode"] == "ln2": R = "(R_ln2 %s %s)" % (E.nat(p), E.lst(case["pos"], E.z))
    else: R = E.lst2(out.get("R", []), _q)
    return p, U, chroms, mem, nself, R

def _has_nan(x):
    return x == "nan" if not isinstance(x, list) else any(_has_nan(v) for v in x)

def _nest(x, f):
    return f(x) if not isinstance(x, list) else "[" + "; ".join(_nest(v, f) for v in x) + "]"

def emit_case(case, out):
    if "exc" in out: return "false"
    scheme, kind = case["scheme"], case["kind"]
    if kind == "audit" or case.get("big"): return None
    if kind == "util": return _emit_util(case, out)
    n = len(case["hap0"]); t = len(case["u"][0])
    G0 = E.lst2(case["hap0"], E.z); G1 = E.lst2(case["hap1"], E.z)
    if case["mem"] is not None and case["mem"] >= 5000: case = dict(case, mem=4999)      # nat literal limit; any step > chromosome size is one chunk
    p, U, chroms, mem, nself, R = _setup_expr(case, out)
    if "raised" in out:
        return "false" if out["raised"] != "empty-xmap" else None
    if kind != "uc" and _has_nan(out["mat"]):
        return "false"                                   # a read of never-written memory (numpy.empty poisoned with NaN)
    if kind == "genic":
        impl = _nest(out["mat"], _q)
        fn = {"two": ("qlll_eqb", "genic_var"), "di": ("qlll_eqb", "genic_var"), "three": ("ql4_eqb", "genic3_var"), "four": ("ql5_eqb", "genic4_var")}[scheme]
        return "%s %s (%s %s %s %s %s %s %s)" % (fn[0], impl, fn[1], U, E.nat(p), G0, G1, E.nat(n), E.nat(t))
    if case.get("mapfn", "haldane") == "kosambi":        # a map function with interference: the shipped r_ij are not multiplicative along a group
        head = "(let R := %s in let S := mk_setup %s %s %s %s %s R in true && " % (R, E.nat(p), U, chroms, mem, nself)
    else:
        head = "(let R := %s in let S := mk_setup %s %s %s %s %s R in r_ok R %s && " % (R, E.nat(p), U, chroms, mem, nself, chroms)
    if kind == "uc":
        sc = {"two": 2, "three": 3, "four": 4, "di": 0}[scheme]
        beta = E.lst([Fraction(b) for b in case["beta"]], E.q)
        return head + "uc_mat_ok %s (uc_epgc %d) (fun k tr => bv %s %s %s (row %s k) (row %s k) tr) (uc_var %d S %s %s) %s %s %s)" % (
            _q(out["si"]), sc, U, beta, E.nat(p), G0, G1, sc, G0, G1, E.nat(t), E.lst2(out["xmap"], E.nat), _nest(out["uc"], _q))
    impl = _nest(out["mat"], _q)
    fn = {("two", "var"): ("qclose_lll", "twoway_var S %s" % G0), ("two", "cov"): ("qclose_l4", "twoway_cov S %s" % G0),
          ("three", "var"): ("qclose_l4", "threeway_var S %s" % G0), ("three", "cov"): ("qclose_l5", "threeway_cov S %s" % G0),
          ("four", "var"): ("qclose_l5", "fourway_var S %s" % G0), ("four", "cov"): ("qclose_l6", "fourway_cov S %s" % G0),
          ("di", "var"): ("qclose_lll", "dihybrid_var S %s %s" % (G0, G1)), ("di", "cov"): ("qclose_l4", "dihybrid_cov S %s %s" % (G0, G1))}[(scheme, kind)]
    return head + "%s %s (%s %s %s))" % (fn[0], impl, fn[1], E.nat(n), E.nat(t))

def _drop_locus(case, j):
    c = dict(case)
    sizes, s0 = list(case["sizes"]), 0
    for k, s in enumerate(sizes):
        if s0 <= j < s0 + s:
            sizes[k] -= 1; break
        s0 += s
    c["sizes"] = [s for s in sizes if s > 0]
    for key in ("hap0", "hap1"): c[key] = [r[:j] + r[j + 1:] for r in case[key]]
    c["pos"] = case["pos"][:j] + case["pos"][j + 1:]; c["u"] = case["u"][:j] + case["u"][j + 1:]
    return c

def _drop_taxon(case, i):
    c = dict(case)
    for key in ("hap0", "hap1"): c[key] = case[key][:i] + case[key][i + 1:]
    c["perm"] = list(range(len(c["hap0"])))
    return c

def shrink(case, fails):
    """greedy: one trait, fewer taxa, fewer loci, simpler options — while the predicate still fails"""
    cur = dict(case)
    if case["kind"] in ("audit", "util"): return cur
    def novel(c):
        # a failure that is not (only) a known finding: some clause without a known-pattern tag
        try: o = run_impl(c)
        except BaseException as e: o = {"exc": type(e).__name__, "msg": str(e)[:200]}
        cl = pred(c, o)
        return bool(cl) and classify(c, o, cl) is None
    if not novel(cur): return cur
    def attempt(c):
        nonlocal cur
        try:
            if novel(c):
                cur = c; return True
        except Exception:
            pass
        return False
    if len(cur["u"][0]) > 1 and cur["kind"] != "cov":
        attempt(dict(cur, u=[r[:1] for r in cur["u"]], beta=cur["beta"][:1]))
    i = 0
    while len(cur["hap0"]) > 1 and i < len(cur["hap0"]):
        if not attempt(_drop_taxon(cur, i)): i += 1
    j = 0
    while len(cur["pos"]) > 1 and j < len(cur["pos"]):
        if not attempt(_drop_locus(cur, j)): j += 1
    for key, val in (("mem", None), ("nself", 0), ("via", "algmod"), ("posmode", "ln2")):
        if cur.get(key) != val and not (key == "via" and cur["kind"] == "uc"):
            attempt(dict(cur, **{key: val}))
    return cur

# ----------------------------------------------------------------------------------------------- translator hook
def translate(repo, gen_dir):
    """regenerate Gen/C12_Kernel.v (kernel expressions of util.py, srange, the eight from_algmod loop nests, the four genic
    classes and _calc_uc) from the current source; fail closed"""
    from translate import c12_kernel
    return [c12_kernel.translate(repo, gen_dir)]
