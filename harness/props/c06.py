"""C06 — optimisers return feasible solutions with truthful objective values.

Correspondence between Model/C06_Opt.v and
  SortingSubsetOptimizationAlgorithm, SteepestDescentSubsetHillClimber, SortingSteepestDescentSubsetHillClimber
  (complete evalfn call sequence + returned Solution), pymoo_addon.SubsetRandomSampling / ReducedExchangeCrossover /
  ReducedExchangeMutation / IntegerSimulatedBinaryCrossover / IntegerPolynomialMutation / MutatorA.hillclimb /
  MutatorB.hillclimb (scripted numpy.random; for the hill-climb steps also the evalfn call sequence, the non-dominated
  front and the row selection),
plus a result monitor (Python predicate and the same monitor evaluated in Coq) on every run of all thirteen
pymoo-based optimiser classes."""
import itertools, random
from fractions import Fraction
import numpy
import coqemit as E

ID = "C06"
PROPS = "Props/C06.v"
IMPORTS = "From PV Require Import Lib.Common Model.C06_Opt."
SHARD = 40
LEVEL_TEXT = ("Coq theorems, for every evaluation function, candidate set, subset size and random draw: the sorting optimiser returns k distinct "
              "candidates, reports the evaluation of exactly that decision and attains the minimum over all k-subsets when the objective is "
              "separable; both hill climbers preserve feasibility and the multiset solution+pool, report the evaluation of the returned "
              "decision, terminate within n^k rounds and stop only where no single exchange lowers (violation, score) lexicographically; "
              "SubsetRandomSampling, ReducedExchangeCrossover and ReducedExchangeMutation map feasible subsets to feasible subsets for all "
              "index draws; integer rounding keeps values inside integer bounds; the (repaired) MutatorA/B hill-climb step returns a feasible "
              "subset for all loci draws, all in-range allele draws (repeated or not, any nhcstep), every evaluation function and every "
              "selected row, returns the individual unchanged when the subset is the whole candidate set, and its row selection is always "
              "defined (front non-empty, selected position inside the front); the former whole-column assignment is kept as old_mutAB_hillclimb "
              "with its refutation as a regression witness. The model is tied to the code by evaluating it inside Coq "
              "against the implementation's complete evalfn call sequence, scripted operator draws and outputs. For the pymoo-driven "
              "optimisers the theorem part is the operators (and that the optimiser is configured with them); every run is additionally "
              "validated by a result monitor, in Python and in Coq (feasibility, bounds, dtype, reported values == fresh evaluation, mutual "
              "non-domination, problem unchanged), including problems without any feasible decision (the least-violating member is returned), "
              "subsets equal to the whole candidate set and problems constructed with elementwise=False. "
              "Phase 2: the expressions and statements on which these theorems turn are REGENERATED FROM THE SOURCE on every run "
              "(harness/translate/c06_kernel.py -> Gen/C06_Kernel.v, 76 definitions): the climbers' acceptance tests, score/violation formulas, "
              "accepting branches (which of best_i/j/obj/ineqcv/eqcv/score/cv is assigned from what), loop head, break test, commit, element exchange "
              "and exchange pool; the sorting key, slice bounds and singleton evaluations; dominates; tiled_choice's tiles; the crossover/mutation masks, "
              "exchange count and exchange; MutatorA/B's unused-candidate set, guard, step count, tiled-draw arguments, trial-row assignment and "
              "front argmin; the integer rounding; the table of every random draw site of pymoo_addon.py (function, method, generator drawn from; "
              "theorem C06_kernel_draws_from_handed_generator: all of them the random_state the operator was handed, bound once before the first draw, "
              "global_prng only as the fallback for None); and the table (class, Solution keyword, provenance) of all sixteen optimiser classes. "
              "Proofs/C06_Kernel.v links each to the hand model (by conversion) and proves that the loop re-assembled from the generated statements, "
              "keeping the state the source keeps (stored best_score/best_cv), refines the model's climber and reports the score/violation of the "
              "returned decision; theorems C06_kernel_* restate feasibility, optimality, the climber result clause, dominates being a strict "
              "partial order, the tiling of tiled_choice and the Solution-construction table about the generated definitions; scale covariance "
              "of both climbers and of the sorting optimiser (positive rescaling of violations / scores changes no trajectory) is proved. "
              "Position-dependent problems: every optimiser class (sorting, both climbers, the 13 pymoo-based ones; subset, real, integer and binary encodings) "
              "is also run, with several seeds / starts per problem, on problems whose objectives and constraint violations depend on the POSITION of a member "
              "in the decision vector (one slot-weight vector such as 2,1,2,1 per objective / inequality / equality constraint; for vector encodings weights "
              "pairwise distinct inside a row; at least one inequality and one equality constraint; real variables quantised to multiples of 1/4 inside evalfn "
              "so that every value is an exact rational), and every returned row must satisfy soln_obj / soln_ineqcv / soln_eqcv == evalfn(soln_decn[i]) "
              "exactly, in the predicate (fresh evalfn, bit for bit, and an independent rational evaluation) and in Coq (truthful_b / truthfulQ_b over "
              "tps_eval / lpq_eval); theorems C06_monitor_truthful_sound (the clause accepts exactly the truthful reports), "
              "C06_monitor_rejects_reordered_decision (on a slot-weighted problem a decision reported re-ordered / sorted with the values of the original "
              "ordering is rejected whenever two neighbouring slots and the two members differ) and C06_quantisation")
LEVEL_NOTE = ("trusted: Coq kernel + vm_compute; pymoo's evolutionary loop, survival and result extraction (validated at run time only); "
              "numpy.random.choice(replace=False) returning distinct positions; numpy fancy-index assignment semantics (last write wins); "
              "numpy float arithmetic on small integers being exact; numpy argsort tie order is not relied upon (keys are compared); "
              "pymoo NonDominatedSorting returning the first front in ascending position order and numpy.argmin returning the first minimum "
              "(both mirrored by the model and compared on every op_hcAB case); the "
              "other memetic mutations (steepest/stochastic descent) are covered by the run-time monitor only; theorems are about the "
              "Gallina model, the tie to the code is differential on generated inputs plus, for the kernel expressions, the fail-closed ast translator "
              "c06_kernel.py (trusted: it fixes the statement shapes it accepts; anything else is reported as a broken correspondence); numpy's "
              "boolean-mask selection / fancy-index assignment / argsort semantics are restated by the translator's templates (compress, scatter, "
              "assign_at, set_nth, isort); StochasticHillClimberMutation and MultiObjectiveSteepestDescentHillClimberMutation are driven directly "
              "(feasibility, aliasing, truthful stored objectives) but not modelled; MutatorF and two hill-climb classes used by no optimiser are "
              "listed in SKIPPED / restricted (see COVERED)")
TECHNIQUE = "Coq proof over an executable model; in-Coq vm_compute correspondence (call traces, scripted draws); run-time result monitor"
RULE = ("case = (kind, problem, draws): kinds sort|sd|ssd (integer table problems: linear + pair-interaction objective, clipped/raw "
        "inequality and equality constraints, candidate sets of 1..10 (a few 11..16) elements incl. k=1, k=n, tied keys; sd with scripted "
        "or seeded start), op_sample|op_cx|op_mut|op_round|op_hcAB (operators drawing from a recording script - handed as random_state, or, with random_state None / "
        "omitted, installed as the process-wide stream the operator must fall back to - that honours "
        "the arguments passed and is biased to boundaries/repeats; op_hcAB: 1..3 objectives, tied objective values, k=n, nhcstep up to 2k+1 "
        "so that allele draws wrap around), ga (all 13 pymoo-based classes, ngen 1..6, pop 1..12, with/without "
        "constraints, certainly infeasible problems for every class, k=n incl. every individual hill-climbed, elementwise=False); generated from one PRNG; non-trivial = climber makes at least one exchange / "
        "crossover exchanges at least one element / sorting or GA has k<n (or a non-degenerate box) / rounding has a fractional input / "
        "hill-climb step changes the chromosome; distinct by SHA-256 of the case. Phase 2 additions: session (one problem object and one set of "
        "optimiser objects reused for 2-4 calls, the problem changed in between through its setters ndecn / decn_space / obj_wt / ineqcv_wt or by "
        "overwriting its data arrays in place; every call must equal a fresh run on the state at that call; optionally a reused SubsetGeneticAlgorithm), "
        "objective / constraint weights scaled by 2^-40..2^20 (model run in units of the scale; exact), candidate sets of 130..300 members with labels "
        "beyond int8/uint8, op_dom (dominates incl. ties, zero / negative / positive violations, scaled by 2^-40 / 2^20), op_tiled (tiled_choice "
        "directly, size 0, < a, multiples of a), op_hc2 (hillclimb of the four other memetic mutation classes called directly), GA constructor "
        "parameters rng and nhcstep, aliasing (every returned solution array is overwritten in place and the problem re-compared; results of "
        "sampling / crossover / mutation / MutatorA/B.hillclimb must not share memory with their inputs); the public entry points of the 17 anchored modules are enumerated by introspection at "
        "run time and must all be classified (COVERED with their parameter lists / SKIPPED with a reason), likewise the operator methods "
        "hillclimb / reduced_exchange / _do / do of the covered pymoo_addon classes (COVERED_METHODS). Position-dependent problems (_positional / _lpos): "
        "slot weights SW / SC / SD (alternating 2,1,2,1 / 1,2,1,2 / 3,1 / 1,3 or drawn per slot, objectives also 0 and negative) on every objective, "
        ">= 1 inequality and >= 1 equality constraint, loose (several feasible rows) or tight (non-zero violations that differ between orderings; the "
        "least-violating member is returned); kinds sort / ssd (one run each, deterministic), sd (two scripted starts and one seeded start per problem), "
        "session (30%), op_hc2 (every third case: stored objectives of the returned rows, also compared in Coq), ga: every one of the 13 classes x 3 "
        "problems (quick; 24 thorough) x 3 seeds, one of them elementwise=False; vector encodings with pairwise distinct per-variable weights, "
        "1-2 inequality and 1 equality constraint, real variables quantised to quarters. SYSTEMATIC hill-climb block (_systematic_hc, both tiers, "
        "336 fixed cases from a PRNG with a constant seed - the same whatever VERIF_SEED is): every memetic mutation class with a hillclimb "
        "(the four op_hc2 classes, MutatorA, MutatorB) x (k of k+1, k = 2,3,4; k of k+2, k = 3,4,5) x nhcstep in (default, 2k, 3k) x two additive "
        "two-objective tables x (identity | drawn tiles), more steps than unused candidates in every one; the draws are written into the case and "
        "handed through random_state (_Forced: answered by kind of request - loci / allele tiles, single allele indices - so that they drive a per-step "
        "as well as a tiled allele draw) and force the critical sequence: step 0 gives up the best member for allele j* and is rejected (the lead "
        "dominates), the first step of the next allele tile draws j* again at the locus of the worst member (accepted); judged by the same predicate "
        "and Coq correspondence as every other op_hc2 / op_hcAB case")
TRUSTED = ["pymoo 0.6.2 GA/NSGA2/NSGA3 loops and Result extraction (not modelled; every run is checked by the result monitor)",
           "numpy.random.choice(..., replace=False) yields distinct positions (oracle contract assumed by sampling_feasible)",
           "the operator cases hand a recording script as random_state (positionally / by keyword) or hand none and replace the process-wide streams "
           "(numpy.random's module functions and pymoo_addon.global_prng) by the script; in the first mode a second script stands in for the "
           "process-wide streams and must stay untouched; pymoo's default_rng(None) is redirected to a seeded generator so that runs are replayable",
           "harness/translate/c06_kernel.py (ast -> Gallina for the kernel expressions; fail closed on any statement shape it does not describe)"]
ASSUMPTIONS = ["candidate set duplicate-free, ndecn <= len(decn_space) (SubsetProblem checks the length)",
               "evalfn is a pure function of the decision vector (it MAY depend on the order of the members: position-dependent problems are generated)",
               "table problems are integer valued (exact in binary64)"]

CALL_LIMIT = 60000
FUEL = 400

SUBSET_GA = ["SubsetGeneticAlgorithm", "NSGA2SubsetGeneticAlgorithm", "NSGA3SubsetGeneticAlgorithm",
             "NSGA2SteepestDescentSubsetGeneticAlgorithm", "NSGA2StochasticDescentSubsetGeneticAlgorithm",
             "NSGA2MutatorASubsetGeneticAlgorithm", "NSGA2MutatorBSubsetGeneticAlgorithm"]
MEMETIC = SUBSET_GA[3:]
LIN_GA = {"RealGeneticAlgorithm": "real", "IntegerGeneticAlgorithm": "int", "BinaryGeneticAlgorithm": "bin",
          "NSGA2RealGeneticAlgorithm": "real", "NSGA2IntegerGeneticAlgorithm": "int", "NSGA2BinaryGeneticAlgorithm": "bin"}
SINGLE = {"SubsetGeneticAlgorithm", "RealGeneticAlgorithm", "IntegerGeneticAlgorithm", "BinaryGeneticAlgorithm"}

# ------------------------------------------------------------------------------------------------ generators
def _tprob(rng, n=None, k=None, nobj=1, pairs=None, nineq=None, neq=None, ties=False, symmetric=False):
    n = n if n is not None else rng.choice([1, 2, 3, 4, 5, 5, 6, 6, 7, 8])
    k = k if k is not None else rng.choice([1, n, max(1, n // 2), rng.randint(1, n), rng.randint(1, n)])
    M = n + rng.randint(0, 3)
    cand = rng.sample(range(M), n)
    if rng.random() < 0.3: cand.sort()
    lo, hi = (-2, 2) if ties else (-9, 9)
    W = [[rng.randint(lo, hi) for _ in range(M)] for _ in range(nobj)]
    pairs = (rng.random() < 0.6) if pairs is None else pairs
    P = []
    if pairs:
        P = [[rng.randint(-4, 4) for _ in range(M)] for _ in range(M)]
        if symmetric or rng.random() < 0.6:
            for a in range(M):
                for b in range(a): P[a][b] = P[b][a]
    nineq = rng.choice([0, 0, 1, 1, 2]) if nineq is None else nineq
    neq = rng.choice([0, 0, 0, 1]) if neq is None else neq
    C = [[rng.randint(0, 5) for _ in range(M)] for _ in range(nineq)]
    cap = [rng.randint(0, 3 * k + 2) for _ in range(nineq)]
    D = [[rng.randint(0, 3) for _ in range(M)] for _ in range(neq)]
    tgt = [rng.randint(0, 2 * k) for _ in range(neq)]
    return {"M": M, "cand": cand, "k": k, "W": W, "P": P, "owt": [rng.choice([1, 1, -1, 2]) for _ in range(nobj)],
            "C": C, "cap": cap, "clip": rng.random() < 0.7, "iwt": [rng.choice([1, 1, 2]) for _ in range(nineq)],
            "D": D, "tgt": tgt, "ewt": [rng.choice([1, 1, 3]) for _ in range(neq)]}

def _lprob(rng, typ, nobj, nineq=None, infeasible=False):
    nd = rng.randint(1, 5)
    if typ == "bin": lo, hi = [0] * nd, [1] * nd
    else:
        lo = [rng.randint(-4, 2) for _ in range(nd)]; hi = [l + rng.randint(0, 6) for l in lo]
    nineq = rng.choice([0, 0, 1, 2]) if nineq is None else nineq
    A = [[rng.randint(-3, 3) for _ in range(nd)] for _ in range(nobj)]
    C = [[rng.randint(0, 3) for _ in range(nd)] for _ in range(nineq)]
    cmin = [sum(c * l for c, l in zip(row, lo)) for row in C]
    cmax = [sum(c * h for c, h in zip(row, hi)) for row in C]
    cap = [(mn - 1 - rng.randint(0, 3)) if infeasible else rng.randint(mn, max(mn, mx)) for mn, mx in zip(cmin, cmax)]
    return {"type": typ, "lo": lo, "hi": hi, "A": A, "owt": [rng.choice([1, 1, -1]) for _ in range(nobj)], "C": C, "cap": cap,
            "iwt": [rng.choice([1, 2]) for _ in range(nineq)]}

def _slots(rng, n, positive=False):
    """one weight per SLOT of the decision vector: the alternating pattern 2,1,2,1,... or 1,2,1,2,..., or drawn per slot (objectives: also 0 / negative)"""
    mode = rng.random()
    if mode < 0.4:
        a, b = rng.choice([(2, 1), (1, 2), (3, 1), (1, 3)])
        return [a if i % 2 == 0 else b for i in range(n)]
    if positive: return [rng.randint(1, 3) for _ in range(n)]
    return [rng.choice([-1, 0, 1, 2, 3, 3]) for _ in range(n)]

def _positional(rng, p, mode=None):
    """make a table problem POSITION-DEPENDENT: every objective, inequality and equality constraint weighs the member in slot a of the
    decision vector by its own slot weight (SW / SC / SD; one vector per function, long enough for every subset size), with at least one
    inequality and one equality constraint.  A reported row then belongs to one ORDERING of the decision: re-ordering / sorting /
    de-duplicating the decisions while keeping the values of the original rows is visible.
    mode "loose": constraints that most decisions meet (several feasible rows on a front); "tight": violations are frequent and differ
    between orderings (the least-violating member is returned with non-zero violations); None: one of the two"""
    M, k = p["M"], p["k"]
    mode = mode or rng.choice(["loose", "loose", "tight"])
    if not p["C"]:
        p["C"] = [[rng.randint(0, 5) for _ in range(M)]]; p["iwt"] = [rng.choice([1, 1, 2])]; p["cap"] = [0]
    if not p["D"]:
        p["D"] = [[rng.randint(0, 3) for _ in range(M)]]; p["ewt"] = [rng.choice([1, 1, 3])]; p["tgt"] = [0]
    L = max(M, k)
    p["SW"] = [_slots(rng, L) for _ in p["W"]]
    p["SC"] = [_slots(rng, L, True) for _ in p["C"]]
    p["SD"] = [_slots(rng, L, True) for _ in p["D"]]
    if mode == "loose":
        p["cap"] = [rng.randint(6 * k, 15 * k + 2) for _ in p["C"]]
        # an equality constraint every decision meets (all table values 0, target 0)
        p["D"] = [[0] * M for _ in p["D"]]; p["tgt"] = [0 for _ in p["D"]]
    else:
        p["cap"] = [rng.randint(0, 4 * k) for _ in p["C"]]
        p["tgt"] = [rng.randint(0, 4 * k) for _ in p["D"]]
    return p

def _lpos(rng, typ, nobj, mode=None):
    """vector encodings, position-dependent by construction (the weights of every objective / constraint DIFFER PER VARIABLE: pairwise
    distinct inside a row), with one or two inequality and one equality constraint; real variables are quantised to multiples of 1/4
    inside evalfn, so that every value is an exact rational the Coq model recomputes"""
    nd = rng.randint(2, 5)
    if typ == "bin": lo, hi = [0] * nd, [1] * nd
    else:
        lo = [rng.randint(-4, 2) for _ in range(nd)]; hi = [l + rng.randint(1, 6) for l in lo]
    row = lambda a, b: rng.sample(range(a, b + 1), nd)
    mode = mode or rng.choice(["loose", "loose", "tight"])
    nineq = rng.choice([1, 1, 2])
    A = [row(-4, 4) for _ in range(nobj)]
    C = [row(0, 5) for _ in range(nineq)]
    D = [row(0, 5)]
    cmin = [sum(c * l for c, l in zip(r, lo)) for r in C]; cmax = [sum(c * h for c, h in zip(r, hi)) for r in C]
    if mode == "loose":
        cap = list(cmax); D = [[0] * nd]; tgt = [0]
    else:
        cap = [rng.randint(mn - 2, mx) for mn, mx in zip(cmin, cmax)]
        tgt = [rng.randint(sum(d * l for d, l in zip(D[0], lo)) - 1, sum(d * h for d, h in zip(D[0], hi)) + 1)]
    return {"type": typ, "lo": lo, "hi": hi, "A": A, "owt": [rng.choice([1, 1, -1, 2]) for _ in range(nobj)], "C": C, "cap": cap,
            "iwt": [rng.choice([1, 2]) for _ in range(nineq)], "D": D, "tgt": tgt, "ewt": [rng.choice([1, 3])], "qn": 4}

def _parents(rng, cand, k):
    """pairs of parents with controlled overlap (identical, disjoint, one unique element each, random)"""
    a = rng.sample(cand, k)
    mode = rng.random()
    if mode < 0.15: b = list(a); rng.shuffle(b)
    elif mode < 0.45 and len(cand) >= 2 * k: b = rng.sample([c for c in cand if c not in a], k)
    elif mode < 0.55 and len(cand) > k:
        b = list(a); b[rng.randrange(k)] = rng.choice([c for c in cand if c not in a]); rng.shuffle(b)
    else: b = rng.sample(cand, k)
    return a, b

# ------------------------------------------------------------------------------------------------ entry points (audited at run time, fail closed)
ANCHOR_MODULES = ["pybrops.opt.algo." + m for m in (
    "SortingSubsetOptimizationAlgorithm", "SteepestDescentSubsetHillClimber", "SortingSteepestDescentSubsetHillClimber",
    "SubsetGeneticAlgorithm", "RealGeneticAlgorithm", "IntegerGeneticAlgorithm", "BinaryGeneticAlgorithm", "NSGA2SubsetGeneticAlgorithm",
    "NSGA2RealGeneticAlgorithm", "NSGA2IntegerGeneticAlgorithm", "NSGA2BinaryGeneticAlgorithm", "NSGA3SubsetGeneticAlgorithm",
    "NSGA2MemeticSubsetGeneticAlgorithm", "pymoo_addon")] + ["pybrops.opt.prob.Problem", "pybrops.opt.prob.SubsetProblem", "pybrops.opt.soln.Solution"]
_GA_PARAMS = ["ngen", "pop_size", "rng", "kwargs"]
# name -> (constructor / function parameters, how it is exercised)
COVERED = {
    "SortingSubsetOptimizationAlgorithm": (["kwargs"], "kinds sort, session: call trace + result vs model, brute-force optimum"),
    "SteepestDescentSubsetHillClimber": (["rng", "kwargs"], "kinds sd, session: scripted or seeded rng, call trace vs model, local optimality"),
    "SortingSteepestDescentSubsetHillClimber": (["kwargs"], "kinds ssd, session"),
    "SubsetGeneticAlgorithm": (_GA_PARAMS, "kind ga (+ session): result monitor; rng passed or defaulted"),
    "RealGeneticAlgorithm": (_GA_PARAMS, "kind ga"), "IntegerGeneticAlgorithm": (_GA_PARAMS, "kind ga"), "BinaryGeneticAlgorithm": (_GA_PARAMS, "kind ga"),
    "NSGA2SubsetGeneticAlgorithm": (_GA_PARAMS, "kind ga"), "NSGA2RealGeneticAlgorithm": (_GA_PARAMS, "kind ga"),
    "NSGA2IntegerGeneticAlgorithm": (_GA_PARAMS, "kind ga"), "NSGA2BinaryGeneticAlgorithm": (_GA_PARAMS, "kind ga"),
    "NSGA3SubsetGeneticAlgorithm": (["ngen", "pop_size", "nrefpts", "rng", "kwargs"], "kind ga (nrefpts given or derived)"),
    "NSGA2SteepestDescentSubsetGeneticAlgorithm": (["ngen", "pop_size", "phc", "rng", "kwargs"], "kind ga (phc 0 / .5 / 1)"),
    "NSGA2StochasticDescentSubsetGeneticAlgorithm": (["ngen", "pop_size", "phc", "nhcstep", "rng", "kwargs"], "kind ga (phc, nhcstep incl. > unused candidates)"),
    "NSGA2MutatorASubsetGeneticAlgorithm": (["ngen", "pop_size", "phc", "nhcstep", "rng", "kwargs"], "kind ga"),
    "NSGA2MutatorBSubsetGeneticAlgorithm": (["ngen", "pop_size", "phc", "nhcstep", "rng", "kwargs"], "kind ga"),
    "dominates": (["obj1", "cv1", "obj2", "cv2"], "kind op_dom vs dominates_m"),
    "tiled_choice": (["a", "size", "random_state"], "kinds op_tiled (direct; random_state a scripted generator, positional or by keyword, or None / omitted = "
                     "the module's global_prng) and op_hcAB (request log)"),
    "SubsetRandomSampling": (["setspace", "replace"], "kind op_sample"),
    "ReducedExchangeCrossover": (["kwargs"], "kind op_cx"),
    "ReducedExchangeMutation": (["setspace", "kwargs"], "kind op_mut"),
    "IntegerSimulatedBinaryCrossover": (["prob_var", "eta", "prob_exch", "prob_bin", "n_offsprings", "kwargs"], "kind op_round (pymoo's parameters are passed through untouched)"),
    "IntegerPolynomialMutation": (["prob", "eta", "at_least_once", "kwargs"], "kind op_round"),
    "MutatorA": (["setspace", "phc", "nhcstep", "kwargs"], "kind op_hcAB + ga"),
    "MutatorB": (["setspace", "phc", "nhcstep", "kwargs"], "kind op_hcAB + ga"),
    "StochasticHillClimberMutation": (["setspace", "phc", "nhcstep", "kwargs"], "kind op_hc2 (hillclimb called directly, feasibility monitor) + ga"),
    "MultiObjectiveSteepestDescentHillClimberMutation": (["setspace", "p_hillclimb", "kwargs"], "kind op_hc2 + ga"),
    "MultiObjectiveStochasticDescentHillClimberMutation": (["setspace", "phc", "nhc", "kwargs"], "kind op_hc2, k < n only, feasibility only (used by no optimiser "
                                                           "class; for k = n it raises ValueError from np.random.choice(0) - the guard added to its siblings is missing -, it returns an "
                                                           "empty population when nothing improves and stores a proposal's objectives with the reverted chromosome: reported, unreachable)"),
    "MultiObjectiveStochasticHillClimberMutation": (["setspace", "p_hillclimb", "kwargs"], "kind op_hc2, k < n only (used by no optimiser class; same missing guard)"),
    "SubsetProblem": (["ndecn", "decn_space", "decn_space_lower", "decn_space_upper", "nobj", "obj_wt", "nineqcv", "ineqcv_wt", "neqcv", "eqcv_wt", "vtype", "vars",
                       "elementwise", "elementwise_func", "elementwise_runner", "replace_nan_values_by", "exclude_from_serialization", "callback", "strict", "kwargs"],
                      "every subset case (constructor) and kind session (setters ndecn / decn_space / obj_wt / ineqcv_wt between calls); elementwise both ways"),
    "Problem": (["n_var", "n_obj", "n_ieq_constr", "n_eq_constr", "xl", "xu", "vtype", "vars", "elementwise", "elementwise_func", "elementwise_runner", "requires_kwargs",
                 "replace_nan_values_by", "exclude_from_serialization", "callback", "strict", "kwargs"], "base of every problem; _evaluate through every ga / hill-climb case"),
    "Solution": (["args", "kwargs"], "base of every returned solution: fields read back by the monitor"),
}
SKIPPED = {
    "MutatorF": "not referenced by any optimiser class; its constructor calls super(StochasticHillClimberMutation, self).__init__ and cannot be instantiated",
    "check_is_Problem": "type guard (raises TypeError on a wrong type), no optimisation behaviour",
    "check_is_SubsetProblem": "type guard; runs at the top of every subset minimize",
    "check_SubsetProblem_is_single_objective": "guard; runs at the top of the single-objective optimisers (every sort/sd/ssd case passes it)",
    "check_SubsetProblem_is_multi_objective": "guard; runs at the top of the NSGA optimisers",
    "check_is_Solution": "type guard",
}

# (class, method) -> (parameters, how it is exercised): the operator methods through which the generator travels
_HC = ["problem", "x", "args", "random_state", "kwargs"]
_DO = ["problem", "X", "kwargs"]
COVERED_METHODS = {
    ("SubsetRandomSampling", "_do"): (["problem", "n_samples", "kwargs"], "op_sample: random_state handed in kwargs / absent (global_prng)"),
    ("ReducedExchangeCrossover", "_do"): (_DO, "op_cx: random_state handed / absent"),
    ("ReducedExchangeMutation", "_do"): (_DO, "op_mut: random_state handed / absent"),
    ("IntegerSimulatedBinaryCrossover", "_do"): (_DO, "op_round"), ("IntegerPolynomialMutation", "_do"): (_DO, "op_round"),
    ("MutatorA", "hillclimb"): (_HC, "op_hcAB: random_state handed (scripted) / None"), ("MutatorB", "hillclimb"): (_HC, "op_hcAB: handed / None"),
    ("StochasticHillClimberMutation", "hillclimb"): (_HC, "op_hc2: handed / None"),
    ("MultiObjectiveStochasticHillClimberMutation", "hillclimb"): (_HC, "op_hc2: handed / None"),
    ("MultiObjectiveSteepestDescentHillClimberMutation", "hillclimb"): (["problem", "indiv", "args", "random_state", "kwargs"], "op_hc2: handed / None"),
    ("MultiObjectiveStochasticDescentHillClimberMutation", "hillclimb"): (["prob", "indiv", "args", "random_state", "kwargs"], "op_hc2: handed / None"),
    ("StochasticHillClimberMutation", "reduced_exchange"): (_HC, "op_hc2 (fallback of hillclimb when nothing is non-dominated) + ga"),
    ("MutatorA", "reduced_exchange"): (_HC, "ga (pymoo hands the generator to _do, which hands it on)"), ("MutatorB", "reduced_exchange"): (_HC, "ga"),
    ("MutatorA", "_do"): (_DO, "ga"), ("MutatorB", "_do"): (_DO, "ga"), ("StochasticHillClimberMutation", "_do"): (_DO, "ga"),
    ("MultiObjectiveSteepestDescentHillClimberMutation", "_do"): (_DO, "ga"),
    ("MultiObjectiveSteepestDescentHillClimberMutation", "do"): (["problem", "pop", "inplace", "kwargs"], "ga"),
    ("MultiObjectiveStochasticDescentHillClimberMutation", "_do"): (_DO, "used by no optimiser class (see COVERED)"),
    ("MultiObjectiveStochasticDescentHillClimberMutation", "do"): (["problem", "pop", "inplace", "kwargs"], "used by no optimiser class"),
    ("MultiObjectiveStochasticHillClimberMutation", "_do"): (_DO, "used by no optimiser class"),
}
OPERATOR_METHODS = ("hillclimb", "reduced_exchange", "_do", "do")

def _audit_entry_points():
    """every public class / function defined in the anchored modules must be classified, with the parameters recorded here"""
    import importlib, inspect
    found = {}
    for m in ANCHOR_MODULES:
        mod = importlib.import_module(m)
        for n, o in vars(mod).items():
            if n.startswith("_") or getattr(o, "__module__", None) != m: continue
            if inspect.isclass(o): found[n] = [q for q in inspect.signature(o.__init__).parameters if q != "self"]
            elif inspect.isfunction(o): found[n] = list(inspect.signature(o).parameters)
    bad = []
    for n, ps in found.items():
        if n in SKIPPED: continue
        if n not in COVERED: bad.append("unclassified entry point %s(%s)" % (n, ", ".join(ps)))
        elif COVERED[n][0] != ps: bad.append("%s: parameters %r, recorded %r" % (n, ps, COVERED[n][0]))
    bad += ["%s is listed but no longer defined" % n for n in list(COVERED) + list(SKIPPED) if n not in found]
    PA = importlib.import_module("pybrops.opt.algo.pymoo_addon")
    meths = {}
    for n, o in vars(PA).items():
        if inspect.isclass(o) and o.__module__ == PA.__name__ and n in COVERED:
            for m, f in vars(o).items():
                if m in OPERATOR_METHODS or (inspect.isfunction(f) and not m.startswith("_") and "random_state" in inspect.signature(f).parameters):
                    meths[(n, m)] = [q for q in inspect.signature(f).parameters if q != "self"]
    for key, ps in meths.items():
        if key not in COVERED_METHODS: bad.append("unclassified operator method %s.%s(%s)" % (key + (", ".join(ps),)))
        elif COVERED_METHODS[key][0] != ps: bad.append("%s.%s: parameters %r, recorded %r" % (key + (ps, COVERED_METHODS[key][0])))
    bad += ["%s.%s is listed but no longer defined" % k for k in COVERED_METHODS if k not in meths]
    if PA.global_prng is not numpy.random.random.__self__: bad.append("pymoo_addon.global_prng is not numpy's process-wide RandomState")
    if bad: raise RuntimeError("C06 entry-point audit: " + "; ".join(bad))

HC2 = ["StochasticHillClimberMutation", "MultiObjectiveSteepestDescentHillClimberMutation", "MultiObjectiveStochasticDescentHillClimberMutation",
       "MultiObjectiveStochasticHillClimberMutation"]

def _scaled(rng, p, constraints=True):
    """objective / constraint weights far from 1 (powers of two: the exact regime still applies)"""
    p["osc"] = rng.choice([0, 0, 0, -40, -20, 10, 20])
    if constraints: p["csc"] = rng.choice([0, 0, 0, -40, -20, 10, 20])
    return p

def _session(rng):
    """one problem object and one set of optimiser objects used for several calls; between calls the problem is changed through
    its setters (ndecn, decn_space, obj_wt, ineqcv_wt) or its data arrays are overwritten in place"""
    p = _tprob(rng, n=rng.randint(3, 7), ties=rng.random() < 0.3)
    if rng.random() < 0.3: _positional(rng, p)
    nineq = len(p["C"])
    steps = [p]
    import copy
    for _ in range(rng.randint(1, 3)):
        t = copy.deepcopy(steps[-1]); n = len(t["cand"])
        what = rng.choice(["k", "cand", "owt", "iwt", "W", "k"])
        if what == "k": t["k"] = rng.choice([x for x in range(1, n + 1) if x != t["k"]] or [t["k"]])
        elif what == "cand":
            pool = list(range(t["M"])); rng.shuffle(pool); t["cand"] = pool[:max(t["k"], rng.randint(1, t["M"]))]
        elif what == "owt": t["owt"] = [-w for w in t["owt"]]
        elif what == "iwt" and nineq: t["iwt"] = [w + 1 for w in t["iwt"]]
        else: t["W"] = [[rng.randint(-9, 9) for _ in row] for row in t["W"]]
        steps.append(t)
    return {"kind": "session", "steps": steps, "ix": [rng.sample(range(len(t["cand"])), t["k"]) for t in steps],
            "ga": rng.random() < 0.3, "seed": rng.randint(0, 10 ** 6)}

def _forced_hc(r, k, na, nh, variant, identity):
    """one FORCED hill-climb situation: k members, na = 1 | 2 unused candidates, nh steps (None: the default, k) with nh > na.
    The draws (tile-wise permutations of the loci and of the allele indices, so that they answer a per-step draw as well as a tiled
    one) put the CRITICAL SEQUENCE first: step 0 exchanges locus i1 for allele j* and is REJECTED (the lead dominates the proposal);
    step na - the first of the next allele tile - draws the same allele index j* at another locus i2.  Two-objective additive table:
      member at i1 (-6,-6) (the best member: giving it up for a_j* (1,1) is dominated by the lead);
      member at i2 ( 6, 6) (the worst member: exchanging it for a_j* dominates the lead, the exchange is kept);
      other members (0,4) and the other unused candidate (9,9) [variant 0: every other proposal is rejected]
                 or (0,0) and (2,-2)                          [variant 1: the proposals in between are non-dominated: stashed, restored].
    Returns (problem spec, start chromosome, flat loci draws, flat allele draws)"""
    n = k + na; M = n + 2; steps = k if nh is None else nh
    assert steps > na and k > na
    cand = r.sample(range(M), n); x = r.sample(cand, k)
    def tiled(a):
        out = []
        for t in range(steps // a): out += list(range(a)) if identity else r.sample(range(a), a)
        return out + (list(range(steps % a)) if identity else r.sample(range(a), steps % a))
    loci = tiled(k); alle = tiled(na)
    jstar = alle[0]
    t = alle[na:2 * na]                               # the next allele tile (possibly a partial one) starts with the same index
    if jstar in t: t.remove(jstar); t = [jstar] + t
    else: t = [jstar] + t[:-1]
    alle[na:2 * na] = t
    i1, i2 = loci[0], loci[na]
    rest = [c for c in cand if c not in x]            # the operators' allele pool: the unused candidates in set-space order
    w = {c: ((0, 4) if variant == 0 else (0, 0)) for c in x}
    w[x[i1]] = (-6, -6); w[x[i2]] = (6, 6)
    for j, c in enumerate(rest): w[c] = (1, 1) if j == jstar else ((9, 9) if variant == 0 else (2, -2))
    W = [[w.get(e, (0, 0))[o] for e in range(M)] for o in range(2)]
    p = {"M": M, "cand": cand, "k": k, "W": W, "P": [], "owt": [1, 1], "C": [], "cap": [], "clip": True, "iwt": [], "D": [], "tgt": [], "ewt": []}
    return p, x, loci, alle

def _systematic_hc():
    """the FIXED block of hill-climb cases (own PRNG with a constant seed: the same cases whatever the run's seed): every memetic
    mutation class with a hillclimb x (k of k+1, k of k+2) x nhcstep in (default, 2k, 3k) x two objective tables x (identity | drawn
    tiles); more steps than unused candidates in every one, scripted draws handed through random_state (_Forced)"""
    r = random.Random(60606)
    cases = []
    for na, ks in ((1, (2, 3, 4)), (2, (3, 4, 5))):
        for k in ks:
            for variant in (0, 1):
                for identity in (True, False):
                    for nh in (None, 2 * k, 3 * k):
                        for which in (HC2[0], HC2[2]):
                            p, x, loci, alle = _forced_hc(r, k, na, nh, variant, identity)
                            cases.append({"kind": "op_hc2", "which": which, "prob": p, "x": x, "nhcstep": nh, "seed": 0, "elementwise": not (identity and variant),
                                          "rs": "kw", "script": {"tiles": loci + alle, "scalar": alle + [0]}})
                        for ab in ("A", "B"):
                            p, x, loci, alle = _forced_hc(r, k, na, nh, variant, identity)
                            cases.append({"kind": "op_hcAB", "which": ab, "prob": p, "x": x, "nhcstep": nh, "seed": 0, "rs": "kw",
                                          "script": {"tiles": loci + alle, "scalar": [r.randrange(3)]}})
                    # one step per locus in chromosome order, one allele index drawn at each (no nhcstep parameter)
                    p, x, loci, alle = _forced_hc(r, k, na, None, variant, True)
                    if not identity: alle = alle[:2 * na] + [r.randrange(na) for _ in alle[2 * na:]]
                    cases.append({"kind": "op_hc2", "which": HC2[3], "prob": p, "x": x, "nhcstep": None, "seed": 0, "elementwise": True, "rs": "kw",
                                  "script": {"tiles": alle, "scalar": alle}})
                    # one locus drawn, every unused candidate tried at it
                    p, x, loci, alle = _forced_hc(r, k, na, None, variant, identity)
                    cases.append({"kind": "op_hc2", "which": HC2[1], "prob": p, "x": x, "nhcstep": None, "seed": 0, "elementwise": True, "rs": "kw",
                                  "script": {"tiles": [], "scalar": [loci[na] if identity else loci[0]]}})
    return cases

def gen_cases(rng, tier):
    q = tier == "quick"
    _audit_entry_points()
    cases = []
    # --- sessions, scales, sizes beyond a narrow integer type, direct calls of the helpers
    for i in range(40 if q else 600):
        cases.append(_session(rng))
    for kind in ("sort", "sd", "ssd"):
        for i in range(40 if q else 600):
            p = _scaled(rng, _tprob(rng, ties=rng.random() < 0.3))
            c = {"kind": kind, "prob": p}
            if kind == "sd": c["ix"] = rng.sample(range(len(p["cand"])), p["k"])
            cases.append(c)
        for i in range(1 if q else 6):               # more candidates / larger labels than int8 / uint8 can hold
            n = rng.choice([130, 200, 260, 300]); p = _tprob(rng, n=n, k=rng.randint(1, 3), pairs=False, nineq=rng.choice([0, 1]), neq=0)
            c = {"kind": kind, "prob": p}
            if kind == "sd": c["ix"] = rng.sample(range(n), p["k"])
            cases.append(c)
    for i in range(120 if q else 2000):
        nobj = rng.randint(1, 4); lo, hi = rng.choice([(-2, 2), (-1, 1), (0, 9)])
        o1 = [rng.randint(lo, hi) for _ in range(nobj)]
        o2 = list(o1) if rng.random() < 0.25 else [rng.randint(lo, hi) for _ in range(nobj)]
        if rng.random() < 0.3: o2 = [a + rng.choice([0, 0, 1]) for a in o1]
        cases.append({"kind": "op_dom", "o1": o1, "o2": o2, "cv1": rng.choice([0, 0, -1, 1, 2]), "cv2": rng.choice([0, 0, -1, 1, 2]), "sc": rng.choice([0, 0, -40, 20])})
    for i in range(40 if q else 400):
        a = rng.randint(1, 7)
        cases.append({"kind": "op_tiled", "a": a, "size": rng.choice([0, 1, a, a - 1, a + 1, 2 * a, rng.randint(0, 3 * a + 2)]), "seed": rng.randint(0, 10 ** 6),
                      "rs": rng.choice(["pos", "kw", "kw", "none", "omitted"])})
    for i in range(100 if q else 800):
        n = rng.randint(1, 8); k = n if rng.random() < 0.12 else rng.randint(1, max(1, n - 1))
        p = _tprob(rng, n=n, k=k, nobj=rng.choice([2, 2, 3]), symmetric=True, ties=rng.random() < 0.4, neq=0)
        p["clip"] = True
        if i % 3 == 0: _positional(rng, p)            # slot weights: objectives stored with a trial row must be those of ITS ordering
        which = rng.choice(HC2 + HC2[:2])             # the two classes optimisers use: twice as often
        if k == n and which in HC2[2:]: which = rng.choice(HC2[:2])
        cases.append({"kind": "op_hc2", "which": which, "prob": p, "x": rng.sample(p["cand"], k),
                      "nhcstep": rng.choice([None, 1, rng.randint(1, 2 * k + 1)]), "seed": rng.randint(0, 10 ** 6), "elementwise": rng.random() < 0.8,
                      "rs": rng.choice(["kw", "kw", "kw", "none", "omitted"])})
    # --- exact optimisers
    for i in range(160 if q else 3000):
        ties = rng.random() < 0.35
        p = _tprob(rng, ties=ties, pairs=(False if rng.random() < 0.5 else None))
        cases.append({"kind": "sort", "prob": p})
    for i in range(200 if q else 4000):
        p = _tprob(rng, ties=rng.random() < 0.3)
        c = {"kind": "sd", "prob": p}
        if rng.random() < 0.85: c["ix"] = rng.sample(range(len(p["cand"])), p["k"])
        else: c["seed"] = rng.randint(0, 10 ** 6)
        cases.append(c)
    for i in range(160 if q else 3000):
        cases.append({"kind": "ssd", "prob": _tprob(rng, ties=rng.random() < 0.35)})
    # a larger instance of each exact optimiser
    for kind in ("sort", "sd", "ssd"):
        for _ in range(2 if q else 20):
            n = rng.randint(11, 16); p = _tprob(rng, n=n, k=rng.randint(2, 5))
            c = {"kind": kind, "prob": p}
            if kind == "sd": c["seed"] = rng.randint(0, 10 ** 6)
            cases.append(c)
    # --- operators
    for i in range(100 if q else 800):
        n = rng.randint(1, 9); M = n + rng.randint(0, 3); cand = rng.sample(range(M), n)
        cases.append({"kind": "op_sample", "cand": cand, "k": rng.choice([1, n, rng.randint(1, n)]), "n": rng.randint(0, 4),
                      "replace": rng.random() < 0.15, "seed": rng.randint(0, 10 ** 6), "rs": rng.choice(["kw", "kw", "kw", "none", "omitted"])})
    for i in range(140 if q else 2000):
        if rng.random() < 0.3:
            n = rng.randint(1, 10); k = rng.choice([1, n, rng.randint(1, n)])
        else:
            n = rng.randint(4, 12); k = rng.randint(2, max(2, n // 2))
        cand = rng.sample(range(n + 3), n)
        mat = [_parents(rng, cand, k) for _ in range(rng.randint(1, 4))]
        if rng.random() < 0.08:                         # a parent with a repeated member: outside the theorem's hypothesis, still modelled
            a, b = mat[0]; a = list(a); a[-1] = a[0]; mat[0] = (a, b)
        cases.append({"kind": "op_cx", "cand": cand, "k": k, "A": [m[0] for m in mat], "B": [m[1] for m in mat], "seed": rng.randint(0, 10 ** 6), "rs": rng.choice(["kw", "kw", "kw", "none", "omitted"])})
    for i in range(100 if q else 800):
        n = rng.randint(2, 9); setspace = rng.sample(range(n + 3), n); k = rng.randint(1, n - 1)
        X = [rng.sample(setspace, k) for _ in range(rng.randint(1, 4))]
        if rng.random() < 0.4:                          # foreign alleles make the (inverted) mask non-empty: the code path becomes live
            for x in X:
                for j in range(k):
                    if rng.random() < 0.5: x[j] = 100 + rng.randint(0, 5)
        cases.append({"kind": "op_mut", "setspace": setspace, "X": X, "seed": rng.randint(0, 10 ** 6), "rs": rng.choice(["kw", "kw", "kw", "none", "omitted"])})
    for i in range(60 if q else 500):
        which = rng.choice(["sbx", "pm"]); nv = rng.randint(1, 5); rows = rng.randint(1, 3)
        shape = [2, rows, nv] if which == "sbx" else [rows, nv]
        cnt = shape[0] * shape[1] * (shape[2] if len(shape) == 3 else 1)
        vals = []
        for _ in range(cnt):
            base = rng.randint(-6, 6)
            vals.append(base + rng.choice([0.0, 0.5, 0.5, -0.5, 0.25, 0.75, 0.49999999999999994, 0.5000000000000001, rng.randint(-64, 64) / 64.0]))
        cases.append({"kind": "op_round", "which": which, "shape": shape, "vals": vals, "dtype": rng.choice(["int64", "int64", "int32"])})
    for i in range(100 if q else 800):
        # k = n (nothing to exchange) and nhcstep > n - k (allele draws wrap around) are ordinary inputs
        n = rng.randint(1, 9); k = n if rng.random() < 0.12 else rng.randint(1, max(1, n - 1))
        p = _tprob(rng, n=n, k=k, nobj=rng.choice([1, 2, 2, 3]), nineq=0, neq=0, symmetric=True, ties=rng.random() < 0.4)
        cases.append({"kind": "op_hcAB", "which": rng.choice(["A", "B"]), "prob": p, "x": rng.sample(p["cand"], k),
                      "nhcstep": rng.choice([None, None, 1, rng.randint(1, 2 * k + 1)]), "seed": rng.randint(0, 10 ** 6),
                      "rs": rng.choice(["kw", "kw", "kw", "none", "omitted"])})
    # --- position-dependent problems for the sorting optimiser and both climbers (slot weights, >= 1 inequality and >= 1 equality constraint)
    for kind in ("sort", "sd", "ssd"):
        for i in range(30 if q else 400):
            n = rng.randint(2, 8); k = rng.choice([n, 2, rng.randint(2, n), rng.randint(1, n)])
            p = _positional(rng, _tprob(rng, n=n, k=k, ties=rng.random() < 0.3, pairs=(None if i % 3 else False)))
            if rng.random() < 0.3: _scaled(rng, p)
            if kind == "sd":                          # several starts (draws / seeds) on the same problem
                for t in range(3):
                    c = {"kind": kind, "prob": p}
                    if t < 2: c["ix"] = rng.sample(range(n), k)
                    else: c["seed"] = rng.randint(0, 10 ** 6)
                    cases.append(c)
            else: cases.append({"kind": kind, "prob": p})
    # --- pymoo-driven optimisers: result monitor
    reps = 14 if q else 120
    for algo in SUBSET_GA:
        for r in range(reps):
            single = algo in SINGLE
            nobj = 1 if single else rng.choice([2, 2, 3])
            n = rng.randint(1, 8)
            k = rng.choice([1, n, rng.randint(1, n), rng.randint(1, n)])
            memetic = algo in MEMETIC
            p = _tprob(rng, n=n, k=k, nobj=nobj, symmetric=True, nineq=(0 if memetic and rng.random() < 0.6 else None),
                       neq=(0 if memetic else None))
            p["clip"] = True
            if r == 1 and not memetic:                # one inequality and one equality constraint with different values
                p["C"] = [[rng.randint(0, 3) for _ in range(p["M"])]]; p["cap"] = [3 * k]; p["iwt"] = [1]
                p["D"] = [[0] * p["M"]]; p["tgt"] = [0]; p["ewt"] = [1]
            if r == 0:                                # certainly infeasible problem (no member of any population is feasible)
                p["C"] = [[1] * p["M"]]; p["cap"] = [k - 1]; p["iwt"] = [1]
            c = {"kind": "ga", "algo": algo, "ngen": rng.choice([1, 2, 3, 6]), "pop": rng.choice([1, 2, 4, 8, 12]),
                 "seed": rng.randint(0, 10 ** 6), "prob": p}
            if algo == "NSGA3SubsetGeneticAlgorithm" and nobj == 3:
                # Das-Dennis directions exist only for triangular numbers of points (pymoo raises otherwise): a documented
                # restriction of the hyper-parameter domain, so the reference-point count is chosen among the valid ones
                if rng.random() < 0.5: c["pop"] = rng.choice([1, 3, 6, 10])
                else: c["nrefpts"] = rng.choice([1, 3, 6, 10])
            if memetic and rng.random() < 0.5: c["phc"] = rng.choice([0.0, 0.5, 1.0])
            if algo in MEMETIC[1:] and rng.random() < 0.5: c["nhcstep"] = rng.choice([1, 2, 2 * k + 1, rng.randint(1, 2 * n)])
            if rng.random() < 0.4: c["rng"] = True
            if rng.random() < 0.3: p["osc"] = rng.choice([-20, 10])
            if r == 2 or rng.random() < 0.1: c["elementwise"] = False     # vectorised branch of Problem._evaluate
            if memetic and r == 3:                    # the whole candidate set is selected and every individual is hill-climbed
                p["k"] = len(p["cand"]); p["cap"] = [3 * p["k"] + 2 for _ in p["cap"]]; c["phc"] = 1.0
            cases.append(c)
    # --- the same monitor on POSITION-DEPENDENT problems, every class, several seeds per problem
    preps = 3 if q else 24
    for algo in SUBSET_GA:
        for r in range(preps):
            single = algo in SINGLE; memetic = algo in MEMETIC
            nobj = 1 if single else rng.choice([2, 2, 3])
            n = rng.randint(3, 8); k = rng.choice([2, n, rng.randint(2, n), rng.randint(2, n)])
            p = _tprob(rng, n=n, k=k, nobj=nobj, symmetric=True, pairs=(False if r % 2 else None))
            p["clip"] = True
            _positional(rng, p, mode=("tight" if r == 1 else "loose"))
            if rng.random() < 0.25: p["osc"] = rng.choice([-20, 10])
            for t in range(3):
                c = {"kind": "ga", "algo": algo, "ngen": rng.choice([1, 2, 3, 6]), "pop": rng.choice([2, 4, 8, 12]),
                     "seed": rng.randint(0, 10 ** 6), "prob": p}
                if algo == "NSGA3SubsetGeneticAlgorithm" and nobj == 3:
                    if rng.random() < 0.5: c["pop"] = rng.choice([3, 6, 10])
                    else: c["nrefpts"] = rng.choice([3, 6, 10])
                if memetic and rng.random() < 0.5: c["phc"] = rng.choice([0.0, 0.5, 1.0])
                if algo in MEMETIC[1:] and rng.random() < 0.5: c["nhcstep"] = rng.choice([1, 2, 2 * k + 1])
                if rng.random() < 0.4: c["rng"] = True
                if t == 2 and r == 0: c["elementwise"] = False
                cases.append(c)
    for algo, typ in LIN_GA.items():
        for r in range(preps):
            nobj = 1 if algo in SINGLE else rng.choice([2, 2, 3])
            lp = _lpos(rng, typ, nobj, mode=("tight" if r == 1 else "loose"))
            for t in range(3):
                c = {"kind": "ga", "algo": algo, "ngen": rng.choice([1, 2, 3, 6]), "pop": rng.choice([2, 4, 8, 12]),
                     "seed": rng.randint(0, 10 ** 6), "lp": lp}
                if t == 2 and r == 0: c["elementwise"] = False
                if rng.random() < 0.4: c["rng"] = True
                cases.append(c)
    for algo, typ in LIN_GA.items():
        for r in range(reps):
            nobj = 1 if algo in SINGLE else rng.choice([2, 2, 3])
            c = {"kind": "ga", "algo": algo, "ngen": rng.choice([1, 2, 3, 6]), "pop": rng.choice([1, 2, 4, 8, 12]),
                 "seed": rng.randint(0, 10 ** 6), "lp": _lprob(rng, typ, nobj, infeasible=(r == 0), nineq=(1 if r == 0 else None))}
            if r == 2 or rng.random() < 0.1: c["elementwise"] = False
            if rng.random() < 0.4: c["rng"] = True
            cases.append(c)
    # --- systematic hill-climb block: fixed cases, independent of the run's seed (both tiers)
    cases += _systematic_hc()
    return cases

# ------------------------------------------------------------------------------------------------ pure-python evaluation (predicate side)
def _tab_eval(p, x):
    x = [int(e) for e in x]
    if "SW" in p: return _tab_eval_pos(p, x)
    objs = []
    for j, w in enumerate(p["W"]):
        v = sum(w[e] for e in x)
        if j == 0 and p["P"]:
            v += sum(p["P"][x[a]][x[b]] for a in range(len(x)) for b in range(a + 1, len(x)))
        objs.append(_sc(p, "osc") * p["owt"][j] * v)
    ineq = []
    for c, cap, wt in zip(p["C"], p["cap"], p["iwt"]):
        v = sum(c[e] for e in x) - cap
        ineq.append(_sc(p, "csc") * wt * (max(0, v) if p["clip"] else v))
    eq = [_sc(p, "csc") * wt * abs(sum(d[e] for e in x) - tg) for d, tg, wt in zip(p["D"], p["tgt"], p["ewt"])]
    return objs, ineq, eq

def _tab_eval_pos(p, x):
    """position-dependent table problem: the member in slot a is weighed by the slot weight s[a] (independent of the driver's numpy code)"""
    sl = lambda s, t: sum(wa * t[e] for wa, e in zip(s, x))
    objs = []
    for j, w in enumerate(p["W"]):
        v = sl(p["SW"][j], w)
        if j == 0 and p["P"]:
            v += sum(p["P"][x[a]][x[b]] for a in range(len(x)) for b in range(a + 1, len(x)))
        objs.append(_sc(p, "osc") * p["owt"][j] * v)
    ineq = []
    for j, (c, cap, wt) in enumerate(zip(p["C"], p["cap"], p["iwt"])):
        v = sl(p["SC"][j], c) - cap
        ineq.append(_sc(p, "csc") * wt * (max(0, v) if p["clip"] else v))
    eq = [_sc(p, "csc") * wt * abs(sl(p["SD"][j], d) - tg) for j, (d, tg, wt) in enumerate(zip(p["D"], p["tgt"], p["ewt"]))]
    return objs, ineq, eq

def _sc(p, key):
    """scale of the objective (osc) / constraint (csc) weights: an exact power of two"""
    return Fraction(2) ** p.get(key, 0)

def _lin_eval(lp, x):
    xs = [Fraction(float(v)) for v in x]
    if "qn" in lp:                                    # quantised: floor(x * qn) / qn
        qn = lp["qn"]; xs = [Fraction((v * qn).numerator // (v * qn).denominator, qn) for v in xs]
    obj = [w * sum(a * v for a, v in zip(row, xs)) for row, w in zip(lp["A"], lp["owt"])]
    ineq = [w * max(0, sum(c * v for c, v in zip(row, xs)) - cap) for row, cap, w in zip(lp["C"], lp["cap"], lp["iwt"])]
    eq = [w * abs(sum(d * v for d, v in zip(row, xs)) - tg) for row, tg, w in zip(lp.get("D", []), lp.get("tgt", []), lp.get("ewt", []))]
    return obj, ineq, eq

# ------------------------------------------------------------------------------------------------ implementation drivers
class _CallLimit(RuntimeError):
    pass

def _mk_subset_problem(p, elementwise=True):
    from pybrops.opt.prob.SubsetProblem import SubsetProblem
    class TabSubset(SubsetProblem):
        def __init__(self, spec, **kw):
            self.spec = spec; self.calls = []
            self.W = [numpy.array(w, dtype=float) for w in spec["W"]]
            self.P = numpy.array(spec["P"], dtype=float) if spec["P"] else None
            self.C = [numpy.array(c, dtype=float) for c in spec["C"]]
            self.D = [numpy.array(d, dtype=float) for d in spec["D"]]
            self.S = {key: [numpy.array(s, dtype=float) for s in spec[key]] for key in ("SW", "SC", "SD")} if "SW" in spec else None
            super().__init__(**kw)
        def evalfn(self, x, *args, **kwargs):
            if len(self.calls) >= CALL_LIMIT: raise _CallLimit("more than %d evalfn calls" % CALL_LIMIT)
            x = numpy.asarray(x)
            self.calls.append([int(e) for e in x])
            if self.S is not None: return self._evalfn_pos(x)
            obj = numpy.empty(len(self.W), dtype=float)
            for j, w in enumerate(self.W):
                v = w[x].sum()
                if j == 0 and self.P is not None:
                    for a in range(len(x)):
                        for b in range(a + 1, len(x)): v += self.P[x[a], x[b]]
                obj[j] = v
            obj = self.obj_wt * obj
            ineq = numpy.array([(max(0.0, c[x].sum() - cap) if self.spec["clip"] else c[x].sum() - cap) for c, cap in zip(self.C, self.spec["cap"])], dtype=float)
            ineq = self.ineqcv_wt * ineq if len(ineq) else numpy.zeros(0)
            eq = numpy.array([abs(d[x].sum() - tg) for d, tg in zip(self.D, self.spec["tgt"])], dtype=float)
            eq = self.eqcv_wt * eq if len(eq) else numpy.zeros(0)
            return obj, ineq, eq
        def _evalfn_pos(self, x):
            # slot a of the decision vector weighs s[a]: the evaluation depends on the ORDER of the members
            m = len(x); S = self.S
            obj = numpy.empty(len(self.W), dtype=float)
            for j, w in enumerate(self.W):
                v = (S["SW"][j][:m] * w[x]).sum()
                if j == 0 and self.P is not None:
                    for a in range(m):
                        for b in range(a + 1, m): v += self.P[x[a], x[b]]
                obj[j] = v
            obj = self.obj_wt * obj
            ineq = numpy.array([(S["SC"][j][:m] * c[x]).sum() - cap for j, (c, cap) in enumerate(zip(self.C, self.spec["cap"]))], dtype=float)
            if self.spec["clip"]: ineq = numpy.maximum(0.0, ineq)
            ineq = self.ineqcv_wt * ineq if len(ineq) else numpy.zeros(0)
            eq = numpy.array([abs((S["SD"][j][:m] * d[x]).sum() - tg) for j, (d, tg) in enumerate(zip(self.D, self.spec["tgt"]))], dtype=float)
            eq = self.eqcv_wt * eq if len(eq) else numpy.zeros(0)
            return obj, ineq, eq
    M = p["M"]
    return TabSubset(p, ndecn=p["k"], decn_space=numpy.array(p["cand"], dtype=int), decn_space_lower=0, decn_space_upper=M - 1,
                     nobj=len(p["W"]), obj_wt=numpy.array(p["owt"], dtype=float) * float(_sc(p, "osc")), nineqcv=len(p["C"]),
                     ineqcv_wt=numpy.array(p["iwt"], dtype=float) * float(_sc(p, "csc")), neqcv=len(p["D"]),
                     eqcv_wt=numpy.array(p["ewt"], dtype=float) * float(_sc(p, "csc")), elementwise=elementwise)

def _mk_lin_problem(lp, elementwise=True):
    from pybrops.opt.prob.RealProblem import RealProblem
    from pybrops.opt.prob.IntegerProblem import IntegerProblem
    from pybrops.opt.prob.BinaryProblem import BinaryProblem
    Base = {"real": RealProblem, "int": IntegerProblem, "bin": BinaryProblem}[lp["type"]]
    class Lin(Base):
        def __init__(self, spec, **kw):
            self.spec = spec; self.calls = []
            self.A = numpy.array(spec["A"], dtype=float).reshape(len(spec["A"]), len(spec["lo"]))
            self.C = numpy.array(spec["C"], dtype=float).reshape(len(spec["C"]), len(spec["lo"]))
            self.cap = numpy.array(spec["cap"], dtype=float)
            self.D = numpy.array(spec.get("D", []), dtype=float).reshape(len(spec.get("D", [])), len(spec["lo"]))
            self.tgt = numpy.array(spec.get("tgt", []), dtype=float)
            super().__init__(**kw)
        def evalfn(self, x, *args, **kwargs):
            if len(self.calls) >= CALL_LIMIT: raise _CallLimit("more than %d evalfn calls" % CALL_LIMIT)
            x = numpy.asarray(x)
            self.calls.append((x.tolist(), str(x.dtype)))
            xf = x.astype(float)
            if "qn" in self.spec: xf = numpy.floor(xf * float(self.spec["qn"])) / float(self.spec["qn"])     # exact: qn is a power of two
            obj = self.obj_wt * (self.A @ xf)
            ineq = self.ineqcv_wt * numpy.maximum(0.0, self.C @ xf - self.cap) if len(self.cap) else numpy.zeros(0)
            eq = self.eqcv_wt * numpy.abs(self.D @ xf - self.tgt) if len(self.tgt) else numpy.zeros(0)
            return obj, ineq, eq
    dt = float if lp["type"] == "real" else int
    lo = numpy.array(lp["lo"], dtype=dt); hi = numpy.array(lp["hi"], dtype=dt)
    return Lin(lp, ndecn=len(lp["lo"]), decn_space=numpy.stack([lo, hi]), decn_space_lower=lo, decn_space_upper=hi,
               nobj=len(lp["A"]), obj_wt=numpy.array(lp["owt"], dtype=float), nineqcv=len(lp["C"]),
               ineqcv_wt=numpy.array(lp["iwt"], dtype=float), neqcv=len(lp.get("D", [])),
               **({"eqcv_wt": numpy.array(lp["ewt"], dtype=float)} if lp.get("D") else {}), elementwise=elementwise)

def _canon(v, depth=0):
    if isinstance(v, numpy.ndarray): return ["nd", str(v.dtype), list(v.shape), v.tolist()]
    if isinstance(v, (bool, int, float, str, type(None))): return v
    if isinstance(v, (numpy.integer, numpy.floating, numpy.bool_)): return v.item()
    if isinstance(v, (list, tuple)): return [_canon(x, depth + 1) for x in v]
    if isinstance(v, dict): return {str(k): _canon(x, depth + 1) for k, x in sorted(v.items(), key=lambda t: str(t[0]))}
    return "<%s>" % type(v).__name__

def _snap(prob):
    return {k: _canon(v) for k, v in sorted(vars(prob).items()) if k != "calls"}

def _hx(a):
    return [[float(x).hex() for x in r] for r in numpy.asarray(a, dtype=float)]

def _solution_out(prob, soln, before, subset):
    out = {}
    decn = numpy.asarray(soln.soln_decn)
    out["dtype"] = str(decn.dtype)
    out["decn"] = decn.tolist()
    out["decn_hex"] = _hx(decn) if decn.dtype.kind == "f" else None
    out["obj"] = _hx(soln.soln_obj); out["ineq"] = _hx(soln.soln_ineqcv); out["eq"] = _hx(soln.soln_eqcv)
    out["nsoln"] = int(soln.nsoln)
    out["shapes"] = [list(numpy.shape(soln.soln_decn)), list(numpy.shape(soln.soln_obj)), list(numpy.shape(soln.soln_ineqcv)), list(numpy.shape(soln.soln_eqcv))]
    out["meta_ok"] = bool(soln.ndecn == prob.ndecn and soln.nobj == prob.nobj and soln.nineqcv == prob.nineqcv and soln.neqcv == prob.neqcv
                          and numpy.array_equal(soln.decn_space, prob.decn_space) and numpy.array_equal(soln.obj_wt, prob.obj_wt))
    out["soln_type"] = type(soln).__name__
    ncalls = len(prob.calls)
    fresh = [prob.evalfn(numpy.array(d, dtype=decn.dtype)) for d in decn]
    out["fresh"] = [[_hx([f[0]])[0], _hx([f[1]])[0], _hx([f[2]])[0]] for f in fresh]
    del prob.calls[ncalls:]
    out["unchanged"] = _snap(prob) == before
    # aliasing: the reported arrays are the caller's; overwriting them must not reach the problem (nor its decision space)
    try:
        for a in (soln.soln_decn, soln.soln_obj, soln.soln_ineqcv, soln.soln_eqcv):
            a = numpy.asarray(a)
            if a.size and a.flags.writeable: a[...] = (a + 1) if a.dtype.kind != "b" else ~a
        out["alias_free"] = _snap(prob) == before
    except Exception as e:
        out["alias_free"] = "error: %s" % e
    return out

class _Script:
    """stand-in for the numpy.random module functions used by pymoo_addon: draws come from a case-seeded PRNG, are biased
    towards boundaries/duplicates, honour the arguments the code passes, and are recorded"""
    def __init__(self, seed):
        self.r = random.Random(seed); self.log = []
    def choice(self, a, size=None, replace=True, p=None):
        arr = numpy.arange(a) if isinstance(a, (int, numpy.integer)) else numpy.asarray(a)
        n = len(arr)
        cnt = 1 if size is None else int(size)
        if n == 0 and cnt > 0: raise ValueError("a cannot be empty unless no samples are taken")
        if replace:
            ix = [self.r.randrange(n) for _ in range(cnt)]
            if cnt >= 2 and self.r.random() < 0.4: ix[self.r.randrange(1, cnt)] = ix[0]
        else:
            if cnt > n: raise ValueError("Cannot take a larger sample than population when 'replace=False'")
            ix = self.r.sample(range(n), cnt)
        self.log.append({"fn": "choice", "n": n, "size": None if size is None else cnt, "replace": bool(replace), "ix": ix})
        if size is None: return arr[ix[0]]
        return arr[numpy.array(ix, dtype=int)]
    def randint(self, low, high=None, size=None):
        assert size is None
        if high is None: low, high = 0, low
        if high <= low: raise ValueError("low >= high")
        v = self.r.choice([low, high - 1, self.r.randrange(low, high)])
        self.log.append({"fn": "randint", "low": int(low), "high": int(high), "v": int(v)})
        return v
    def random(self, size=None):
        cnt = 1 if size is None else int(size)
        vs = [self.r.choice([0.0, 0.125, 0.25, 0.5, 0.75, self.r.randrange(0, 64) / 64.0, self.r.randrange(0, 1024) / 1024.0]) for _ in range(cnt)]
        self.log.append({"fn": "random", "size": None if size is None else cnt, "u": [float(v).hex() for v in vs]})
        return vs[0] if size is None else numpy.array(vs, dtype=float)

class _Forced:
    """scripted generator of the SYSTEMATIC hill-climb cases: the draws are written into the case (independent of the run's seed) and are
    answered by KIND of request, so that the same script drives any ordering of the requests:
      choice(a, m, replace=False)  <- the next m entries of script["tiles"] (the loci tiles followed by the allele tiles, flat);
      choice(a) (one index)         <- the next entry of script["scalar"] (taken modulo len(a));
      random(m)                     <- the next m entries of script["u"] (default 63/64);
    a request the script cannot answer with valid indices (queue empty, value out of range, repeated value in a draw without
    replacement) is answered by a generator with a FIXED seed.  Requests are logged in the format of _Script"""
    def __init__(self, sc):
        self.tiles = list(sc.get("tiles", [])); self.scalar = list(sc.get("scalar", [])); self.u = list(sc.get("u", []))
        self.r = random.Random(sc.get("fallback", 0)); self.log = []
    def choice(self, a, size=None, replace=True, p=None):
        arr = numpy.arange(a) if isinstance(a, (int, numpy.integer)) else numpy.asarray(a)
        n = len(arr)
        cnt = 1 if size is None else int(size)
        if n == 0 and cnt > 0: raise ValueError("a cannot be empty unless no samples are taken")
        if size is None:
            ix = [int(self.scalar.pop(0)) % n if self.scalar else self.r.randrange(n)]
        elif not replace:
            if cnt > n: raise ValueError("Cannot take a larger sample than population when 'replace=False'")
            head = [int(v) for v in self.tiles[:cnt]]
            if len(head) == cnt and len(set(head)) == cnt and all(0 <= v < n for v in head):
                ix = head; del self.tiles[:cnt]
            else:
                ix = self.r.sample(range(n), cnt)
        else:
            ix = [self.r.randrange(n) for _ in range(cnt)]
        self.log.append({"fn": "choice", "n": n, "size": None if size is None else cnt, "replace": bool(replace), "ix": ix})
        if size is None: return arr[ix[0]]
        return arr[numpy.array(ix, dtype=int)]
    def randint(self, low, high=None, size=None):
        assert size is None
        if high is None: low, high = 0, low
        if high <= low: raise ValueError("low >= high")
        v = self.r.randrange(low, high)
        self.log.append({"fn": "randint", "low": int(low), "high": int(high), "v": int(v)})
        return v
    def random(self, size=None):
        cnt = 1 if size is None else int(size)
        vs = [float(self.u.pop(0)) if self.u else 63 / 64.0 for _ in range(cnt)]
        self.log.append({"fn": "random", "size": None if size is None else cnt, "u": [float(v).hex() for v in vs]})
        return vs[0] if size is None else numpy.array(vs, dtype=float)

class _patched_random:
    """the process-wide streams replaced by a script: numpy.random's module functions and the global_prng object pymoo_addon falls
    back to when it is handed no generator"""
    def __init__(self, script): self.s = script
    def __enter__(self):
        from pybrops.opt.algo import pymoo_addon as PA
        self.saved = (numpy.random.choice, numpy.random.randint, numpy.random.random, PA.global_prng)
        numpy.random.choice, numpy.random.randint, numpy.random.random = self.s.choice, self.s.randint, self.s.random
        PA.global_prng = self.s
    def __exit__(self, *a):
        from pybrops.opt.algo import pymoo_addon as PA
        numpy.random.choice, numpy.random.randint, numpy.random.random, PA.global_prng = self.saved

def _drawn(case, call):
    """run call(args, kwargs) with the case's script as the source of every draw.  case["rs"] says how the generator reaches the
    operator: "kw" / "pos" - handed as random_state (the process-wide streams are replaced by a second script that must stay
    untouched); "none" / "omitted" - random_state=None / not passed: the operator must fall back to the process-wide stream, which
    is the script.  Returns (result, request log, number of draws from the process-wide streams while a generator was handed)"""
    s = _Forced(case["script"]) if "script" in case else _Script(case["seed"]); rs = case.get("rs", "kw")
    if rs in ("kw", "pos"):
        g = _Script(case.get("seed", 0) + 1)
        with _patched_random(g):
            r = call((s,), {}) if rs == "pos" else call((), {"random_state": s})
        return r, s.log, len(g.log)
    with _patched_random(s):
        r = call((), {"random_state": None} if rs == "none" else {})
    return r, s.log, 0

class _NVar:
    def __init__(self, n): self.n_var = n

def run_impl(case):
    kind = case["kind"]
    if kind in ("sort", "sd", "ssd"):
        from rngscript import Scripted
        p = case["prob"]
        prob = _mk_subset_problem(p)
        before = _snap(prob)
        misc = {}
        rng_log = None
        if kind == "sort":
            from pybrops.opt.algo.SortingSubsetOptimizationAlgorithm import SortingSubsetOptimizationAlgorithm
            algo = SortingSubsetOptimizationAlgorithm()
        elif kind == "ssd":
            from pybrops.opt.algo.SortingSteepestDescentSubsetHillClimber import SortingSteepestDescentSubsetHillClimber
            algo = SortingSteepestDescentSubsetHillClimber()
        else:
            from pybrops.opt.algo.SteepestDescentSubsetHillClimber import SteepestDescentSubsetHillClimber
            if "ix" in case:
                rng = Scripted(choices=[case["ix"]])
            else:
                rng = numpy.random.default_rng(case["seed"])
            algo = SteepestDescentSubsetHillClimber(rng=rng)
        soln = algo.minimize(prob, miscout=misc)
        calls = list(prob.calls)
        out = _solution_out(prob, soln, before, True)
        out["calls"] = calls
        out["misc"] = {k: float(v).hex() for k, v in misc.items()}
        if kind == "sd" and "ix" in case:
            out["rng_log"] = [list(t) for t in rng.log]
            out["rng_left"] = len(rng.q["choice"])
        return out
    if kind == "session":
        from rngscript import Scripted
        from pybrops.opt.algo.SortingSubsetOptimizationAlgorithm import SortingSubsetOptimizationAlgorithm
        from pybrops.opt.algo.SortingSteepestDescentSubsetHillClimber import SortingSteepestDescentSubsetHillClimber
        from pybrops.opt.algo.SteepestDescentSubsetHillClimber import SteepestDescentSubsetHillClimber
        from pybrops.opt.algo.SubsetGeneticAlgorithm import SubsetGeneticAlgorithm
        steps = case["steps"]
        prob = _mk_subset_problem(steps[0])
        rng = Scripted(choices=[list(ix) for ix in case["ix"]])
        algos = {"sort": SortingSubsetOptimizationAlgorithm(), "ssd": SortingSteepestDescentSubsetHillClimber(), "sd": SteepestDescentSubsetHillClimber(rng=rng)}
        ga = SubsetGeneticAlgorithm(ngen=2, pop_size=4, rng=numpy.random.default_rng(case["seed"])) if case.get("ga") else None
        outs = []
        prev = steps[0]
        for t, p in enumerate(steps):
            # reach the next state through the library's own setters / by overwriting the data arrays in place
            if p["k"] != prev["k"] or p["cand"] != prev["cand"]:
                if len(p["cand"]) != len(prev["cand"]) or p["cand"] != prev["cand"]: prob.decn_space = numpy.array(p["cand"], dtype=int)
                prob.ndecn = p["k"]
                prob.decn_space_lower = 0; prob.decn_space_upper = p["M"] - 1
            if p["owt"] != prev["owt"]: prob.obj_wt = numpy.array(p["owt"], dtype=float)
            if p["iwt"] != prev["iwt"]: prob.ineqcv_wt = numpy.array(p["iwt"], dtype=float)
            if p["W"] != prev["W"]:
                for w, row in zip(prob.W, p["W"]): w[:] = row
            prob.spec = p
            prev = p
            step_out = {}
            for kd in ("sort", "ssd", "sd"):
                del prob.calls[:]
                before = _snap(prob)
                misc = {}
                soln = algos[kd].minimize(prob, miscout=misc)
                calls = list(prob.calls)
                o = _solution_out(prob, soln, before, True)
                o["calls"] = calls; o["misc"] = {k: float(v).hex() for k, v in misc.items()}
                step_out[kd] = o
            if ga is not None:
                del prob.calls[:]
                before = _snap(prob)
                import io, contextlib
                with contextlib.redirect_stdout(io.StringIO()):
                    soln = ga.minimize(prob)
                step_out["ga"] = _solution_out(prob, soln, before, True)
            outs.append(step_out)
        return {"steps": outs, "rng_log": [list(t) for t in rng.log], "rng_left": len(rng.q["choice"])}
    if kind == "op_dom":
        from pybrops.opt.algo.pymoo_addon import dominates
        sc = 2.0 ** case["sc"]
        o1 = numpy.array(case["o1"], dtype=float) * sc; o2 = numpy.array(case["o2"], dtype=float) * sc
        a1 = o1.copy(); a2 = o2.copy()
        r = dominates(o1, case["cv1"] * sc, o2, case["cv2"] * sc)
        return {"dom": bool(r), "type": type(r).__name__, "inputs_unchanged": bool(numpy.array_equal(o1, a1) and numpy.array_equal(o2, a2))}
    if kind == "op_tiled":
        from pybrops.opt.algo.pymoo_addon import tiled_choice
        r, log, gd = _drawn(case, lambda a, k: tiled_choice(case["a"], case["size"], *a, **k))
        r = numpy.asarray(r)
        return {"out": [int(v) for v in r], "dtype": str(r.dtype), "log": log, "global_draws": gd}
    if kind == "op_hc2":
        from pybrops.opt.algo import pymoo_addon as PA
        from pymoo.core.individual import Individual
        p = case["prob"]
        prob = _mk_subset_problem(p, case.get("elementwise", True))
        before = _snap(prob)
        x = numpy.array(case["x"], dtype=int); x0 = x.copy()
        setspace = numpy.array(p["cand"], dtype=int)
        which = case["which"]
        if which == "StochasticHillClimberMutation": op = PA.StochasticHillClimberMutation(setspace=setspace, phc=1.0, nhcstep=case["nhcstep"])
        elif which == "MultiObjectiveSteepestDescentHillClimberMutation": op = PA.MultiObjectiveSteepestDescentHillClimberMutation(setspace=setspace, p_hillclimb=1.0)
        elif which == "MultiObjectiveStochasticDescentHillClimberMutation": op = PA.MultiObjectiveStochasticDescentHillClimberMutation(setspace=setspace, phc=1.0, nhc=case["nhcstep"])
        else: op = PA.MultiObjectiveStochasticHillClimberMutation(setspace=setspace, p_hillclimb=1.0)
        if which.startswith("MultiObjectiveS") and which != "MultiObjectiveStochasticHillClimberMutation":
            ind = Individual(); ind.X = x
            res, log, gd = _drawn(case, lambda a, k: op.hillclimb(prob, ind, **k))
            rows = numpy.asarray(res.get("X")); F = numpy.asarray(res.get("F"), dtype=float)
            rows = rows.reshape(len(res), -1) if len(res) else numpy.zeros((0, len(x)), dtype=int)
            Fh = _hx(F.reshape(len(res), -1)) if len(res) else []
        else:
            res, log, gd = _drawn(case, lambda a, k: op.hillclimb(prob, x, **k))
            res = numpy.asarray(res)
            rows = res.reshape(1, -1); Fh = None
        return {"global_draws": gd, "ndraws": len(log), "rows": rows.tolist(), "dtype": str(rows.dtype), "F": Fh, "x_unchanged": bool(numpy.array_equal(x, x0)), "unchanged": _snap(prob) == before,
                "setspace_unchanged": setspace.tolist() == p["cand"], "shares": bool(numpy.shares_memory(rows, x) or numpy.shares_memory(rows, setspace))}
    if kind == "op_sample":
        from pybrops.opt.algo.pymoo_addon import SubsetRandomSampling
        setspace = numpy.array(case["cand"], dtype=int)
        op = SubsetRandomSampling(setspace=setspace, replace=case["replace"]) if case["replace"] else SubsetRandomSampling(setspace=setspace)
        # the operator is handed its generator (the process-wide stream must stay untouched) or none (it must use the process-wide stream)
        X, log, gd = _drawn(case, lambda a, k: op._do(_NVar(case["k"]), case["n"], **k))
        return {"global_draws": gd, "X": numpy.asarray(X).tolist(), "dtype": str(numpy.asarray(X).dtype), "shape": list(numpy.shape(X)), "log": log,
                "setspace_unchanged": setspace.tolist() == case["cand"], "shares": bool(numpy.shares_memory(numpy.asarray(X), setspace))}
    if kind == "op_cx":
        from pybrops.opt.algo.pymoo_addon import ReducedExchangeCrossover
        X = numpy.array([case["A"], case["B"]], dtype=int)
        X0 = X.copy()
        op = ReducedExchangeCrossover()
        Xp, log, gd = _drawn(case, lambda a, k: op._do(_NVar(case["k"]), X, **k))
        return {"global_draws": gd, "Xp": numpy.asarray(Xp).tolist(), "dtype": str(Xp.dtype), "log": log, "input_unchanged": bool(numpy.array_equal(X, X0)),
                "n_parents": int(op.n_parents), "n_offsprings": int(op.n_offsprings), "shares": bool(numpy.shares_memory(numpy.asarray(Xp), X))}
    if kind == "op_mut":
        from pybrops.opt.algo.pymoo_addon import ReducedExchangeMutation
        setspace = numpy.array(case["setspace"], dtype=int)
        X = numpy.array(case["X"], dtype=int); X0 = X.copy()
        op = ReducedExchangeMutation(setspace=setspace)
        pr = _NVar(X.shape[1])
        Xm, log, gd = _drawn(case, lambda a, k: op._do(pr, X, **k))
        pv = op.get_prob_var(pr)
        return {"global_draws": gd, "Xm": numpy.asarray(Xm).tolist(), "dtype": str(Xm.dtype), "log": log, "p": float(pv).hex(),
                "input_unchanged": bool(numpy.array_equal(X, X0)), "setspace_unchanged": setspace.tolist() == case["setspace"],
                "shares": bool(numpy.shares_memory(numpy.asarray(Xm), X) or numpy.shares_memory(numpy.asarray(Xm), setspace))}
    if kind == "op_round":
        from pybrops.opt.algo import pymoo_addon as PA
        from pymoo.operators.crossover.sbx import SimulatedBinaryCrossover
        from pymoo.operators.mutation.pm import PolynomialMutation
        arr = numpy.array(case["vals"], dtype=float).reshape(case["shape"])
        X = numpy.zeros(case["shape"], dtype=case["dtype"])
        Base, Cls = (SimulatedBinaryCrossover, PA.IntegerSimulatedBinaryCrossover) if case["which"] == "sbx" else (PolynomialMutation, PA.IntegerPolynomialMutation)
        saved = Base._do
        seen = {}
        def fake(self, problem, X, *a, **k):
            seen["X_is_input"] = True
            return arr.copy()
        Base._do = fake
        try:
            res = Cls()._do(_NVar(case["shape"][-1]), X)
        finally:
            Base._do = saved
        res = numpy.asarray(res)
        return {"res": [int(v) for v in res.ravel()] if res.dtype.kind in "iu" else None, "res_f": [float(v).hex() for v in res.ravel()],
                "dtype": str(res.dtype), "shape": list(res.shape), "called_super": bool(seen)}
    if kind == "op_hcAB":
        from pybrops.opt.algo import pymoo_addon as PA
        p = case["prob"]
        prob = _mk_subset_problem(p)
        before = _snap(prob)
        x = numpy.array(case["x"], dtype=int); x0 = x.copy()
        setspace = numpy.array(p["cand"], dtype=int)
        op = (PA.MutatorA if case["which"] == "A" else PA.MutatorB)(setspace=setspace, phc=1.0, nhcstep=case["nhcstep"])
        res, log, gd = _drawn(case, lambda a, k: op.hillclimb(prob, x, **k))
        res = numpy.asarray(res)
        return {"global_draws": gd, "out": res.tolist(), "dtype": str(res.dtype), "log": log, "calls": list(prob.calls), "x_unchanged": bool(numpy.array_equal(x, x0)),
                "unchanged": _snap(prob) == before, "setspace_unchanged": setspace.tolist() == p["cand"],
                "shares": bool(numpy.shares_memory(res, x) or numpy.shares_memory(res, setspace))}
    if kind == "ga":
        import importlib
        algo_name = case["algo"]
        if algo_name in MEMETIC:
            mod = importlib.import_module("pybrops.opt.algo.NSGA2MemeticSubsetGeneticAlgorithm")
        else:
            mod = importlib.import_module("pybrops.opt.algo." + algo_name)
        cls = getattr(mod, algo_name)
        subset = "prob" in case
        ew = case.get("elementwise", True)
        prob = _mk_subset_problem(case["prob"], ew) if subset else _mk_lin_problem(case["lp"], ew)
        before = _snap(prob)
        kw = {k: case[k] for k in ("phc", "nrefpts", "nhcstep") if k in case}
        if case.get("rng"): kw["rng"] = numpy.random.default_rng(case["seed"] + 2)     # the optimiser's own generator (default: the global one)
        algo = cls(ngen=case["ngen"], pop_size=case["pop"], **kw)
        # replayability: pybrops' operators draw from the global numpy.random, pymoo from default_rng(None)
        numpy.random.seed(case["seed"])
        orig = numpy.random.default_rng
        numpy.random.default_rng = lambda seed=None: orig(case["seed"] + 1 if seed is None else seed)
        # observe (harness side) what pymoo handed back: res.X is None when the final population has no feasible member
        seen = {}
        orig_min = mod.minimize
        def watched(*a, **k):
            try:
                alg = k.get("algorithm", a[1] if len(a) > 1 else None)
                smp = alg.initialization.sampling; cx = alg.mating.crossover; mu = alg.mating.mutation
                seen["ops"] = {"sampling": type(smp).__name__, "crossover": type(cx).__name__, "mutation": type(mu).__name__,
                               "replace": getattr(smp, "replace", None),
                               "sampling_setspace": None if not hasattr(smp, "setspace") else numpy.asarray(smp.setspace).tolist(),
                               "mutation_setspace": None if not hasattr(mu, "setspace") else numpy.asarray(mu.setspace).tolist()}
            except Exception as e:
                seen["ops"] = {"error": "%s: %s" % (type(e).__name__, e)}
            res = orig_min(*a, **k)
            seen["resX_none"] = res.X is None
            try: seen["pop_min_cv"] = float(numpy.min(res.pop.get("CV")))
            except Exception: seen["pop_min_cv"] = None
            return res
        mod.minimize = watched
        import io, contextlib, traceback
        try:
            with contextlib.redirect_stdout(io.StringIO()):
                soln = algo.minimize(prob)
        except Exception as e:
            if not seen: raise
            return {"exc": type(e).__name__, "msg": str(e)[:300], "tb": traceback.format_exc()[-1500:], "pymoo": seen}
        finally:
            numpy.random.default_rng = orig
            mod.minimize = orig_min
        ncalls = len(prob.calls)
        out = _solution_out(prob, soln, before, subset)
        out["ncalls"] = ncalls
        out["ops"] = seen.get("ops")
        return out
    raise ValueError("unknown kind %r" % kind)

# ------------------------------------------------------------------------------------------------ Coq emission
def _fh(h): return float.fromhex(h)
def _isint(h): return float.fromhex(h) == int(float.fromhex(h))
def _unscale(h, sc=1):
    """implementation value / scale as an exact integer (the model works in units of the weights' scale)"""
    v = Fraction(_fh(h)) / sc
    if v.denominator != 1: raise ValueError("value %r is not an integer multiple of the scale %r" % (h, sc))
    return int(v)

def _zl_from_hex(hs, sc=1):
    return E.lst([_unscale(h, sc) for h in hs], E.z)

def _tp(p):
    return ("(mkTP %s %s %s %s %s %s %s %s %s %s)" % (E.lst2(p["W"], E.z), E.lst2(p["P"], E.z), E.lst(p["owt"], E.z), E.lst2(p["C"], E.z),
            E.lst(p["cap"], E.z), E.b(p["clip"]), E.lst(p["iwt"], E.z), E.lst2(p["D"], E.z), E.lst(p["tgt"], E.z), E.lst(p["ewt"], E.z)))

def _ev(p):
    """the problem's evaluation function as a Gallina term"""
    if "SW" in p: return "(tps_eval %s %s %s %s)" % (_tp(p), E.lst2(p["SW"], E.z), E.lst2(p["SC"], E.z), E.lst2(p["SD"], E.z))
    return "(tp_eval %s)" % _tp(p)

def _evalT(out, i, p=None):
    so, scv = (_sc(p, "osc"), _sc(p, "csc")) if p is not None else (1, 1)
    return "(%s, %s, %s)" % (_zl_from_hex(out["obj"][i], so), _zl_from_hex(out["ineq"][i], scv), _zl_from_hex(out["eq"][i], scv))

def _emit_case(case, out):
    kind = case["kind"]
    if "exc" in out:
        return "false"                                    # no modelled operation / optimiser run is allowed to raise
    zl = lambda xs: E.lst(xs, E.z)
    zll = lambda xss: E.lst2(xss, E.z)
    if kind in ("sort", "sd", "ssd"):
        p = case["prob"]; cand = p["cand"]; k = p["k"]; n = len(cand)
        if out["nsoln"] != 1 or len(out["decn"]) != 1 or out["dtype"] not in ("int64", "int32"): return "false"
        decn = out["decn"][0]; calls = out["calls"]
        hd = "let ev := %s in let cand := %s in let decn := %s in let rep := %s in let calls := %s in " % (
            _ev(p), zl(cand), zl(decn), _evalT(out, 0, p), zll(calls))
        parts = ["feasible_b cand %d decn" % k]
        if kind == "sort":
            parts += ["zll_eqb (firstn %d calls) (map (fun e => [e]) cand)" % n,
                      "zll_eqb (skipn %d calls) [decn]" % n,
                      "zl_eqb (map (single_key ev) decn) (map (single_key ev) (sort_select ev cand %d))" % k,
                      "evalT_eqb (snd (sort_minimize ev cand %d)) (ev (sort_select ev cand %d))" % (k, k),
                      "evalT_eqb (ev decn) rep"]
        elif kind == "sd":
            if "ix" in case:
                if out.get("rng_log") != [["choice", n, k, False]] or out.get("rng_left") != 0: return "false"
                parts += ["opt3_eqb (sd_minimize ev %d cand %s) decn rep" % (FUEL, E.lst(case["ix"], E.nat)),
                          "zll_eqb (climb_calls_from ev %d cand (sample cand %s)) calls" % (FUEL, E.lst(case["ix"], E.nat))]
            else:
                if not calls: return "false"
                parts += ["feasible_b cand %d (hd [] calls)" % k,
                          "opt3_eqb (climb_from ev %d cand (hd [] calls)) decn rep" % FUEL,
                          "zll_eqb (climb_calls_from ev %d cand (hd [] calls)) calls" % FUEL]
        else:
            if len(calls) <= n: return "false"
            parts += ["zll_eqb (firstn %d calls) (map (fun e => [e]) cand)" % n,
                      "let start := nth %d calls [] in feasible_b cand %d start "
                      "&& zl_eqb (map (single_key ev) start) (map (single_key ev) (sort_select ev cand %d)) "
                      "&& opt3_eqb (climb_from ev %d cand start) decn rep "
                      "&& zll_eqb (climb_calls_from ev %d cand start) (skipn %d calls)" % (n, k, k, FUEL, FUEL, n)]
        if "misc" in out and kind != "sort":
            ms = out["misc"]
            if set(ms) != {"gbest_score", "gbest_cv"}: return "false"
            parts += ["Z.eqb (score rep) %s" % E.z(_unscale(ms["gbest_score"], _sc(p, "osc"))), "Z.eqb (cv rep) %s" % E.z(_unscale(ms["gbest_cv"], _sc(p, "csc")))]
        return "(" + hd + "\n  " + "\n  && ".join(parts) + ")"
    if kind == "session":
        # every call of the session must be what a fresh optimiser computes on the problem as it is at that call
        want_log = [["choice", len(p["cand"]), p["k"], False] for p in case["steps"]]
        if out["rng_log"] != want_log or out["rng_left"] != 0: return "false"
        parts = []
        for t, (p, so) in enumerate(zip(case["steps"], out["steps"])):
            for kd in ("sort", "ssd", "sd"):
                o = dict(so[kd]); o["rng_log"] = [want_log[t]]; o["rng_left"] = 0
                parts.append(emit_case({"kind": kd, "prob": p, "ix": case["ix"][t]}, o))
            if "ga" in so:
                parts.append(emit_case({"kind": "ga", "algo": "SubsetGeneticAlgorithm", "prob": p}, so["ga"]))
        return "(" + "\n && ".join(parts) + ")"
    if kind == "op_dom":
        if out["type"] not in ("bool", "bool_"): return "false"
        return "Bool.eqb (dominates_m %s %s %s %s) %s" % (zl(case["o1"]), E.z(case["cv1"]), zl(case["o2"]), E.z(case["cv2"]), E.b(out["dom"]))
    if kind == "op_tiled":
        a, size = case["a"], case["size"]
        want = [(a, a)] * (size // a) + [(a, size % a)]
        got = [(l["n"], l["size"]) for l in out["log"] if l["fn"] == "choice" and l["replace"] is False]
        if got != want or len(got) != len(out["log"]) or out["dtype"] != "int64": return "false"
        if sum((l["ix"] for l in out["log"]), []) != out["out"]: return "false"
        return "tiled_ok %d %d %s" % (a, size, E.lst(out["out"], E.nat))
    if kind == "op_hc2":
        p = case["prob"]
        if out["dtype"] not in ("int64", "int32"): return "false"
        parts = ["forallb (feasible_b %s %d) %s" % (zl(p["cand"]), p["k"], zll(out["rows"]))]
        if out["F"] is not None and case["which"] in HC2[:2]:       # objectives stored with the returned rows: those of each row as ordered
            parts.append("zll_eqb (map (fun y => e_obj (%s y)) %s) %s" % (_ev(p), zll(out["rows"]), E.lst([_zl_from_hex(f, _sc(p, "osc")) for f in out["F"]], str)))
        return "(" + " && ".join(parts) + ")"
    if kind == "op_sample":
        cand = case["cand"]; k = case["k"]
        log = out["log"]
        if len(log) != case["n"] or any(l["fn"] != "choice" or l["n"] != len(cand) or l["size"] != k or l["replace"] != case["replace"] for l in log):
            return "false"
        if out["shape"] != [case["n"], k] or out["dtype"] != "int64": return "false"
        parts = ["zll_eqb (subset_sampling %s %s) %s" % (zl(cand), E.lst2([l["ix"] for l in log], E.nat), zll(out["X"]))]
        if not case["replace"]:
            parts.append("forallb (feasible_b %s %d) %s" % (zl(cand), k, zll(out["X"])))
        return "(" + " && ".join(parts) + ")"
    if kind == "op_cx":
        log = list(out["log"]); parts = []
        Xp = out["Xp"]
        if len(Xp) != 2 or out["dtype"] != "int64": return "false"
        for i, (a, b) in enumerate(zip(case["A"], case["B"])):
            # expected request sequence for this mating: [randint(1, clen)] if clen >= 2, then choice(clen, nex)
            if not log: return "false"
            draw = 0; ri = None
            if log[0]["fn"] == "randint":
                ri = log.pop(0); draw = ri["v"]
                if not log: return "false"
            ch = log.pop(0)
            if ch["fn"] != "choice" or ch["replace"] is not True: return "false"
            parts.append("(let a := %s in let b := %s in let clen := rex_clen a b in "
                         "Nat.eqb clen %d && Bool.eqb (clen <? 2)%%nat %s && %s && Nat.eqb (rex_nex clen %d) %d "
                         "&& (let r := rex_cross a b %s in zl_eqb (fst r) %s && zl_eqb (snd r) %s))"
                         % (zl(a), zl(b), ch["n"], E.b(ri is None),
                            ("true" if ri is None else "(Nat.eqb %d 1 && Nat.eqb %d clen)" % (ri["low"], ri["high"])),
                            draw, (ch["size"] if ch["size"] is not None else 9999),
                            E.lst(ch["ix"], E.nat), zl(Xp[0][i]), zl(Xp[1][i])))
        if log: return "false"
        return "(" + "\n  && ".join(parts) + ")"
    if kind == "op_mut":
        log = list(out["log"]); parts = []
        if out["dtype"] != "int64": return "false"
        pq = E.q(Fraction(_fh(out["p"])))
        for i, x in enumerate(case["X"]):
            if len(log) < 2: return "false"
            rn = log.pop(0); ch = log.pop(0)
            if rn["fn"] != "random" or ch["fn"] != "choice" or ch["replace"] is not True or rn["size"] is None or ch["size"] is None: return "false"
            u = E.lst([Fraction(_fh(h)) for h in rn["u"]], E.q)
            parts.append("(let ss := %s in let x := %s in let u := %s in "
                         "(let rq := rex_mut_req ss x u %s in Nat.eqb (fst (fst rq)) %d && Nat.eqb (snd (fst rq)) %d && Nat.eqb (snd rq) %d) "
                         "&& zl_eqb (rex_mut ss x u %s %s) %s)"
                         % (zl(case["setspace"]), zl(x), u, pq, rn["size"], ch["n"], ch["size"], pq, E.lst(ch["ix"], E.nat), zl(out["Xm"][i])))
        if log: return "false"
        return "(" + "\n  && ".join(parts) + ")"
    if kind == "op_hcAB":
        p = case["prob"]; x = case["x"]; k = len(x); na = len(p["cand"]) - k
        nh = k if case["nhcstep"] is None else case["nhcstep"]
        log = list(out["log"])
        if out["dtype"] != "int64": return "false"
        hc = "mutA_hillclimb" if case["which"] == "A" else "mutB_hillclimb"
        hd = "let ev := tp_eval %s in let ss := %s in let x := %s in " % (_tp(p), zl(p["cand"]), zl(x))
        if na == 0:                                         # whole candidate set selected: no draw, one evaluation, x returned
            if log: return "false"
            return ("(" + hd + "zl_eqb (%s ev ss x [] [] 0) %s && zll_eqb (mutAB_calls ss x [] []) %s)" % (hc, zl(out["out"]), zll(out["calls"])))
        def tiles(a):
            ix = []
            for t in range(nh // a + 1):
                if not log: raise ValueError("request log too short")
                l = log.pop(0)
                want = a if t < nh // a else nh % a
                if l["fn"] != "choice" or l["n"] != a or l["size"] != want or l["replace"] is not False: raise ValueError("unexpected request %r" % (l,))
                ix += l["ix"]
            return ix
        lociix = tiles(k); alleleix = tiles(na)
        if len(log) != 1 or log[0]["fn"] != "choice" or log[0]["size"] is not None: return "false"
        last = log[0]; draw = last["ix"][0]
        if case["which"] == "A":                            # np.random.choice(len(front))
            pool = "Nat.eqb (mutA_choice_n ev ss x li ai) %d" % last["n"]
        else:                                               # np.random.choice(minix): one entry per objective
            pool = E.b(last["n"] == len(p["W"]))
        return ("(" + hd + "let li := %s in let ai := %s in tiled_ok %d %d li && tiled_ok (length (complement ss x)) %d ai\n  "
                "&& zll_eqb (mutAB_calls ss x li ai) %s && %s\n  && zl_eqb (%s ev ss x li ai %d) %s)"
                % (E.lst(lociix, E.nat), E.lst(alleleix, E.nat), k, nh, nh, zll(out["calls"]), pool, hc, draw, zl(out["out"])))
    if kind == "op_round":
        if out["res"] is None or out["dtype"] != case["dtype"] or out["shape"] != case["shape"] or not out["called_super"]: return "false"
        return "zl_eqb (int_round %s) %s" % (E.lst([Fraction(v) for v in case["vals"]], E.q), zl(out["res"]))
    if kind == "ga":
        F = E.lst2([[Fraction(_fh(h)) for h in row] for row in out["obj"]], E.q)
        if "prob" in case:
            p = case["prob"]
            if out["dtype"] not in ("int64", "int32"): return "false"
            parts = ["forallb (feasible_b %s %d) %s" % (zl(p["cand"]), p["k"], zll(out["decn"])), "nondominated_b %s" % F,
                     "list_eqb evalT_eqb (map (tp_eval %s) %s) %s" % (_tp(p), zll(out["decn"]), E.lst(range(len(out["decn"])), lambda i: _evalT(out, i, p)))]
            if "SW" in p:                               # position-dependent: the reported rows are the evaluation of the reported ORDERING
                parts[2] = "truthful_b %s %s %s" % (_ev(p), zll(out["decn"]), E.lst(range(len(out["decn"])), lambda i: _evalT(out, i, p)))
            return "(" + "\n  && ".join(parts) + ")"
        lp = case["lp"]
        qz = lambda xs: E.lst([Fraction(x) for x in xs], E.q)
        if lp["type"] == "real":
            rows = [[Fraction(_fh(h)) for h in r] for r in out["decn_hex"]] if out["decn_hex"] is not None else None
            if rows is None: return "false"
        else:
            if out["dtype"] != ("bool" if lp["type"] == "bin" else "int64"): return "false"
            rows = [[Fraction(int(v)) for v in r] for r in out["decn"]]
        parts = ["forallb (in_bounds_b %s %s) %s" % (qz(lp["lo"]), qz(lp["hi"]), E.lst2(rows, E.q)), "nondominated_b %s" % F]
        if "qn" in lp:                                  # every encoding, real included: exact re-evaluation of every reported row
            ql = lambda hs: E.lst([Fraction(_fh(h)) for h in hs], E.q)
            parts.append("truthfulQ_b (lpq_eval %s %s %s %s %s %s %s %s %s) %s %s" % (
                E.z(lp["qn"]), zll(lp["A"]), zl(lp["owt"]), zll(lp["C"]), zl(lp["cap"]), zl(lp["iwt"]), zll(lp["D"]), zl(lp["tgt"]), zl(lp["ewt"]),
                E.lst2(rows, E.q), E.lst(range(len(rows)), lambda i: "(%s, %s, %s)" % (ql(out["obj"][i]), ql(out["ineq"][i]), ql(out["eq"][i])))))
        elif lp["type"] != "real":
            parts.append("list_eqb evalT_eqb (map (lp_eval %s %s %s %s %s) %s) %s" % (
                zll(lp["A"]), zl(lp["owt"]), zll(lp["C"]), zl(lp["cap"]), zl(lp["iwt"]), zll([[int(v) for v in r] for r in out["decn"]]),
                E.lst(range(len(out["decn"])), lambda i: _evalT(out, i))))
        return "(" + "\n  && ".join(parts) + ")"
    return "false"

def emit_case(case, out):
    """an output the model's number types cannot hold (NaN, infinity, a non-integer where the problem is integer valued) is a disagreement"""
    try:
        return _emit_case(case, out)
    except (ValueError, OverflowError, KeyError, IndexError, TypeError):
        return "false"

# ------------------------------------------------------------------------------------------------ independent predicate
def _lex(cvs):  # (cv, score)
    return cvs

def _feasible_exists(case):
    """brute force / analytic: is there a decision with no constraint violation (pymoo: G <= 0, |H| <= 1e-4)?"""
    if "prob" in case:
        p = case["prob"]
        if not p["C"] and not p["D"]: return True
        for sub in itertools.combinations(p["cand"], p["k"]):
            o, g, h = _tab_eval(p, sub)
            if all(v <= 0 for v in g) and all(v == 0 for v in h): return True
        return False
    lp = case["lp"]
    if not lp["C"]: return True
    if lp["type"] == "real":      # C >= 0: the minimum of C x over the box is at the lower corner
        return all(sum(c * l for c, l in zip(row, lp["lo"])) <= cap for row, cap in zip(lp["C"], lp["cap"]))
    for x in itertools.product(*[range(l, h + 1) for l, h in zip(lp["lo"], lp["hi"])]):
        if all(v <= 0 for v in _lin_eval(lp, x)[1]): return True
    return False

def _monitor(case, out, bad):
    """clauses that hold for every optimiser: decision space, truthful values, non-domination, problem unchanged"""
    subset = "prob" in case
    decn = out["decn"]
    F = [[_fh(h) for h in r] for r in out["obj"]]; G = [[_fh(h) for h in r] for r in out["ineq"]]; H = [[_fh(h) for h in r] for r in out["eq"]]
    ns = out["nsoln"]
    if ns < 1: bad.append("no solution returned")
    if not (len(decn) == len(F) == len(G) == len(H) == ns): bad.append("nsoln does not match the number of rows")
    if subset:
        p = case["prob"]
        nd, no, ni, ne = p["k"], len(p["W"]), len(p["C"]), len(p["D"])
    else:
        lp = case["lp"]; nd, no, ni, ne = len(lp["lo"]), len(lp["A"]), len(lp["C"]), len(lp.get("D", []))
    if out["shapes"] != [[ns, nd], [ns, no], [ns, ni], [ns, ne]]: bad.append("solution array shapes %r" % (out["shapes"],))
    if not out["meta_ok"]: bad.append("solution metadata differs from the problem's")
    if not out["unchanged"]: bad.append("problem object was modified by minimize")
    for i, d in enumerate(decn):
        if subset:
            if out["dtype"] not in ("int64", "int32"): bad.append("subset decision dtype %s" % out["dtype"]); break
            if len(d) != p["k"]: bad.append("solution %d has %d members, requested %d" % (i, len(d), p["k"]))
            if len(set(d)) != len(d): bad.append("solution %d repeats a member: %r" % (i, d))
            if any(e not in p["cand"] for e in d): bad.append("solution %d contains a non-candidate: %r" % (i, d))
            want = _tab_eval(p, d) if all(0 <= e < p["M"] for e in d) else None
        else:
            typ = lp["type"]
            okdt = {"real": ("float64",), "int": ("int64", "int32"), "bin": ("bool", "int64")}[typ]
            if out["dtype"] not in okdt: bad.append("%s decision dtype %s" % (typ, out["dtype"])); break
            vals = [float(v) for v in d]
            if any(not (l <= v <= h) for v, l, h in zip(vals, lp["lo"], lp["hi"])): bad.append("solution %d outside its bounds: %r" % (i, d))
            if typ != "real" and any(v != int(v) for v in vals): bad.append("solution %d is not integral" % i)
            want = _lin_eval(lp, d) if (typ != "real" or "qn" in lp) else None
        fr = out["fresh"][i]
        if fr[0] != out["obj"][i]: bad.append("soln_obj[%d] differs from a fresh evalfn" % i)
        if fr[1] != out["ineq"][i]: bad.append("soln_ineqcv[%d] differs from a fresh evalfn" % i)
        if fr[2] != out["eq"][i]: bad.append("soln_eqcv[%d] differs from a fresh evalfn" % i)
        if want is not None:
            fr = lambda vs: [Fraction(v) if v == v and abs(v) != float("inf") else repr(v) for v in vs]      # non-finite values never equal a Fraction
            if fr(F[i]) != [Fraction(v) for v in want[0]]: bad.append("soln_obj[%d] != objective of the decision (independent evaluation)" % i)
            if fr(G[i]) != [Fraction(v) for v in want[1]]: bad.append("soln_ineqcv[%d] != constraint values of the decision" % i)
            if fr(H[i]) != [Fraction(v) for v in want[2]]: bad.append("soln_eqcv[%d] != constraint values of the decision" % i)
    # mutual non-domination (constraint violation first, as pymoo_addon.dominates)
    cvs = [sum(max(0.0, v) for v in g) + sum(abs(v) for v in h) for g, h in zip(G, H)]
    for i in range(len(F)):
        for j in range(len(F)):
            if i == j: continue
            if cvs[i] <= 0 and cvs[j] <= 0:
                dom = all(a <= b for a, b in zip(F[i], F[j])) and any(a < b for a, b in zip(F[i], F[j]))
            else:
                dom = cvs[i] < cvs[j]
            if dom: bad.append("solution %d is dominated by solution %d" % (j, i)); break

def _pred(case, out):
    kind = case["kind"]
    if "exc" in out:
        return ["implementation raised %s: %s" % (out["exc"], out["msg"])]
    bad = []
    if out.get("shares") and kind in ("op_sample", "op_cx", "op_mut", "op_hcAB"):
        bad.append("the operator's result shares memory with its input / the set space (a later in-place write would corrupt the other)")
    if out.get("global_draws"):
        bad.append("operator handed its own generator (random_state) still drew %d time(s) from the global numpy stream" % out["global_draws"])
    if kind == "session":
        want_log = [["choice", len(p["cand"]), p["k"], False] for p in case["steps"]]
        if out["rng_log"] != want_log: bad.append("session: the generator was asked %r, expected one draw without replacement per call %r" % (out["rng_log"], want_log))
        for t, (p, so) in enumerate(zip(case["steps"], out["steps"])):
            for kd in ("sort", "ssd", "sd"):
                o = dict(so[kd]); o["rng_log"] = [want_log[t]]
                bad += ["call %d of the session (%s, same optimiser and problem objects): %s" % (t, kd, b) for b in pred({"kind": kd, "prob": p, "ix": case["ix"][t]}, o)]
            if "ga" in so:
                g = []; _monitor({"kind": "ga", "prob": p}, so["ga"], g)
                bad += ["call %d of the session (SubsetGeneticAlgorithm): %s" % (t, b) for b in g]
    if kind == "op_dom":
        f1 = (case["cv1"] <= 0 and case["cv2"] <= 0)
        want = (all(a <= b for a, b in zip(case["o1"], case["o2"])) and any(a < b for a, b in zip(case["o1"], case["o2"]))) if f1 else case["cv1"] < case["cv2"]
        if out["dom"] != want: bad.append("dominates(%r, %r, %r, %r) scaled by 2^%d = %r, expected %r" % (case["o1"], case["cv1"], case["o2"], case["cv2"], case["sc"], out["dom"], want))
        if not out["inputs_unchanged"]: bad.append("dominates modified its arguments")
    if kind == "op_tiled":
        a, size = case["a"], case["size"]; r = out["out"]
        if len(r) != size or any(not (0 <= v < a) for v in r): bad.append("tiled_choice(%d, %d) = %r: wrong length or value out of range" % (a, size, r))
        for t in range(0, size, a):
            if len(set(r[t:t + a])) != len(r[t:t + a]): bad.append("tiled_choice(%d, %d) = %r repeats a value inside the tile starting at %d" % (a, size, r, t)); break
    if kind == "op_hc2":
        cand = case["prob"]["cand"]; k = case["prob"]["k"]
        if not out["x_unchanged"]: bad.append("hillclimb modified its input chromosome")
        if not out["unchanged"] or not out["setspace_unchanged"]: bad.append("hillclimb modified the problem / set space")
        if k < len(cand) and not out["ndraws"]:
            bad.append("%s.hillclimb (random_state %s) made no draw from %s although unused candidates exist" % (
                case["which"], case.get("rs"), "the generator it was handed" if case.get("rs") in ("kw", "pos") else "the process-wide stream it must fall back to"))
        # (no memory-sharing clause here: StochasticHillClimberMutation.hillclimb falls back to reduced_exchange, which returns its argument;
        #  _do hands it a row of its private copy.  The input must be unchanged, which is checked above.)
        used = case["which"] in HC2[:2]      # the other two classes are used by no optimiser: only feasibility is demanded of them (see COVERED)
        if used and not out["rows"] and k < len(cand): bad.append("hillclimb returned an empty population although unused candidates exist")
        for y in out["rows"]:
            if len(y) != k or any(e not in cand for e in y) or len(set(y)) != len(y):
                bad.append("%s.hillclimb returned %r, not a %d-subset of the candidates" % (case["which"], y, k)); break
        if out["F"] is not None and used:
            for y, f in zip(out["rows"], out["F"]):
                if all(e in cand for e in y) and [Fraction(_fh(h)) for h in f] != [Fraction(v) for v in _tab_eval(case["prob"], y)[0]]:
                    bad.append("%s.hillclimb: objective values stored with %r are not its evaluation" % (case["which"], y)); break
    if kind in ("sort", "sd", "ssd", "ga"):
        _monitor(case, out, bad)
        if out.get("alias_free") is not True: bad.append("overwriting the returned solution arrays in place changed the problem object (%r)" % (out.get("alias_free"),))
    if kind == "ga" and "prob" in case:
        # the operator theorems apply to the run only if the optimiser is configured with the verified operators
        ops = out.get("ops") or {}
        cand = case["prob"]["cand"]
        if ops.get("sampling") != "SubsetRandomSampling" or ops.get("replace") is not False or ops.get("sampling_setspace") != cand:
            bad.append("initial population is not drawn by SubsetRandomSampling(setspace=decn_space, replace=False): %r" % (ops,))
        if ops.get("crossover") != "ReducedExchangeCrossover": bad.append("crossover operator is %r, not ReducedExchangeCrossover" % ops.get("crossover"))
        want_mu = {"NSGA2SteepestDescentSubsetGeneticAlgorithm": "MultiObjectiveSteepestDescentHillClimberMutation",
                   "NSGA2StochasticDescentSubsetGeneticAlgorithm": "StochasticHillClimberMutation",
                   "NSGA2MutatorASubsetGeneticAlgorithm": "MutatorA", "NSGA2MutatorBSubsetGeneticAlgorithm": "MutatorB"}.get(case["algo"], "ReducedExchangeMutation")
        if ops.get("mutation") != want_mu or ops.get("mutation_setspace") != cand:
            bad.append("mutation operator is %r over %r, expected %s over the decision space" % (ops.get("mutation"), ops.get("mutation_setspace"), want_mu))
    if kind in ("sort", "sd", "ssd") and not bad:
        p = case["prob"]; d = out["decn"][0]; cand = p["cand"]; k = p["k"]
        if out["nsoln"] != 1: bad.append("single-objective optimiser returned %d solutions" % out["nsoln"])
        if kind == "sort":
            separable = not p["P"] or all(v == 0 for r in p["P"] for v in r)
            if separable and len(cand) <= 16 and "SW" not in p:      # (slot weights: not a sum of per-member terms, the optimality theorem does not apply)
                best = min(_tab_eval(p, s)[0][0] for s in itertools.combinations(cand, k))
                if _fh(out["obj"][0][0]) != best: bad.append("sorting optimiser: objective %r, brute-force optimum %r" % (_fh(out["obj"][0][0]), best))
        else:
            def key(x):
                o, g, h = _tab_eval(p, x); return (sum(g) + sum(h), sum(o))
            cur = key(d)
            rest = [e for e in cand if e not in d]
            for i in range(len(d)):
                for e in rest:
                    y = list(d); y[i] = e
                    if key(y) < cur:
                        bad.append("hill climber stopped at %r although exchanging position %d for %d improves (cv, score) %r -> %r" % (d, i, e, cur, key(y))); break
                if bad: break
            ms = out["misc"]
            if set(ms) == {"gbest_score", "gbest_cv"}:
                if (_fh(ms["gbest_cv"]), _fh(ms["gbest_score"])) != cur: bad.append("miscout (cv, score) %r differs from the returned decision's %r" % ((_fh(ms["gbest_cv"]), _fh(ms["gbest_score"])), cur))
            else: bad.append("miscout keys %r" % sorted(ms))
            start = out["calls"][0 if kind == "sd" else len(cand)] if len(out["calls"]) > (0 if kind == "sd" else len(cand)) else None
            if start is None or len(set(start)) != len(start) or len(start) != k or any(e not in cand for e in start):
                bad.append("hill climber started from %r, which is not a %d-subset of the candidates" % (start, k))
            if kind == "sd" and "ix" in case and out.get("rng_log") != [["choice", len(cand), k, False]]:
                bad.append("start was not drawn by one rng.choice(decn_space, ndecn, replace=False): %r" % (out.get("rng_log"),))
    if kind == "op_sample":
        if not out["setspace_unchanged"]: bad.append("setspace modified")
        for l in out["log"]:
            if l["replace"] != case["replace"]: bad.append("np.random.choice called with replace=%r, operator constructed with %r" % (l["replace"], case["replace"]))
        if out["shape"] != [case["n"], case["k"]]: bad.append("sample shape %r" % out["shape"])
        if not case["replace"]:
            for x in out["X"]:
                if len(set(x)) != len(x) or len(x) != case["k"] or any(e not in case["cand"] for e in x): bad.append("sampled chromosome %r is not a %d-subset" % (x, case["k"])); break
    if kind == "op_cx":
        if not out["input_unchanged"]: bad.append("parents modified in place")
        for i, (a, b) in enumerate(zip(case["A"], case["B"])):
            if len(set(a)) != len(a) or len(set(b)) != len(b): continue
            for par, ch in ((a, out["Xp"][0][i]), (b, out["Xp"][1][i])):
                if len(ch) != len(par) or len(set(ch)) != len(ch) or any(e not in case["cand"] for e in ch):
                    bad.append("crossover child %r of parents %r x %r is not a %d-subset of the candidates" % (ch, a, b, case["k"]))
            if sorted(out["Xp"][0][i] + out["Xp"][1][i]) != sorted(a + b): bad.append("crossover does not conserve the parents' alleles (mating %d)" % i)
    if kind == "op_mut":
        if not out["input_unchanged"]: bad.append("individuals modified in place")
        if not out["setspace_unchanged"]: bad.append("setspace modified")
        for x, y in zip(case["X"], out["Xm"]):
            if all(e in case["setspace"] for e in x) and len(set(x)) == len(x):
                if len(y) != len(x) or len(set(y)) != len(y) or any(e not in case["setspace"] for e in y):
                    bad.append("mutant %r of %r is not a subset of the set space" % (y, x))
    if kind == "op_hcAB":
        y = out["out"]; cand = case["prob"]["cand"]
        if not out["x_unchanged"]: bad.append("hillclimb modified its input chromosome")
        if not out["unchanged"] or not out["setspace_unchanged"]: bad.append("hillclimb modified the problem / set space")
        if len(y) != len(case["x"]) or any(e not in cand for e in y): bad.append("hill-climbed chromosome %r is not drawn from the candidates" % (y,))
        if len(set(y)) != len(y): bad.append("hill-climbed chromosome %r repeats a member" % (y,))
    if kind == "op_round":
        if out["dtype"] != case["dtype"]: bad.append("rounded operator output has dtype %s, parents have %s" % (out["dtype"], case["dtype"]))
        elif out["res"] is not None:
            for v, r in zip(case["vals"], out["res"]):
                fv = Fraction(v); fl = fv.numerator // fv.denominator; d = fv - fl
                want = fl if d < Fraction(1, 2) else (fl + 1 if d > Fraction(1, 2) else (fl if fl % 2 == 0 else fl + 1))
                if r != want: bad.append("round(%r) = %d, nearest integer (ties to even) is %d" % (v, r, want)); break
    seen = []
    for b in bad:
        if b not in seen: seen.append(b)
    return seen[:8]

def pred(case, out):
    try:
        return _pred(case, out)
    except (ValueError, OverflowError, KeyError, IndexError, TypeError) as e:
        return ["the output cannot be interpreted by the predicate (%s: %s)" % (type(e).__name__, str(e)[:120])]

def classify(case, out, clauses):
    # every finding of this property has been repaired in the library (known_findings.d/C06.json: all "fixed"):
    # no failure pattern is excused
    return None

def nontrivial(case, out):
    kind = case["kind"]
    if "exc" in out: return False
    if kind == "session": return len(case["steps"]) >= 2
    if kind == "op_dom": return case["o1"] != case["o2"] or case["cv1"] != case["cv2"]
    if kind == "op_tiled": return case["size"] > 0
    if kind == "op_hc2": return any(r != case["x"] for r in out["rows"])
    if kind == "sort": return case["prob"]["k"] < len(case["prob"]["cand"])
    if kind in ("sd", "ssd"):
        start = out["calls"][0 if kind == "sd" else len(case["prob"]["cand"])]
        return start != out["decn"][0]
    if kind == "op_sample": return case["n"] > 0 and case["k"] < len(case["cand"])
    if kind == "op_cx": return any(out["Xp"][0][i] != a for i, a in enumerate(case["A"]))
    if kind == "op_mut": return True
    if kind == "op_round": return any(Fraction(v).denominator != 1 for v in case["vals"])
    if kind == "op_hcAB": return out["out"] != case["x"]
    if kind == "ga":
        if "prob" in case: return case["prob"]["k"] < len(case["prob"]["cand"])
        return any(l < h for l, h in zip(case["lp"]["lo"], case["lp"]["hi"]))
    return False

def describe(case, out):
    kind = case["kind"]
    d = {"kind": kind, "raised": "exc" in out}
    if kind == "session": d["calls"] = 3 * len(case["steps"]); d["ga"] = bool(case.get("ga"))
    if kind == "op_hc2": d["which"] = case["which"]
    if kind in ("op_hc2", "op_hcAB"): d["draws"] = "systematic script" if "script" in case else "case-seeded script"
    if kind == "op_dom": d["both_feasible"] = case["cv1"] <= 0 and case["cv2"] <= 0
    if kind in ("sort", "sd", "ssd"):
        p = case["prob"]; n = len(p["cand"]); k = p["k"]
        d["scale"] = "2^%d/2^%d" % (p.get("osc", 0), p.get("csc", 0)); d["n>127"] = n > 127
        d["size"] = "k=n" if k == n else ("k=1" if k == 1 else "1<k<n")
        d["constraints"] = "none" if not p["C"] and not p["D"] else ("ineq+eq" if p["C"] and p["D"] else ("ineq" if p["C"] else "eq"))
        d["objective"] = "pair-interaction" if p["P"] else "separable"
        if kind != "sort" and "exc" not in out:
            per = max(1, k * (n - k)); base = 1 if kind == "sd" else n + 1
            d["climb_rounds"] = min(6, (len(out["calls"]) - base) // per)
    if kind == "ga":
        d["algo"] = case["algo"]; d["ngen"] = case["ngen"]; d["pop"] = case["pop"]
        if "exc" not in out: d["nsoln"] = min(out["nsoln"], 5)
    if kind == "op_hcAB":
        k = len(case["x"]); na = len(case["prob"]["cand"]) - k; nh = k if case["nhcstep"] is None else case["nhcstep"]
        d["which"] = case["which"]; d["nobj"] = len(case["prob"]["W"])
        d["pool"] = "k=n" if na == 0 else ("nhcstep>unused" if nh > na else "nhcstep<=unused")
    if kind in ("sort", "sd", "ssd", "ga"):
        d["position_dependent"] = ("SW" in case["prob"]) if "prob" in case else ("qn" in case["lp"])
    if kind == "session": d["position_dependent"] = "SW" in case["steps"][0]
    if kind == "ga":
        d["elementwise"] = case.get("elementwise", True)
        if "exc" not in out and out.get("ineq"):
            d["returned_infeasible"] = any(float.fromhex(h) > 0 for r in out["ineq"] for h in r)
    if kind == "op_cx" and "exc" not in out:
        d["exchanges"] = min(4, max([l["size"] or 0 for l in out["log"] if l["fn"] == "choice"] or [0]))
    return d

def shrink(case, fails):
    import copy
    cur = copy.deepcopy(case)
    if cur["kind"] == "ga":
        for key, vals in (("ngen", [1, 2]), ("pop", [1, 2, 4])):
            for v in vals:
                if v < cur[key]:
                    t = copy.deepcopy(cur); t[key] = v
                    if fails(t): cur = t; break
    return cur


def translate(repo, gen_dir):
    """regenerate Gen/C06_Kernel.v (kernel expressions and statement groups of the climbers, the sorting optimiser, dominates,
    tiled_choice, the variation operators, the memetic hill-climb steps, and the Solution-construction table of all sixteen
    optimiser classes) from the current source; fail closed"""
    from translate import c06_kernel
    return [c06_kernel.translate(repo, gen_dir)]
