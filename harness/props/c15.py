"""C15 — breeding-value matrices round-trip through scaling: correspondence between Model/C15_Bv.v and
DenseBreedingValueMatrix / DenseEstimatedBreedingValueMatrix / DenseGenomicEstimatedBreedingValueMatrix
(from_numpy, unscale, the eight statistics, every taxa-axis operation incl. the in-place ones and
concat_taxa) and DenseScaledMatrix (transform/untransform/rescale/unscale), plus the independent predicate."""
import copy, math
from fractions import Fraction
import numpy
import coqemit as E

ID = "C15"
PROPS = "Props/C15.v"
IMPORTS = "From PV Require Import Lib.Common Model.C15_Bv."
SHARD = 25
LEVEL_TEXT = ("Coq theorems over an exact-rational (missing value = None) model of from_numpy/unscale/statistics and of every taxa-axis "
              "operation of the breeding-value matrices: unscale(from_numpy raw) = raw entrywise with None preserved and isolated, for every "
              "location/scale accepted by the run-time check; max/min/range/arg-extrema/mean/variance on the original scale equal those of the raw "
              "column (NaN as soon as a value is missing; variance 0 for constant traits); the stored matrix is centred with unit variance; every history of "
              "select/delete/insert/adjoin, of the in-place remove/append/incorp and of concat_taxa yields exactly the list-level operation on raw rows and "
              "labels, and location/scale are recomputed at every step (the former inherited in-place/concat code and the former tmean are kept as "
              "old_step/old_c_mean with their refutations as regression witnesses); "
              "the float round trip rnd(rnd(s*rnd(rnd(1/s)*rnd(x-l)))+l) is within 4u|x-l|+u|x|+O(u^2) of x in the standard model of floating-point "
              "arithmetic, instantiated for 53-bit round-to-nearest (Flocq FLX); DenseScaledMatrix: untransform inverts transform, unscale/rescale in place keep scale*mat+location; "
              "operations that do not re-standardise (reorder/sort/group_taxa, copies) keep every raw value (un-scaling commutes with selection), the stored column is "
              "covariant under a change of unit and origin, histories are compositional; the label keywords of insert/adjoin/append/incorp (taxa= / taxa_grp= explicit or omitted, "
              "any combination) never influence the values: the operand contributes values.unscale() whichever keywords accompany it, calls differing only in the keywords "
              "yield the same columns / locations / scales, omitting a keyword = handing over the operand's own label; "
              "the kernel expressions of the source (standardisation, un-scaling, per-summary reduction and un-scaling rule, zero-scale rule, contribution of matrix operands, "
              "numpy call tables of the taxa routines, DenseScaledMatrix updates) are regenerated from the source on every run (Gen/C15_Kernel.v), proved equal to the model's "
              "and the round-trip / scale-rule / covariance laws are proved about the generated definitions; "
              "the model is tied to the code by evaluating it inside Coq against every intermediate state of generated histories")
LEVEL_NOTE = ("trusted: Coq kernel + vm_compute; float rounding is not modelled: location and scale of every step are taken from the implementation and "
              "checked inside Coq against the exact nanmean / nanvar (scale = 1 exactly iff the exact variance is 0), everything else is compared within "
              "2^-30(1+|x|) of the exact rational, NaN patterns, labels, arg-extrema (up to exact ties after the first step) and error/no-error exactly; "
              "theorems are about the Gallina model, the tie to the code is differential on generated inputs plus the regenerated kernel expressions "
              "(translator harness/translate/c15_kernel.py, fail closed, trusted); the 2^-30(1+|x|) tolerance is vacuous for values far below 1: for those only the "
              "predicate's scale-aware criteria (relative to the largest raw value of the trait) and the kernel theorems speak")
TECHNIQUE = "Coq proof over an executable exact-rational model; in-Coq vm_compute correspondence with the implementation on operation histories"
RULE = ("case = (class B/E/G, raw matrix with optional taxa/taxa_grp labels — built by from_numpy, or (12%) by the constructor from stored values with an "
        "arbitrary location / positive scale —, list of taxa-axis operations with their operands) or (DenseScaledMatrix, "
        "matrix, location, scale, op list incl. copies); one PRNG; n in 0..20 (1,2 frequent; fixed cases with 130/260/300 taxa, thorough: random 128..300), t in 1..4; "
        "per-trait column kinds: dyadic grid k/2^6, the grid scaled by 2^-40 or 2^13, 1 + k 2^-16, constant, few-valued "
        "(ties), offset +-2^20 with step 8, NaN-sprinkled, all-NaN; operations select/delete/insert/adjoin (copies), remove/append/incorp (in place, on the SAME object "
        "whose summaries were just read), reorder_taxa / sort_taxa / group_taxa(+ungroup) (in place, no re-standardisation), copy/deepcopy (method and copy module) and "
        "re-assignment through the property setters, concat_taxa (self at any position among 0-2 other matrices); 20% of the operations go through the generic "
        "dispatchers (select(..., axis=0/-2) ...); indices as array/list/tuple, int, index list or slice; operands as ndarray or as a second matrix of any of the three classes; "
        "after every step: the source / the operands are unchanged and share no array with the result, matrices left behind are unchanged at the end; "
        "plus a fixed systematic block (420 cases, `cross`): class B/E/G x routine adjoin/insert/append/incorp x operand kind (ndarray, matrix of the receiver's class, "
        "the two library subclasses for a B receiver / a run-time subclass of the receiver's class and the base class B for E and G receivers) x receiver labels (taxa+taxa_grp, "
        "taxa only, taxa_grp only, none) x form (the routine itself / the generic dispatcher with axis 0 and -2), each case running the four combinations of explicit / omitted "
        "taxa= and taxa_grp= with operand values of order 10^3 (location ~1100 / -500, scale ~100) against a receiver of order 1, matrix operands carrying labels of their own "
        "wherever the receiver has labels; concat_taxa with such matrices, self first / in the middle / last, class method and generic concat "
        "(E / G on half-labelled receivers: judged by the predicate only, everything else also inside Coq); "
        "non-trivial = at least 2 operations of which one changes the taxa list of a matrix with >= 2 distinct raw rows; distinct by SHA-256 of the case")
TRUSTED = ["the rounding-error theorem is about an abstract rounding operator with relative error u (Flocq FLX instance: no overflow/underflow); that numpy's float64 "
           "operations are such roundings is not proved, the predicate checks the bound (with slack 5u(|x-l|+|x|)) on every first-step entry",
           "numpy nanmean/nanstd/std/var/max/min/ptp/argmax/argmin: not modelled bit-exactly; their results enter the model as given location/scale "
           "(checked against exact nanmean/nanvar in Coq) or are compared in regime T (2^-30 relative) with the exact rational",
           "numpy.take/delete/insert/append index semantics are modelled by list functions validated on every generated case",
           "reorder_taxa / sort_taxa / group_taxa / copies are evaluated in Coq as the selection by the corresponding permutation (identity for a copy) with the "
           "location / scale the implementation kept; the expected order of sort_taxa()/group_taxa() (taxa_grp, then taxa name, stable) is computed by the harness",
           "harness/translate/c15_kernel.py + pyexpr.py (ast -> Gallina, fail closed) and the entry-point enumeration (every method of the four anchored files and every "
           "inherited public routine is driven or listed in SKIPPED / INHERITED_SKIPPED with a reason)"]
ASSUMPTIONS = ["raw values on dyadic grids (|x| <= 64 step 2^-6, that grid times 2^-40 or 2^13, 1 + k 2^-16, or +-2^20 offsets with step 8) so that the rounding error stays far below the tolerances",
               "trait-axis routines inherited by the breeding-value matrices (select_trait ... sort_trait) are outside the property (taxa-axis operations) and not driven",
               "ntrait >= 1; insert/incorp with an index list use as many value rows as indices (numpy broadcasting of a single row not generated)",
               "numpy.insert does not validate an index *list* (entries below -n wrap around in the enlarged array): such a step is not modelled, "
               "the history is compared up to it and the predicate resynchronises on the implementation's state",
               "a zero scale (1.0/0.0 = inf) is outside the model: from_numpy never produces it, and matrices built directly by the constructor are generated with positive scales only"]

CLS = {"B": ("pybrops.popgen.bvmat.DenseBreedingValueMatrix", "DenseBreedingValueMatrix"),
       "E": ("pybrops.popgen.bvmat.DenseEstimatedBreedingValueMatrix", "DenseEstimatedBreedingValueMatrix"),
       "G": ("pybrops.popgen.bvmat.DenseGenomicEstimatedBreedingValueMatrix", "DenseGenomicEstimatedBreedingValueMatrix")}
# class order for isinstance(values, self.__class__):  E and G derive from B only
SUBCLASS = {("B", "B"), ("E", "B"), ("G", "B"), ("E", "E"), ("G", "G")}      # (class of values, class of self)
def _inst(a, cls):
    """isinstance(operand, class of the receiver); "S" = a subclass of the receiver's own class, defined at run time"""
    return a == "S" or (a, cls) in SUBCLASS
STATS = ["tmax", "tmin", "tmean", "trange", "tstd", "tvar"]
INPLACE = ("append", "incorp", "remove")
TOL = Fraction(1, 2 ** 30)
REL40 = Fraction(1, 2 ** 40)       # relative to the largest |raw value| of the trait: unscale(), location
REL36 = Fraction(1, 2 ** 36)       # ... maximum, minimum, mean, range on the original scale

# ------------------------------------------------------------------ generation
def _colkind(rng):
    k = rng.random()
    if k < 0.05: return ("tiny",)                       # k/64 * 2^-40: anything like isclose()/a tolerance instead of the exact zero-scale test shows
    if k < 0.09: return ("huge",)                       # k/64 * 2^13 (|x| < 2^19: one ulp stays far below the 2^-30 tolerance of a constant trait's stored zeros)
    if k < 0.13: return ("nearone", rng.choice([1.0, -3.0]))     # base + k * 2^-16: spread far below the offset, still exact
    if k < 0.30: return ("grid",)
    if k < 0.48: return ("const", rng.choice([0.0, 1.0, -2.5, 5.0, 37.125, float(2 ** 20), -1048571.0]))
    if k < 0.66: return ("few", rng.choice([0.0, 10.0, -3.0]))
    if k < 0.84: return ("offset", rng.choice([float(2 ** 20), -float(2 ** 20), 1048536.0, 999992.0, -524288.0]))
    if k < 0.97: return ("grid",)
    return ("allnan",)

def _val(rng, kind, fresh_const=False):
    if kind[0] == "grid": return rng.randint(-4096, 4096) / 64.0
    if kind[0] == "tiny": return rng.randint(-4096, 4096) / 64.0 * 2.0 ** -40
    if kind[0] == "huge": return rng.randint(-4096, 4096) / 64.0 * 2.0 ** 13
    if kind[0] == "nearone": return kind[1] + rng.randint(-16, 16) * 2.0 ** -16
    if kind[0] == "const": return (kind[1] + rng.choice([1.0, -0.5, 8.0])) if fresh_const else kind[1]
    if kind[0] == "few": return kind[1] + rng.choice([-1.0, 0.0, 0.0, 1.0, 2.0])
    if kind[0] == "offset": return kind[1] + 8.0 * rng.randint(-16, 16)
    return None

def _rows(rng, n, kinds, nanrate, fresh_const=False):
    rows = []
    fc = [fresh_const and rng.random() < 0.4 for _ in kinds]
    for _ in range(n):
        r = []
        for j, kd in enumerate(kinds):
            v = _val(rng, kd, fc[j])
            if v is not None and rng.random() < nanrate[j]: v = None
            r.append(v)
        rows.append(r)
    return rows

class _Ids:
    def __init__(self): self.k = 0
    def take(self, n):
        out = list(range(self.k, self.k + n)); self.k += n; return out

def _labels(rng, ids, n, has_taxa, has_grp, dup=False):
    taxa = ids.take(n) if has_taxa else None
    if taxa is not None and dup and n >= 2 and rng.random() < 0.15: taxa[-1] = taxa[0]
    grp = [rng.randint(0, 3) for _ in range(n)] if has_grp else None
    return taxa, grp

def _size(rng, tier="quick"):
    k = rng.random()
    if tier == "thorough" and k < 0.012: return rng.choice([128, 130, 256, 257, 300])     # more taxa than int8 / uint8 can count
    if k < 0.06: return 0
    if k < 0.18: return 1
    if k < 0.32: return 2
    if k < 0.85: return rng.randint(3, 8)
    return rng.randint(9, 20)

def _values_operand(rng, ids, k, kinds, nanrate, self_taxa, self_grp, cls):
    """operand of insert/adjoin/append/incorp: raw rows, passed as ndarray or wrapped in a matrix"""
    o = {"vals": _rows(rng, k, kinds, nanrate, fresh_const=True)}
    r = rng.random()
    if r < 0.45: o["as"] = "nd"
    elif r < 0.85: o["as"] = cls if cls == "B" or rng.random() < 0.7 else "B"
    else: o["as"] = rng.choice(["B", "E", "G"])
    if o["as"] == "nd":
        o["vtaxa"] = o["vgrp"] = None
        o["ataxa"] = ids.take(k) if (self_taxa and rng.random() < 0.6) or rng.random() < 0.05 else None
        o["agrp"] = [rng.randint(0, 3) for _ in range(k)] if (self_grp and rng.random() < 0.88) or rng.random() < 0.04 else None
    else:
        ht = (rng.random() < 0.85) if self_taxa else (rng.random() < 0.08)
        hg = (rng.random() < 0.9) if self_grp else (rng.random() < 0.08)
        o["vtaxa"], o["vgrp"] = _labels(rng, ids, k, ht, hg)
        o["ataxa"] = ids.take(k) if rng.random() < 0.1 else None
        o["agrp"] = [rng.randint(4, 6) for _ in range(k)] if rng.random() < 0.1 else None
    return o

def _index(rng, n, allow_end, bad=0.04):
    """an integer position, sometimes negative, rarely out of range"""
    hi = n if allow_end else n - 1
    if rng.random() < bad or hi < 0: return rng.choice([hi + 1, hi + 2, -n - 1, -n - 2])
    i = rng.randint(0, hi)
    if rng.random() < 0.3 and i - n >= -n and (i < n): i = i - n
    return i

def _gen_bv(rng, tier, more_inplace):
    ids = _Ids()
    cls = rng.choice(["B", "B", "E", "G"])
    t = rng.choice([1, 1, 2, 2, 3, 4])
    kinds = [_colkind(rng) for _ in range(t)]
    nanrate = [rng.choice([0.0, 0.0, 0.0, 0.25, 0.5]) for _ in range(t)]
    n = _size(rng, tier)
    has_taxa, has_grp = rng.random() < 0.6, rng.random() < 0.5
    if n > 100:
        # with hundreds of taxa one deviating value gives a spread of ~1/sqrt(n): keep the offset / spread ratio inside the tolerance regime
        kinds = [("const", 37.125) if (kd[0] == "const" and abs(kd[1]) > 1024) else kd for kd in kinds]
    raw = _rows(rng, n, kinds, nanrate)
    taxa, grp = _labels(rng, ids, n, has_taxa, has_grp)
    case = {"kind": "bv", "cls": cls, "t": t, "raw": raw, "taxa": taxa, "grp": grp, "trait": rng.random() < 0.5, "ops": []}
    # (not for traits whose spread is far below 1: stored values next to a location of order 10 would leave the tolerance regime)
    if rng.random() < 0.12 and not any(kd[0] in ("tiny", "nearone") for kd in kinds):
        # built by the constructor from stored values with an arbitrary location / positive scale (not standardised):
        # "raw" holds the stored matrix, the matrix stands for scale*raw+location
        case["direct"] = {"loc": [rng.randint(-64, 64) / 4.0 for _ in range(t)], "sc": [rng.choice([0.25, 0.5, 1.0, 2.0, 4.0, 1.5, 3.0]) for _ in range(t)]}
    nops = rng.choice([0, 1, 2, 2, 3, 3, 4, 5]) if tier == "quick" else rng.choice([0, 1, 2, 3, 4, 5, 6])
    for _ in range(nops):
        names = ["select", "select", "delete", "delete", "insert", "insert", "adjoin", "adjoin", "append", "incorp", "remove", "concat",
                 "reorder", "sort", "copy"]
        if more_inplace: names += ["append", "incorp", "remove", "concat"] * 2 + ["reorder", "sort", "copy"]
        name = rng.choice(names)
        if name == "reorder":
            # reorder_taxa with a permutation derived (at run time, from the actual number of taxa) from these keys
            op = {"op": "reorder", "key": [rng.randint(0, 9) for _ in range(24)]}
        elif name == "sort":
            op = {"op": "sort", "how": rng.choice(["sort", "sort", "group", "group+ungroup"])}
        elif name == "copy":
            op = {"op": "copy", "how": rng.choice(["copy", "copy.copy", "deepcopy", "copy.deepcopy", "deepcopy", "setters"])}
        elif name == "select":
            m = rng.choice([0, 1, 1, 2, 3, n, n + 1]) if n else rng.choice([0, 0, 1])
            ix = [_index(rng, n, False, bad=0.02 if n else 1.0) for _ in range(m)]
            if n and rng.random() < 0.2: ix = sorted(set(i % n for i in ix if -n <= i < n))      # a plain subset
            op = {"op": "select", "ix": ix, "ixform": rng.choice(["array", "array", "list", "tuple"])}
            if all(-n <= i < n for i in ix): n = len(ix)
        elif name in ("delete", "remove"):
            r_ = rng.random()
            if r_ < 0.4:
                obj = _index(rng, n, False)
                if -n <= obj < n: n -= 1
            elif r_ < 0.52:
                # a slice object (numpy.delete accepts int, slice or a sequence)
                obj = {"slice": [rng.choice([None, 0, 1, 2, -2, -1]), rng.choice([None, 1, 2, 3, -1, n, n + 2]), rng.choice([None, 1, 2, -1])]}
                n -= len(range(*slice(*obj["slice"]).indices(n)))
            else:
                obj = [_index(rng, n, False, bad=0.02 if n else 1.0) for _ in range(rng.choice([0, 1, 2, 2, 3]))]
                if all(-n <= i < n for i in obj): n -= len(set(i % n for i in obj)) if n else 0
            op = {"op": name, "obj": obj}
        elif name in ("insert", "incorp"):
            if rng.random() < 0.55:
                k = rng.choice([1, 1, 2, 3]); obj = _index(rng, n, True)
                ok = -n <= obj <= n
            else:
                k = rng.choice([1, 2, 2, 3]); obj = [_index(rng, n, True, bad=0.0) for _ in range(k)]
                ok = True
            op = {"op": name, "obj": obj}
            op.update(_values_operand(rng, ids, k, kinds, nanrate, has_taxa, has_grp, cls))
            if ok and _operand_accepted(op, cls, has_taxa, has_grp): n += k
        elif name in ("adjoin", "append"):
            k = rng.choice([0, 1, 1, 2, 3, 5])
            op = {"op": name}
            op.update(_values_operand(rng, ids, k, kinds, nanrate, has_taxa, has_grp, cls))
            if _operand_accepted(op, cls, has_taxa, has_grp): n += k
        else:                                                       # concat_taxa([self, others...])
            others = []
            for _ in range(rng.choice([0, 1, 1, 1, 2, 2])):            # 0: concat_taxa([self]) alone must still build a new matrix
                k = rng.choice([0, 1, 2, 3])
                ot, og = _labels(rng, ids, k, has_taxa if rng.random() < 0.85 else not has_taxa, has_grp if rng.random() < 0.92 else not has_grp)
                others.append({"cls": cls if rng.random() < 0.85 else rng.choice(["B", "E", "G"]), "raw": _rows(rng, k, kinds, nanrate, True), "taxa": ot, "grp": og})
            op = {"op": "concat", "others": others, "self_pos": rng.randint(0, len(others))}
            if all(_inst(o["cls"], cls) for o in others): n += sum(len(o["raw"]) for o in others)
        if op["op"] in ROUTED and rng.random() < 0.2:
            op["via"] = rng.choice(["axis0", "axis-2"])                  # through the generic dispatcher  m.select(..., axis = 0) ...
        case["ops"].append(op)
    return case

KEEPS = ("copy", "reorder", "sort")          # operations that do not re-standardise: location / scale stay what they were
ROUTED = ("select", "delete", "insert", "adjoin", "append", "incorp", "remove", "concat", "reorder", "sort")

def _perm(key, n):
    """the permutation handed to reorder_taxa: taxa ordered by the (cyclically repeated) keys, ties by position"""
    return sorted(range(n), key=lambda i: (key[i % len(key)], i))

def _obj_list(obj, n):
    """positions denoted by a delete/remove argument: int, index list, or a slice (given n taxa)"""
    if isinstance(obj, dict): return list(range(*slice(*obj["slice"]).indices(n)))
    return obj

def _sort_perm(taxa, grp):
    """expected effect of sort_taxa()/group_taxa() with the default keys: stable order by (taxa_grp, taxa name); None when the library
    has no key at all (ValueError), "unspec" when a taxon name is missing (ordering None against str is not defined)"""
    if taxa is None and grp is None: return None
    if taxa is not None and any(x is None for x in taxa): return "unspec"
    n = len(taxa if taxa is not None else grp)
    return sorted(range(n), key=lambda i: ((grp[i] if grp is not None else 0), ("t%d" % taxa[i]) if taxa is not None else "", i))

def _operand_accepted(op, cls, has_taxa, has_grp):
    """rough guess used only to track the expected size while generating (the real decision is the implementation's)"""
    if op["as"] != "nd" and not _inst(op["as"], cls): return False
    g = op["agrp"] if op["agrp"] is not None else op.get("vgrp")
    tx = op["ataxa"] if op["ataxa"] is not None else op.get("vtaxa")
    if has_grp and g is None: return False
    if not has_grp and g is not None and op["op"] in ("insert", "adjoin"): return False
    if not has_taxa and tx is not None and op["op"] in ("insert", "adjoin"): return False
    return True

def _gen_scaled(rng, tier):
    t = rng.choice([1, 2, 3])
    n = rng.choice([1, 2, 3, 4, 6])
    kinds = [rng.choice([("grid",), ("grid",), ("few", 0.0), ("const", 2.5), ("offset", float(2 ** 20))]) for _ in range(t)]
    nanrate = [rng.choice([0.0, 0.0, 0.25]) for _ in range(t)]
    raw = _rows(rng, n, kinds, nanrate)
    loc = [rng.randint(-64, 64) / 4.0 for _ in range(t)]
    sc = [rng.choice([0.25, 0.5, 1.0, 2.0, 4.0, 1.5, 3.0]) for _ in range(t)]
    if rng.random() < 0.15: loc = rng.choice([0.0, 1.0, -2.5])            # Real location: repeated
    if rng.random() < 0.15: sc = rng.choice([1.0, 2.0, 0.5])
    ops = []
    for _ in range(rng.choice([1, 2, 3, 4])):
        nm = rng.choice(["transform", "untransform", "rescale", "unscale", "rescale", "unscale", "copy"])
        if nm == "copy":
            ops.append({"op": "copy", "how": rng.choice(["copy", "copy.copy", "deepcopy", "copy.deepcopy"])})
        elif nm in ("transform", "untransform"):
            ops.append({"op": nm, "m": _rows(rng, rng.choice([1, 2, 3]), kinds, nanrate), "copy": rng.random() < 0.5})
        else:
            ops.append({"op": nm, "inplace": rng.random() < 0.6})
    return {"kind": "scaled", "t": t, "raw": raw, "loc": loc, "sc": sc, "ops": ops}

# ------------------------------------------------------------------ systematic cross of the routines that accept `values`
KW_COMBOS = ("none", "taxa", "grp", "both")         # which label keywords are given explicitly
RECV_LABELS = ("tg", "t-", "-g", "--")               # receiver with taxa / with taxa_grp
def _operand_kinds(cls):
    """operand kinds crossed for a receiver of class cls: ndarray, a matrix of the same class, two other matrix classes
    (receiver B: both library subclasses; receiver E / G: a run-time subclass of the receiver's class, and the base class B,
    which is no instance of the receiver's class)"""
    return ("nd", cls, "E", "G") if cls == "B" else ("nd", cls, "S", "B")

def _cross_vals(j, k):
    """k operand rows whose location / scale are far from the receiver's (values of order 1): trait 0 around 1024 + 64 j with a
    spread of 256, trait 1 around -512 with a spread of 128 (dyadic: the exact regime applies)"""
    rows = [[1024.0 + 64.0 * j, -512.0 - 8.0 * j], [1280.0 + 64.0 * j, -384.0], [1152.0 + 32.0 * j, -640.0 + 16.0 * j]]
    return rows[:k]

def _gen_cross():
    """fixed block: class x routine (adjoin / insert / append / incorp) x operand kind x receiver labels x form (the routine itself /
    the generic dispatcher with the taxa axis as 0 or -2); inside a case the four combinations of explicit / omitted taxa= and
    taxa_grp=.  A matrix operand carries labels of its own exactly where the receiver has labels (so that an omitted keyword falls
    back on them and an explicit one must override them), its values are on a scale far from the receiver's: anything that
    depends on WHICH keywords were given (un-scaling skipped, labels taken from the wrong place) shows in several cases.
    Cases of the subclasses on half-labelled receivers are judged by the predicate only (`nocoq`), all others also inside Coq."""
    cases = []
    raw0 = [[1.0, -2.5], [3.0, -2.0]]
    for cls in ("B", "E", "G"):
        for nm in ("adjoin", "insert", "append", "incorp"):
            for okind in _operand_kinds(cls):
                for lab in RECV_LABELS:
                    for generic in (False, True):
                        ids = _Ids()
                        ht, hg = lab[0] == "t", lab[1] == "g"
                        taxa, grp = (ids.take(2) if ht else None), ([0, 1] if hg else None)
                        ops = []
                        for j, kw in enumerate(KW_COMBOS):
                            k = (2, 1, 1, 2)[j]
                            op = {"op": nm, "vals": _cross_vals(j + 4 * generic, k), "as": okind}
                            if nm in ("insert", "incorp"): op["obj"] = [1, 0, -1, [0, 2]][j]       # int positions, one index list (two rows)
                            if okind == "nd": op["vtaxa"] = op["vgrp"] = None
                            else:
                                op["vtaxa"] = ids.take(k) if ht else None
                                op["vgrp"] = [2] * k if hg else None
                            op["ataxa"] = ids.take(k) if kw in ("taxa", "both") else None
                            op["agrp"] = [3 + j % 2] * k if kw in ("grp", "both") else None
                            if generic: op["via"] = "axis0" if j % 2 == 0 else "axis-2"
                            ops.append(op)
                        c = {"kind": "bv", "cls": cls, "t": 2, "raw": [list(r) for r in raw0], "taxa": taxa, "grp": grp, "trait": lab == "tg", "ops": ops,
                             "cross": "%s/%s/%s/%s" % (nm, "nd" if okind == "nd" else "same" if okind == cls else okind, lab, "generic" if generic else "specific")}
                        if cls != "B" and lab in ("t-", "-g"): c["nocoq"] = True
                        cases.append(c)
        # concat_taxa (no label keywords): the other matrices of the same class / of the other classes, on scales far from self's,
        # self first / in the middle / last, through the class method and through the generic concat
        for okind in _operand_kinds(cls)[1:]:
            for lab in RECV_LABELS:
                ids = _Ids()
                ht, hg = lab[0] == "t", lab[1] == "g"
                taxa, grp = (ids.take(2) if ht else None), ([0, 1] if hg else None)
                ops = []
                for j in range(3):
                    others = [{"cls": okind if i == 0 else cls, "raw": _cross_vals(2 * j + i, 2 - i), "taxa": ids.take(2 - i) if ht else None,
                               "grp": [2 + i] * (2 - i) if hg else None} for i in range(2 if j == 1 else 1)]
                    op = {"op": "concat", "others": others, "self_pos": min(j, len(others))}
                    if j == 1: op["via"] = "axis0"
                    ops.append(op)
                c = {"kind": "bv", "cls": cls, "t": 2, "raw": [list(r) for r in raw0], "taxa": taxa, "grp": grp, "trait": False, "ops": ops,
                     "cross": "concat/%s/%s/both" % ("same" if okind == cls else okind, lab)}
                if cls != "B" and lab in ("t-", "-g"): c["nocoq"] = True
                cases.append(c)
    return cases

WITNESS_CONST = {"kind": "bv", "cls": "B", "t": 1, "raw": [[0.1], [0.1], [0.1]], "taxa": None, "grp": None, "trait": False, "ops": []}

def gen_cases(rng, tier):
    cases = []
    N = 390 if tier == "quick" else 6000
    # fixed corners: every class, constant / NaN / offset columns, size 1, empty
    for cls in ("B", "E", "G"):
        cases.append({"kind": "bv", "cls": cls, "t": 3, "raw": [[1.0, 5.0, 3.0], [2.0, 5.0, None], [4.0, 5.0, 7.0]], "taxa": [0, 1, 2], "grp": [1, 1, 2],
                      "trait": True, "ops": [{"op": "select", "ix": [2, 0, 0]}, {"op": "delete", "obj": [1]},
                                             {"op": "adjoin", "vals": [[10.0, 6.0, 1.0]], "as": cls, "vtaxa": [7], "vgrp": [3], "ataxa": None, "agrp": None},
                                             {"op": "insert", "obj": 1, "vals": [[2.0, 5.0, None], [3.0, 5.0, 4.0]], "as": "nd", "vtaxa": None, "vgrp": None, "ataxa": [8, 9], "agrp": [0, 0]}]})
        cases.append({"kind": "bv", "cls": cls, "t": 2, "raw": [[1048576.0, -3.0]], "taxa": None, "grp": None, "trait": False,
                      "ops": [{"op": "adjoin", "vals": [[1048584.0, -3.0], [1048568.0, None]], "as": "nd", "vtaxa": None, "vgrp": None, "ataxa": None, "agrp": None},
                              {"op": "delete", "obj": 0}, {"op": "select", "ix": []}]})
        # in-place operations and concat_taxa in every class: appended / incorporated / concatenated values on another scale, then remove
        cases.append({"kind": "bv", "cls": cls, "t": 2, "raw": [[1.0, 5.0], [3.0, 5.0]], "taxa": [0, 1], "grp": [0, 1], "trait": True,
                      "ops": [{"op": "append", "vals": [[10.0, 5.0], [30.0, None]], "as": "nd", "vtaxa": None, "vgrp": None, "ataxa": [2, 3], "agrp": [2, 2]},
                              {"op": "incorp", "obj": 1, "vals": [[100.0, 6.0]], "as": cls, "vtaxa": [4], "vgrp": [1], "ataxa": None, "agrp": None},
                              {"op": "remove", "obj": [0, 3]},
                              {"op": "concat", "self_pos": 1, "others": [{"cls": cls, "raw": [[-7.0, 5.0], [9.0, 5.0]], "taxa": [5, 6], "grp": [3, 3]},
                                                                          {"cls": cls, "raw": [[1000.0, 8.0]], "taxa": None, "grp": [0]}]},
                              {"op": "remove", "obj": -1}]})
        cases.append({"kind": "bv", "cls": cls, "t": 2, "raw": [[1.0, 0.5], [2.0, 0.5], [4.0, None]], "taxa": None, "grp": None, "trait": False,
                      "direct": {"loc": [10.0, -3.0], "sc": [2.0, 1.5]},
                      "ops": [{"op": "remove", "obj": 0}, {"op": "append", "vals": [[7.0, 1.0]], "as": "nd", "vtaxa": None, "vgrp": None, "ataxa": None, "agrp": None}]})
        cases.append({"kind": "bv", "cls": cls, "t": 1, "raw": [], "taxa": None, "grp": None, "trait": False,
                      "ops": [{"op": "append", "vals": [[10.0], [30.0]], "as": cls, "vtaxa": None, "vgrp": None, "ataxa": None, "agrp": None},
                              {"op": "concat", "self_pos": 0, "others": [{"cls": cls, "raw": [[1.0], [3.0]], "taxa": None, "grp": None}]}]})
    # more taxa than int8 / uint8 can count: the extrema sit beyond position 127 / 255, indices beyond 255 are selected and removed
    # (spread over the case list so that they land in different correspondence shards)
    big = []
    for cls, n in (("B", 130), ("E", 260), ("G", 300)):
        raw = [[float((7 * i) % 23), 5.0 if i != n - 2 else None] for i in range(n)]
        raw[n - 1][0] = 100.0; raw[n - 3][0] = -100.0
        big.append({"kind": "bv", "cls": cls, "t": 2, "raw": raw, "taxa": list(range(n)), "grp": [i % 3 for i in range(n)], "trait": False,
                    "ops": [{"op": "select", "ix": list(range(n - 1, -1, -1))[: n - 1] + [-n], "ixform": "list"}, {"op": "remove", "obj": [n - 1, 0]},
                            {"op": "delete", "obj": {"slice": [None, None, 2]}}, {"op": "sort", "how": "group"}]})
    cross = _gen_cross()
    for i in range(N):
        if i % 100 == 60 and big: cases.append(big.pop())
        if cross: cases.append(cross.pop())                        # spread over the shards
        if i % 9 == 8: cases.append(_gen_scaled(rng, tier))
        else: cases.append(_gen_bv(rng, tier, more_inplace=(i % 4 == 3)))
    return cases + cross

# ------------------------------------------------------------------ implementation driver
def _hx(x):
    x = float(x)
    if math.isnan(x): return "nan"
    if math.isinf(x): return "inf" if x > 0 else "-inf"
    return x.hex()
def _hx1(a): return [_hx(x) for x in numpy.asarray(a, dtype=float).ravel()]
def _hx2(a):
    a = numpy.asarray(a, dtype=float)
    return [[_hx(x) for x in r] for r in a]
def _arr(rows, t):
    a = numpy.array([[numpy.nan if v is None else v for v in r] for r in rows], dtype=float)
    return a.reshape(len(rows), t)
def _tx(ids):
    return None if ids is None else numpy.array(["t%d" % i if i is not None else None for i in ids], dtype=object)
def _gp(g):
    return None if g is None else numpy.array(g, dtype="int64")
def _untx(a):
    if a is None: return None
    return [None if x is None else int(str(x)[1:]) for x in a]
_SUBS = {}
def _cls(name, recv=None):
    """the class called `name`; "S": a (memoised) direct subclass of the receiver's class `recv`, with nothing overridden"""
    import importlib
    if name == "S":
        if recv not in _SUBS:
            base = _cls(recv)
            _SUBS[recv] = type("Sub" + base.__name__, (base,), {})
        return _SUBS[recv]
    m, c = CLS[name]
    return getattr(importlib.import_module(m), c)

def _snapshot(b, trait):
    s = {}
    m0, l0, s0 = b.mat.copy(), b.location.copy(), b.scale.copy()
    s["mat"] = _hx2(b.mat); s["loc"] = _hx1(b.location); s["scale"] = _hx1(b.scale)
    u = b.unscale()
    s["unscale"] = _hx2(u)
    s["unscale_fresh"] = not numpy.shares_memory(u, b.mat)
    s["taxa"] = _untx(b.taxa); s["grp"] = None if b.taxa_grp is None else [int(x) for x in b.taxa_grp]
    s["trait_ok"] = (b.trait is None) if not trait else (b.trait is not None and list(b.trait) == ["y%d" % j for j in range(b.mat.shape[1])])
    s["shape"] = list(b.mat.shape)
    st = {}
    for k in STATS:
        for u_ in (False, True):
            try: st["%s%d" % (k, u_)] = _hx1(getattr(b, k)(unscale=u_))
            except Exception as e: st["%s%d" % (k, u_)] = {"exc": type(e).__name__}
    for k in ("targmax", "targmin"):
        try: st[k] = [int(x) for x in getattr(b, k)()]
        except Exception as e: st[k] = {"exc": type(e).__name__}
    s["stats"] = st
    shared = []
    for k in STATS:
        try:
            r_ = getattr(b, k)(unscale=True)
            if any(numpy.shares_memory(r_, x) for x in (b.mat, b.location, b.scale)): shared.append(k)
        except Exception: pass
    s["stat_shared"] = shared
    s["unchanged"] = bool(numpy.array_equal(b.mat, m0, equal_nan=True) and numpy.array_equal(b.location, l0, equal_nan=True)
                          and numpy.array_equal(b.scale, s0, equal_nan=True))
    s["cls"] = type(b).__name__
    return s

def _operand(op, t, recv):
    v = _arr(op["vals"], t)
    info = None
    if op["as"] != "nd":
        v = _cls(op["as"], recv).from_numpy(v, taxa=_tx(op["vtaxa"]), taxa_grp=_gp(op["vgrp"]))
        info = {"loc": _hx1(v.location), "scale": _hx1(v.scale), "mat": _hx2(v.mat)}
    return v, info

def _ix(x, form="array"):
    if isinstance(x, dict): return slice(*x["slice"])
    if not isinstance(x, list): return x
    if form == "list": return list(x)
    if form == "tuple": return tuple(x)
    return numpy.array(x, dtype="int64")

FIELDS = ("mat", "location", "scale", "taxa", "taxa_grp")
def _freeze(b):
    """private copies of the arrays a matrix stands on (taken with numpy, not with the library's own copy routines)"""
    return {k: (None if getattr(b, k) is None else numpy.array(getattr(b, k), copy=True)) for k in FIELDS}
def _same_arr(x, y):
    if x is None or y is None: return x is None and y is None
    return x.shape == y.shape and bool(numpy.array_equal(x, y, equal_nan=True) if x.dtype.kind == "f" else all(p == q for p, q in zip(x, y)))
def _unchanged(b, fz):
    return all(_same_arr(getattr(b, k), fz[k]) for k in FIELDS)
def _shared(b, others):
    """fields of b that share memory with one of the given arrays"""
    out = []
    for k in FIELDS:
        x = getattr(b, k)
        if x is not None and any(o is not None and numpy.shares_memory(x, o) for o in others): out.append(k)
    return out
def _arrays_of(m):
    return [getattr(m, k) for k in FIELDS]

def _call(b, name, via, *args, **kw):
    """the taxa routine itself, or the generic dispatcher of DenseTaxaTraitMatrix with the taxa axis given as 0 / -2"""
    if via is None: return getattr(b, name + "_taxa")(*args, **kw)
    return getattr(b, name)(*args, axis={"axis0": 0, "axis-2": -2}[via], **kw)

def _run_bv(case):
    numpy.seterr(all="ignore")
    import warnings; warnings.simplefilter("ignore")
    t = case["t"]
    C = _cls(case["cls"])
    trait = numpy.array(["y%d" % j for j in range(t)], dtype=object) if case["trait"] else None
    if case.get("direct"):
        b = C(mat=_arr(case["raw"], t), location=numpy.array(case["direct"]["loc"], dtype=float), scale=numpy.array(case["direct"]["sc"], dtype=float),
              taxa=_tx(case["taxa"]), taxa_grp=_gp(case["grp"]), trait=trait)
    else:
        b = C.from_numpy(_arr(case["raw"], t), taxa=_tx(case["taxa"]), taxa_grp=_gp(case["grp"]), trait=trait)
    steps = [_snapshot(b, case["trait"])]
    watch = []                  # (step, matrix left behind, its frozen state): must still be what it was when the history ends
    for k, op in enumerate(case["ops"], 1):
        rec = {}
        nm = op["op"]; via = op.get("via")
        fz = _freeze(b)
        inplace = nm in INPLACE or nm in ("reorder", "sort") or (nm == "copy" and op["how"] == "setters")
        operands = []           # arrays handed in: must be left alone and must not end up inside the result
        ofz = []
        try:
            nb = None
            if nm == "select": nb = _call(b, "select", via, _ix(op["ix"], op.get("ixform", "array")))
            elif nm == "delete": nb = _call(b, "delete", via, _ix(op["obj"]))
            elif nm == "remove": _call(b, "remove", via, _ix(op["obj"]))
            elif nm == "reorder": _call(b, "reorder", via, numpy.array(_perm(op["key"], b.ntaxa), dtype="int64"))
            elif nm == "sort":
                if op["how"] == "sort": _call(b, "sort", via)
                else:
                    if via is None: b.group_taxa()
                    else: b.group(axis={"axis0": 0, "axis-2": -2}[via])
                    hasg = b.taxa_grp is not None             # without taxa_grp group_taxa() only sorts
                    if hasg: rec["grouped"] = bool(b.is_grouped_taxa())
                    if op["how"] == "group+ungroup":
                        b.ungroup_taxa()
                        if hasg: rec["grouped"] = rec["grouped"] and not bool(b.is_grouped_taxa())
            elif nm == "copy":
                how = op["how"]
                if how == "copy": nb = b.copy()
                elif how == "copy.copy": nb = copy.copy(b)
                elif how == "deepcopy": nb = b.deepcopy()
                elif how == "copy.deepcopy": nb = copy.deepcopy(b)
                else:
                    # the property setters: re-assign every array (fresh copies) on the same object
                    b.mat = b.mat.copy(); b.location = b.location.copy(); b.scale = b.scale.copy()
                    if b.taxa is not None: b.taxa = b.taxa.copy()
                    if b.taxa_grp is not None: b.taxa_grp = b.taxa_grp.copy()
            elif nm in ("insert", "adjoin", "append", "incorp"):
                v, info = _operand(op, t, case["cls"])
                if info: rec["vparams"] = info
                kw = {"taxa": _tx(op["ataxa"]), "taxa_grp": _gp(op["agrp"])}
                operands = (_arrays_of(v) if info else [v]) + [kw["taxa"], kw["taxa_grp"]]
                ofz = [None if o is None else numpy.array(o, copy=True) for o in operands]
                if nm == "insert": nb = _call(b, "insert", via, _ix(op["obj"]), v, **kw)
                elif nm == "adjoin": nb = _call(b, "adjoin", via, v, **kw)
                elif nm == "append": _call(b, "append", via, v, **kw)
                else: _call(b, "incorp", via, _ix(op["obj"]), v, **kw)
            elif nm == "concat":
                ms = [_cls(o["cls"], case["cls"]).from_numpy(_arr(o["raw"], t), taxa=_tx(o["taxa"]), taxa_grp=_gp(o["grp"]), trait=trait) for o in op["others"]]
                rec["oparams"] = [{"loc": _hx1(m.location), "scale": _hx1(m.scale), "mat": _hx2(m.mat)} for m in ms]
                operands = [a for m in ms for a in _arrays_of(m)]
                ofz = [None if o is None else numpy.array(o, copy=True) for o in operands]
                ms.insert(op["self_pos"], b)
                nb = C.concat_taxa(ms) if via is None else C.concat(ms, axis={"axis0": 0, "axis-2": -2}[via])
            else:
                raise RuntimeError("unknown op " + nm)
            res = b if inplace else nb
            rec.update(_snapshot(res, case["trait"]))
            if not inplace:
                rec["src_unchanged"] = _unchanged(b, fz)
                # a shallow copy may share by definition; everything else must stand on its own arrays
                if not (nm == "copy" and op["how"] in ("copy", "copy.copy")):
                    rec["shared_src"] = _shared(res, _arrays_of(b))
                watch.append((k, b, fz))
            rec["shared_opd"] = _shared(res, operands)
            rec["opd_unchanged"] = all(_same_arr(o, f) for o, f in zip(operands, ofz))
            b = res
        except Exception as e:
            rec = {kk: vv for kk, vv in rec.items() if kk in ("vparams", "oparams")}
            rec["exc"] = type(e).__name__; rec["msg"] = str(e)[:160]
            # a failing operation must leave the matrix as it was (in place: nothing half done; copy: the source untouched)
            rec["failed_unchanged"] = _unchanged(b, fz)
            if not rec["failed_unchanged"]:
                b = C(mat=fz["mat"], location=fz["location"], scale=fz["scale"], taxa=fz["taxa"], taxa_grp=fz["taxa_grp"], trait=trait)
        steps.append(rec)
    out = {"steps": steps}
    bad = [k for k, m, fz in watch if m is not b and not _unchanged(m, fz)]
    if bad: out["left_behind_changed"] = bad
    return out

def _run_scaled(case):
    numpy.seterr(all="ignore")
    import warnings; warnings.simplefilter("ignore")
    from pybrops.core.mat.DenseScaledMatrix import DenseScaledMatrix
    t = case["t"]
    loc = numpy.array(case["loc"], dtype=float) if isinstance(case["loc"], list) else float(case["loc"])
    sc = numpy.array(case["sc"], dtype=float) if isinstance(case["sc"], list) else float(case["sc"])
    b = DenseScaledMatrix(_arr(case["raw"], t), location=loc, scale=sc)
    def state(): return {"mat": _hx2(b.mat), "loc": _hx1(b.location), "scale": _hx1(b.scale)}
    def frz(m): return [numpy.array(x, copy=True) for x in (m.mat, m.location, m.scale)]
    def same(m, fz): return all(_same_arr(x, y) for x, y in zip((m.mat, m.location, m.scale), fz))
    steps = [state()]
    watch = []
    for k, op in enumerate(case["ops"], 1):
        rec = {}
        try:
            if op["op"] == "copy":
                how = op["how"]
                nb = b.copy() if how == "copy" else copy.copy(b) if how == "copy.copy" else b.deepcopy() if how == "deepcopy" else copy.deepcopy(b)
                rec["ret"] = []
                rec["cls_ok"] = type(nb) is type(b)
                rec["shared_src"] = [nm_ for nm_, x, y in (("mat", nb.mat, b.mat), ("location", nb.location, b.location), ("scale", nb.scale, b.scale)) if numpy.shares_memory(x, y)]
                watch.append((k, b, frz(b)))
                b = nb
            elif op["op"] in ("transform", "untransform"):
                m = _arr(op["m"], t); m0 = m.copy()
                r = getattr(b, op["op"])(m, copy=op["copy"])
                rec["ret"] = _hx2(r)
                rec["arg_unchanged"] = bool(numpy.array_equal(m, m0, equal_nan=True))
                rec["ret_is_arg"] = r is m
            else:
                r = getattr(b, op["op"])(inplace=op["inplace"])
                rec["ret"] = _hx2(r)
                rec["ret_is_mat"] = r is b.mat
            rec.update(state())
        except Exception as e:
            rec["exc"] = type(e).__name__; rec["msg"] = str(e)[:160]
        steps.append(rec)
    out = {"steps": steps}
    bad = [k for k, m, fz in watch if not same(m, fz)]
    if bad: out["left_behind_changed"] = bad
    return out

def run_impl(case):
    return _run_bv(case) if case["kind"] == "bv" else _run_scaled(case)

# ------------------------------------------------------------------ independent predicate
def _fr(h):
    """hex string -> Fraction, None for NaN; infinities raise"""
    if h == "nan": return None
    if h in ("inf", "-inf"): raise OverflowError("infinite value")
    return Fraction(float.fromhex(h))
def _close(a, b, tol=TOL):
    """a (implementation) within tol*(1+|b|) of b; None only matches None"""
    if a is None or b is None: return a is None and b is None
    return abs(a - b) <= tol * (1 + abs(b))
def _F(v): return None if v is None else Fraction(v)
def _norm(i, n):
    if -n <= i < n: return i % n if n else None
    return None

def _l_select(xs, ix):
    n = len(xs); out = []
    for i in ix:
        k = _norm(i, n)
        if k is None: return None
        out.append(xs[k])
    return out
def _l_delete(xs, obj):
    n = len(xs)
    obj = _obj_list(obj, n)
    idx = [obj] if isinstance(obj, int) else list(obj)
    ks = set()
    for i in idx:
        k = _norm(i, n)
        if k is None: return None
        ks.add(k)
    return [x for j, x in enumerate(xs) if j not in ks]
def _l_insert(xs, obj, vs):
    n = len(xs)
    if isinstance(obj, int):
        if not (-n <= obj <= n): return None
        k = obj + n if obj < 0 else obj
        return xs[:k] + list(vs) + xs[k:]
    if len(obj) != len(vs): return None
    pos = []
    for i in obj:
        if not (-n <= i <= n): return None
        pos.append(i + n if i < 0 else i)
    out = []
    for p in range(n + 1):
        out += [v for q, v in zip(pos, vs) if q == p]
        if p < n: out.append(xs[p])
    return out

class _Exp:
    def __init__(self, rows, taxa, grp, exact=True):
        self.rows, self.taxa, self.grp, self.exact = rows, taxa, grp, exact

def _expected(exp, op, cls):
    """property-level expectation: ('ok', new state, labels_defined) | ('err',) | ('either', new state)"""
    nm = op["op"]
    if nm == "copy":
        return ("ok", _Exp(list(exp.rows), exp.taxa, exp.grp, exp.exact), True)
    if nm in ("reorder", "sort"):
        if nm == "reorder": pm = _perm(op["key"], len(exp.rows))
        else:
            pm = _sort_perm(exp.taxa, exp.grp)
            if pm is None: return ("err",)
            if pm == "unspec": return ("unspec",)
        return ("ok", _Exp(_l_select(exp.rows, pm), None if exp.taxa is None else _l_select(exp.taxa, pm),
                           None if exp.grp is None else _l_select(exp.grp, pm), exp.exact), True)
    if nm == "select":
        r = _l_select(exp.rows, op["ix"])
        if r is None: return ("err",)
        return ("ok", _Exp(r, None if exp.taxa is None else _l_select(exp.taxa, op["ix"]),
                           None if exp.grp is None else _l_select(exp.grp, op["ix"]), exp.exact), True)
    if nm in ("delete", "remove"):
        r = _l_delete(exp.rows, op["obj"])
        if r is None: return ("err",)
        return ("ok", _Exp(r, None if exp.taxa is None else _l_delete(exp.taxa, op["obj"]),
                           None if exp.grp is None else _l_delete(exp.grp, op["obj"]), exp.exact), True)
    if nm in ("insert", "incorp") and isinstance(op["obj"], list) and any(not (-len(exp.rows) <= i <= len(exp.rows)) for i in op["obj"]):
        return ("unspec",)          # numpy.insert does not validate an index *list* (negative entries below -n wrap around in the enlarged array)
    if nm in ("insert", "adjoin", "append", "incorp"):
        vs = [[_F(v) for v in r] for r in op["vals"]]
        k = len(vs)
        tx = op["ataxa"] if op["ataxa"] is not None else op.get("vtaxa")
        gp = op["agrp"] if op["agrp"] is not None else op.get("vgrp")
        f = (lambda xs, v: xs + list(v)) if nm in ("adjoin", "append") else (lambda xs, v: _l_insert(xs, op["obj"], v))
        r = f(exp.rows, vs)
        if r is None: return ("err",)
        either = False
        if op["as"] != "nd" and not _inst(op["as"], cls): either = True
        if exp.taxa is not None: taxa = f(exp.taxa, tx if tx is not None else [None] * k)
        else:
            taxa = None
            if tx is not None: either = True
        if exp.grp is not None:
            if gp is None: return ("either", None)
            grp = f(exp.grp, gp)
        else:
            grp = None
            if gp is not None: either = True
        ne = _Exp(r, taxa, grp, exp.exact)
        return ("either", ne) if either else ("ok", ne, True)
    if nm == "concat":
        parts = [(o["cls"], [[_F(v) for v in r] for r in o["raw"]], o["taxa"], o["grp"]) for o in op["others"]]
        parts.insert(op["self_pos"], (cls, exp.rows, exp.taxa, exp.grp))
        rows = [r for p in parts for r in p[1]]
        either = any(not _inst(p[0], cls) for p in parts)
        if all(p[2] is None for p in parts): taxa = None
        else: taxa = [x for p in parts for x in (p[2] if p[2] is not None else [None] * len(p[1]))]
        if all(p[3] is None for p in parts): grp = None
        elif any(p[3] is None for p in parts): return ("either", None)
        else: grp = [x for p in parts for x in p[3]]
        ne = _Exp(rows, taxa, grp, exp.exact)
        return ("either", ne) if either else ("ok", ne, True)
    raise ValueError(nm)

def _np_stats(colvals):
    """numpy (not NaN-aware) summaries of a column of Fractions / None"""
    if any(v is None for v in colvals): return None
    n = len(colvals)
    mean = sum(colvals) / n
    var = sum((v - mean) ** 2 for v in colvals) / n
    return {"max": max(colvals), "min": min(colvals), "mean": mean, "range": max(colvals) - min(colvals), "var": var}

def _check_state(tag, exp, snap, t, first, bad, standardised=True):
    def B(msg): bad.append("%s: %s" % (tag, msg))
    n = len(exp.rows)
    if snap["shape"] != [n, t]:
        B("shape %s, expected %s" % (snap["shape"], [n, t])); return
    try:
        mat = [[_fr(h) for h in r] for r in snap["mat"]]
        uns = [[_fr(h) for h in r] for r in snap["unscale"]]
        loc = [_fr(h) for h in snap["loc"]]; sc = [_fr(h) for h in snap["scale"]]
    except OverflowError:
        B("infinite value in mat/unscale/location/scale"); return
    if len(loc) != t or len(sc) != t: B("location/scale length"); return
    if not snap["unchanged"]: B("a statistic or unscale() modified the matrix, location or scale")
    if not snap["unscale_fresh"]: B("unscale() returns memory shared with the stored matrix")
    if snap.get("stat_shared"): B("%s(unscale=True) returns memory shared with the matrix, location or scale" % "/".join(snap["stat_shared"]))
    if not snap["trait_ok"]: B("trait labels lost or changed")
    st = snap["stats"]
    for j in range(t):
        col = [r[j] for r in exp.rows]
        mcol = [r[j] for r in mat]; ucol = [r[j] for r in uns]
        obs = [abs(v) for v in col if v is not None]
        colmax = max(obs) if obs else Fraction(0)
        rel = exp.exact and colmax > 0       # scale-aware criteria (the 2^-30(1+|x|) tolerance says nothing about values far below 1)
        # missing stays missing, nothing else becomes missing
        if [v is None for v in ucol] != [v is None for v in col]: B("trait %d: missing-value pattern of unscale() differs from the raw values" % j)
        if [v is None for v in mcol] != [v is None for v in col]: B("trait %d: missing-value pattern of the stored matrix differs from the raw values" % j)
        for i in range(n):
            if col[i] is not None and ucol[i] is not None and (not _close(ucol[i], col[i]) or (rel and abs(ucol[i] - col[i]) > REL40 * colmax)):
                B("trait %d taxon %d: unscale() = %r, raw value %r" % (j, i, float(ucol[i]), float(col[i]))); break
        if first and exp.exact and loc[j] is not None:
            # "to rounding error": the bound proved in C15_roundtrip_rounding_error_binary64 (4u|x-l| + u|x| + O(u^2), u = 2^-53), with slack
            for i in range(n):
                if col[i] is not None and ucol[i] is not None and abs(ucol[i] - col[i]) > Fraction(5, 2 ** 53) * (abs(col[i] - loc[j]) + abs(col[i])):
                    B("trait %d taxon %d: unscale() = %r differs from the raw value %r by more than rounding error" % (j, i, float(ucol[i]), float(col[i]))); break
        vals = [v for v in col if v is not None]
        if not standardised: pass                   # built by the constructor with given parameters: nothing to say about location / scale
        elif not vals:
            if loc[j] is not None or sc[j] is not None: B("trait %d: no observed value but location/scale are not NaN" % j)
        else:
            mean = sum(vals) / len(vals)
            var = sum((v - mean) ** 2 for v in vals) / len(vals)
            spread = max(vals) - min(vals)
            const = (var == 0) if exp.exact else (spread <= Fraction(1, 2 ** 36) * min(1 + abs(mean), colmax))
            if loc[j] is None or sc[j] is None: B("trait %d: location/scale NaN although values were observed" % j)
            else:
                if not _close(loc[j], mean) or (rel and abs(loc[j] - mean) > REL40 * colmax):
                    B("trait %d: location %r is not the mean of the observed raw values %r" % (j, float(loc[j]), float(mean)))
                if const:
                    if sc[j] != 1:
                        if 0 < sc[j] <= TOL * (1 + abs(mean)):
                            B("[const-rounding] trait %d: constant trait stored with scale %r instead of 1 (rounding residue taken for spread)" % (j, float(sc[j])))
                        elif exp.exact: B("trait %d: constant trait has scale %r, expected 1" % (j, float(sc[j])))
                    elif any(v is not None and v != 0 for v in mcol) and exp.exact: B("trait %d: constant trait not stored as zeros" % j)
                else:
                    if sc[j] <= 0 or not _close(sc[j] * sc[j], var) or (rel and abs(sc[j] * sc[j] - var) > Fraction(1, 2 ** 20) * var):
                        B("trait %d: scale %r is not the standard deviation of the raw values (var %r)" % (j, float(sc[j]), float(var)))
                    sv = [v for v in mcol if v is not None]
                    if len(sv) == len(vals):
                        sm = sum(sv) / len(sv)
                        if not _close(sm, Fraction(0)): B("trait %d: stored values are not centred (mean %s)" % (j, float(sm)))
                        if not _close(sum((v - sm) ** 2 for v in sv) / len(sv), Fraction(1)): B("trait %d: stored values do not have unit variance" % j)
        # statistics
        if n == 0:
            for k in ("tmax", "tmin", "trange"):
                for u in (0, 1):
                    if not isinstance(st["%s%d" % (k, u)], dict): B("%s on an empty matrix did not raise" % k)
            for k in ("targmax", "targmin"):
                if not isinstance(st[k], dict): B("%s on an empty matrix did not raise" % k)
            continue
        try:
            g = {}
            for k in STATS:
                for u in (0, 1):
                    v = st["%s%d" % (k, u)]
                    if isinstance(v, dict): B("%s(unscale=%d) raised %s" % (k, u, v["exc"])); raise KeyError
                    g[(k, u)] = _fr(v[j])
            for k in ("targmax", "targmin"):
                if isinstance(st[k], dict): B("%s raised" % k); raise KeyError
        except KeyError: continue
        except OverflowError: B("trait %d: infinite statistic" % j); continue
        raw = _np_stats(col)
        if raw is None:
            for k in ("tmax", "tmin", "trange", "tstd", "tvar"):
                if g[(k, 1)] is not None: B("trait %d: %s(unscale=True) is %s but the raw trait has a missing value (numpy summary is NaN)" % (j, k, float(g[(k, 1)])))
            if g[("tmean", 1)] is not None:
                B("trait %d: tmean(unscale=True) = %s ignores the missing value while tmean(unscale=False) and every other summary are NaN" % (j, float(g[("tmean", 1)])))
            fn = next(i for i, v in enumerate(col) if v is None)
            if st["targmax"][j] != fn or st["targmin"][j] != fn: B("trait %d: arg-extrema of a trait with a missing value should point at the first missing entry" % j)
        else:
            want = {"tmax": raw["max"], "tmin": raw["min"], "tmean": raw["mean"], "trange": raw["range"], "tvar": raw["var"]}
            for k, w in want.items():
                gv = g[(k, 1)]
                tolk = (Fraction(1, 2 ** 30) * w + Fraction(1, 2 ** 90) * colmax * colmax) if k == "tvar" else REL36 * colmax
                if not _close(gv, w) or (rel and abs(gv - w) > tolk):
                    B("trait %d: %s(unscale=True) = %r, raw summary %r" % (j, k, None if gv is None else float(gv), float(w)))
            s1 = g[("tstd", 1)]
            if s1 is None or s1 < 0 or not _close(s1 * s1, raw["var"]) or (rel and abs(s1 * s1 - raw["var"]) > Fraction(1, 2 ** 29) * raw["var"] + Fraction(1, 2 ** 90) * colmax * colmax):
                B("trait %d: tstd(unscale=True) = %r, raw variance %r" % (j, None if s1 is None else float(s1), float(raw["var"])))
            if raw["var"] == 0 and exp.exact and (s1 is not None and s1 > TOL or g[("tvar", 1)] is not None and g[("tvar", 1)] > TOL):
                B("trait %d: constant trait has non-zero tstd/tvar(unscale=True)" % j)
            for k, ext in (("targmax", raw["max"]), ("targmin", raw["min"])):
                i = st[k][j]
                if not (0 <= i < n): B("trait %d: %s out of range" % (j, k)); continue
                if exp.exact:
                    if col[i] != ext: B("trait %d: %s = %d does not point at the raw extremum" % (j, k, i))
                    elif first and i != col.index(ext): B("trait %d: %s = %d is not the first extremum" % (j, k, i))
                elif not _close(col[i], ext): B("trait %d: %s = %d does not point at the raw extremum" % (j, k, i))
        # statistics on the stored scale = numpy summaries of the stored matrix
        ms = _np_stats(mcol)
        if ms is None:
            for k in STATS:
                if g[(k, 0)] is not None: B("trait %d: %s(unscale=False) is not NaN although the stored trait has a missing value" % (j, k))
        else:
            want = {"tmax": ms["max"], "tmin": ms["min"], "tmean": ms["mean"], "trange": ms["range"], "tvar": ms["var"]}
            for k, w in want.items():
                if not _close(g[(k, 0)], w): B("trait %d: %s(unscale=False) differs from the summary of the stored matrix" % (j, k))
            s0 = g[("tstd", 0)]
            if s0 is None or s0 < 0 or not _close(s0 * s0, ms["var"]): B("trait %d: tstd(unscale=False) differs from the summary of the stored matrix" % j)
    if snap["taxa"] != exp.taxa and exp.taxa != "undef": B("taxa labels %s, expected %s" % (snap["taxa"], exp.taxa))
    if snap["grp"] != exp.grp and exp.grp != "undef": B("taxa groups %s, expected %s" % (snap["grp"], exp.grp))

def _pred_bv(case, out):
    bad = []
    t = case["t"]; cls = case["cls"]
    steps = out["steps"]
    d = case.get("direct")
    if d:       # the matrix stands for scale*mat+location
        exp = _Exp([[None if v is None else Fraction(d["sc"][j]) * Fraction(v) + Fraction(d["loc"][j]) for j, v in enumerate(r)] for r in case["raw"]], case["taxa"], case["grp"])
    else:
        exp = _Exp([[_F(v) for v in r] for r in case["raw"]], case["taxa"], case["grp"])
    if "exc" in steps[0]: return ["%s raised %s" % ("constructor" if d else "from_numpy", steps[0]["exc"])]
    if steps[0]["cls"] != CLS[cls][1]: bad.append("step 0 op=from_numpy: result class %s" % steps[0]["cls"])
    if d and (steps[0]["loc"] != [_hx(x) for x in d["loc"]] or steps[0]["scale"] != [_hx(x) for x in d["sc"]] or steps[0]["mat"] != [[_hx(float("nan") if v is None else v) for v in r] for r in case["raw"]]):
        bad.append("step 0 op=constructor: matrix, location or scale not stored as given")
    _check_state("step 0 op=%s" % ("constructor" if d else "from_numpy"), exp, steps[0], t, True, bad, standardised=not d)
    std = not d            # is the matrix standardised?  copies / reorderings keep what they find, every other routine re-standardises
    for k, op in enumerate(case["ops"], 1):
        snap = steps[k]
        tag = "step %d op=%s" % (k, op["op"])
        e = _expected(exp, op, cls)
        if e[0] == "unspec":
            if "exc" not in snap:
                try: exp = _Exp([[_fr(h) for h in r] for r in snap["unscale"]], snap["taxa"], snap["grp"], exact=False)
                except OverflowError: break
            continue
        if e[0] == "err":
            if "exc" not in snap: bad.append("%s: invalid index accepted" % tag)
            elif snap.get("failed_unchanged") is False: bad.append("%s: the failing in-place operation changed the matrix" % tag)
            continue
        if "exc" in snap and snap.get("failed_unchanged") is False: bad.append("%s: the failing in-place operation changed the matrix" % tag)
        if "exc" in snap:
            if e[0] == "ok": bad.append("%s: raised %s (%s)" % (tag, snap["exc"], snap.get("msg", "")))
            continue
        ne = e[1]
        if snap.get("src_unchanged") is False: bad.append("%s: the operation changed the matrix it was applied to (it must return a new matrix)" % tag)
        if snap.get("shared_src"): bad.append("%s: the result shares %s with the matrix it was made from" % (tag, "/".join(snap["shared_src"])))
        # (labels handed to a matrix that has none are stored as given: only the labelled case is required to be free of sharing)
        sh = [f for f in snap.get("shared_opd", []) if f in ("mat", "location", "scale") or (f == "taxa" and exp.taxa is not None) or (f == "taxa_grp" and exp.grp is not None)]
        if sh: bad.append("%s: the result shares %s with an operand" % (tag, "/".join(sh)))
        if snap.get("opd_unchanged") is False: bad.append("%s: the operation modified its operand" % tag)
        if snap.get("grouped") is False: bad.append("%s: is_grouped_taxa() is wrong after group_taxa()/ungroup_taxa()" % tag)
        if ne is None:
            bad.append("%s: succeeded although taxa_grp is missing for some taxa" % tag); ne = None
        if snap["cls"] != CLS[cls][1]: bad.append("%s: result class %s" % (tag, snap["cls"]))
        if ne is not None:
            if e[0] == "either": ne.taxa = ne.grp = "undef"
            nb = len(bad)
            std = std or op["op"] not in KEEPS
            _check_state(tag, ne, snap, t, False, bad, standardised=std)
            failed = len(bad) > nb
        else: failed = True
        if failed or e[0] == "either":
            # resynchronise on the implementation's own state so that later steps are judged on their own
            try:
                rows = [[_fr(h) for h in r] for r in snap["unscale"]]
                exp = _Exp(rows, snap["taxa"], snap["grp"], exact=False)
            except OverflowError:
                break
        else:
            exp = ne
    if out.get("left_behind_changed"):
        bad.append("matrices left behind at step(s) %s (the source of a copy / of a copy-on-manipulation routine) were changed by later operations on the result" % out["left_behind_changed"])
    return bad

def _pred_scaled(case, out):
    bad = []
    t = case["t"]
    steps = out["steps"]
    if "exc" in steps[0]: return ["constructor raised %s" % steps[0]["exc"]]
    def rd(s): return [[_fr(h) for h in r] for r in s["mat"]], [_fr(h) for h in s["loc"]], [_fr(h) for h in s["scale"]]
    def closem(a, b):
        return len(a) == len(b) and all(len(x) == len(y) and all(_close(p, q) for p, q in zip(x, y)) for x, y in zip(a, b))
    try:
        mat, loc, sc = rd(steps[0])
        L = case["loc"] if isinstance(case["loc"], list) else [case["loc"]] * t
        S = case["sc"] if isinstance(case["sc"], list) else [case["sc"]] * t
        if loc != [Fraction(x) for x in L] or sc != [Fraction(x) for x in S]: bad.append("constructor: location/scale not stored as given")
        if mat != [[_F(v) for v in r] for r in case["raw"]]: bad.append("constructor: matrix not stored as given")
        for k, op in enumerate(case["ops"], 1):
            s = steps[k]; tag = "step %d op=%s" % (k, op["op"])
            if "exc" in s: bad.append("%s: raised %s" % (tag, s["exc"])); continue
            ret = [[_fr(h) for h in r] for r in s["ret"]]
            nmat, nloc, nsc = rd(s)
            if op["op"] == "copy":
                if (nmat, nloc, nsc) != (mat, loc, sc): bad.append("%s: the copy differs from the original" % tag)
                if not s["cls_ok"]: bad.append("%s: the copy has another class" % tag)
                if s["shared_src"]: bad.append("%s: the copy shares %s with the original" % (tag, "/".join(s["shared_src"])))
                continue
            def up(v, j): return None if v is None or sc[j] is None or loc[j] is None else v * sc[j] + loc[j]
            def dn(v, j): return None if v is None or sc[j] is None or loc[j] is None else (v - loc[j]) / sc[j]
            raw = [[up(v, j) for j, v in enumerate(r)] for r in mat]
            if op["op"] in ("transform", "untransform"):
                m = [[_F(v) for v in r] for r in op["m"]]
                if op["op"] == "transform": want = [[dn(v, j) for j, v in enumerate(r)] for r in m]
                else: want = [[up(v, j) for j, v in enumerate(r)] for r in m]
                if not closem(ret, want): bad.append("%s: wrong values" % tag)
                if op["copy"] and not s["arg_unchanged"]: bad.append("%s: copy=True modified the argument" % tag)
                if op["copy"] and s["ret_is_arg"]: bad.append("%s: copy=True returned the argument" % tag)
                if not op["copy"] and not s["ret_is_arg"]: bad.append("%s: copy=False did not work in place" % tag)
                if (nmat, nloc, nsc) != (mat, loc, sc): bad.append("%s: changed the matrix state" % tag)
            elif op["op"] == "unscale":
                if not closem(ret, raw): bad.append("%s: returned values are not scale*mat+location" % tag)
                if op["inplace"]:
                    if not s["ret_is_mat"]: bad.append("%s: inplace=True did not return the stored matrix" % tag)
                    if nloc != [0] * t or nsc != [1] * t: bad.append("%s: location/scale not reset to 0/1: raw values changed" % tag)
                    if not closem(nmat, raw): bad.append("%s: stored matrix is not the unscaled matrix" % tag)
                elif (nmat, nloc, nsc) != (mat, loc, sc) or s["ret_is_mat"]: bad.append("%s: inplace=False changed the matrix state" % tag)
            else:   # rescale
                wl, ws, want = [], [], [[None] * t for _ in raw]
                for j in range(t):
                    vals = [r[j] for r in raw if r[j] is not None]
                    if not vals: wl.append(None); ws.append(None); continue
                    mean = sum(vals) / len(vals); var = sum((v - mean) ** 2 for v in vals) / len(vals)
                    wl.append(mean); ws.append(var)
                for j in range(t):
                    # the new raw values must equal the old raw values: ret*newscale+newloc, judged through the returned matrix
                    pass
                if op["inplace"]:
                    if not s["ret_is_mat"]: bad.append("%s: inplace=True did not return the stored matrix" % tag)
                    nraw = [[None if v is None or nsc[j] is None or nloc[j] is None else v * nsc[j] + nloc[j] for j, v in enumerate(r)] for r in nmat]
                    if not closem(nraw, raw): bad.append("%s: raw values (scale*mat+location) changed by rescale" % tag)
                    for j in range(t):
                        if wl[j] is None:
                            if nloc[j] is not None or nsc[j] is not None: bad.append("%s: trait %d without observations has non-NaN parameters" % (tag, j))
                            continue
                        if not _close(nloc[j], wl[j]): bad.append("%s: new location of trait %d is not the mean of the raw values" % (tag, j))
                        if ws[j] <= Fraction(1, 2 ** 60):
                            if nsc[j] != 1 and not (nsc[j] is not None and 0 < nsc[j] < TOL): bad.append("%s: constant trait %d rescaled with scale %s" % (tag, j, nsc[j]))
                        elif nsc[j] is None or nsc[j] <= 0 or not _close(nsc[j] * nsc[j], ws[j]): bad.append("%s: new scale of trait %d is not the standard deviation" % (tag, j))
                else:
                    if (nmat, nloc, nsc) != (mat, loc, sc) or s["ret_is_mat"]: bad.append("%s: inplace=False changed the matrix state" % tag)
                    for j in range(t):
                        rv = [r[j] for r in ret if r[j] is not None]
                        if wl[j] is None or not rv: continue
                        rm = sum(rv) / len(rv)
                        if not _close(rm, Fraction(0)): bad.append("%s: returned trait %d is not centred" % (tag, j))
                        if ws[j] > Fraction(1, 2 ** 60) and not _close(sum((v - rm) ** 2 for v in rv) / len(rv), Fraction(1)): bad.append("%s: returned trait %d does not have unit variance" % (tag, j))
                if [[v is None for v in r] for r in ret] != [[v is None for v in r] for r in raw]: bad.append("%s: missing-value pattern changed" % tag)
            mat, loc, sc = nmat, nloc, nsc
    except OverflowError:
        bad.append("infinite value produced")
    if out.get("left_behind_changed"):
        bad.append("the original of the copy made at step(s) %s was changed by later in-place operations on the copy" % out["left_behind_changed"])
    return bad

def _clause_id(cl):
    if "[const-rounding]" in cl: return "C15-constant-rounding"
    return None

def pred(case, out):
    """the property, stated directly on the implementation's outputs (independent of the Coq model)"""
    if "exc" in out:
        return ["implementation raised %s: %s" % (out["exc"], out["msg"])]
    bad = _pred_bv(case, out) if case["kind"] == "bv" else _pred_scaled(case, out)
    seen = []
    for b in bad:
        if b not in seen: seen.append(b)
    seen.sort(key=lambda c: _clause_id(c) is not None)          # unexplained clauses first
    return seen[:10]

def classify(case, out, clauses):
    if not clauses or case["kind"] != "bv": return None
    ids = [_clause_id(c) for c in clauses]
    if any(i is None for i in ids): return None
    return ids[0]

def nontrivial(case, out):
    if case["kind"] != "bv": return len(case["ops"]) >= 2 and len(case["raw"]) >= 2
    if len(case["ops"]) < 2 or "steps" not in out: return False
    changed = False
    a = out["steps"][0]
    if "exc" in a: return False
    for b in out["steps"][1:]:
        if "exc" in b: continue                                   # a failing operation leaves the matrix as it was
        if b["unscale"] != a["unscale"] and len({tuple(r) for r in a["unscale"]}) >= 2: changed = True
        a = b
    return changed

def describe(case, out):
    if case["kind"] != "bv":
        return {"kind": "scaled", "ops": "+".join(sorted({o["op"] for o in case["ops"]}))}
    n = len(case["raw"])
    cols = list(zip(*case["raw"])) if n else []
    nerr = sum(1 for s in out.get("steps", []) if "exc" in s)
    return {"kind": "bv", "cls": case["cls"], "n": "0" if n == 0 else "1" if n == 1 else "2" if n == 2 else "3-8" if n <= 8 else "9-20" if n <= 20 else ">127", "t": case["t"],
            "nops": len(case["ops"]), "nan": any(v is None for r in case["raw"] for v in r),
            "const_col": any(len(set(c)) == 1 for c in cols), "offset": any(v is not None and abs(v) > 2 ** 19 for r in case["raw"] for v in r),
            "tiny": any(v is not None and 0 < abs(v) < 2.0 ** -20 for r in case["raw"] for v in r),
            "lifecycle": "+".join(sorted({o["op"] for o in case["ops"] if o["op"] in ("copy", "reorder", "sort")})) or "none",
            "routed": any("via" in o for o in case["ops"]),
            "labels": ("t" if case["taxa"] is not None else "-") + ("g" if case["grp"] is not None else "-"), "errors": min(nerr, 2),
            "direct": bool(case.get("direct")), "cross": case.get("cross", "random/fixed").split("/")[0], "inplace_or_concat": "+".join(sorted({o["op"] for o in case["ops"] if o["op"] in INPLACE + ("concat",)})) or "none"}

def shrink(case, fails0):
    """drop operations from the end, then single operations, while the case still fails for a reason that is not a known finding"""
    def fails(c):
        try: o = run_impl(c)
        except BaseException as e: o = {"exc": type(e).__name__, "msg": str(e)[:300]}
        cl = pred(c, o)
        return bool(cl) and classify(c, o, cl) is None
    cur = copy.deepcopy(case)
    if not fails(cur): return cur
    while cur["ops"]:
        t_ = copy.deepcopy(cur); t_["ops"] = t_["ops"][:-1]
        if fails(t_): cur = t_
        else: break
    i = 0
    while i < len(cur["ops"]) - 1:
        t_ = copy.deepcopy(cur); del t_["ops"][i]
        if fails(t_): cur = t_
        else: i += 1
    return cur

# ------------------------------------------------------------------ Coq emission
def _oq(v):
    """float / Fraction / None -> option Q literal"""
    return "None" if v is None else "(Some %s)" % E.q(Fraction(v))
def _oqh(h): return _oq(_fr(h))
def _T(rows, t):
    """row-major -> column-major (t columns even when there is no row)"""
    return [[r[j] for r in rows] for j in range(t)]
def _colsf(rows, t): return E.lst2(_T(rows, t), _oq)
def _colsh(rows, t): return E.lst2(_T(rows, t), _oqh)
def _lab(l): return E.opt(l, lambda x: E.lst([-1 if v is None else v for v in x], E.z))
def _prm(loc, sc): return E.lst(list(zip(loc, sc)), lambda p: "(%s, %s)" % (_oqh(p[0]), _oqh(p[1])))
def _idx(o): return "(IInt %s)" % E.z(o) if isinstance(o, int) else "(IList %s)" % E.lst(o, E.z)

def _stat(v):
    return "None" if isinstance(v, dict) else "(Some %s)" % E.lst(v, _oqh)
def _snap(s, t):
    st = s["stats"]
    parts = [_colsh(s["mat"], t), E.lst(s["loc"], _oqh), E.lst(s["scale"], _oqh), _colsh(s["unscale"], t), _lab(s["taxa"]), _lab(s["grp"]), E.nat(s["shape"][0])]
    for k in ("tmax", "tmin", "tmean", "trange", "tstd", "tvar"):
        for u in (0, 1): parts.append(_stat(st["%s%d" % (k, u)]))
    for k in ("targmax", "targmin"):
        parts.append("None" if isinstance(st[k], dict) else "(Some %s)" % E.lst(st[k], E.z))
    return "(mksnap %s)" % "\n      ".join(parts)
def _obs(s, t):
    return "ObsErr" if "exc" in s else "(ObsOk %s)" % _snap(s, t)

def _opd(op, rec, t, cls):
    if op["as"] == "nd": bvp = "None"
    else:
        if "vparams" not in rec: raise ValueError("operand matrix could not be built")
        bvp = "(Some %s)" % _prm(rec["vparams"]["loc"], rec["vparams"]["scale"])
    return "(mkopd %s %s %s %s %s %s %s %s)" % (_colsf(op["vals"], t), E.nat(len(op["vals"])), bvp, E.b(_inst(op["as"], cls)),
                                                 _lab(op.get("vtaxa")), _lab(op.get("vgrp")), _lab(op["ataxa"]), _lab(op["agrp"]))

def _emit_bv(case, out):
    t = case["t"]; cls = case["cls"]; steps = out["steps"]
    r0 = "(mkraw %s %s %s %s)" % (_colsf(case["raw"], t), E.nat(len(case["raw"])), _lab(case["taxa"]), _lab(case["grp"]))
    d = case.get("direct")
    if "exc" in steps[0]: return "false" if d else "(case_check %s [] ObsErr [])" % r0
    items = []
    ncur = steps[0]["shape"][0]; cur_taxa, cur_grp = steps[0]["taxa"], steps[0]["grp"]
    std = not d
    for op, rec in zip(case["ops"], steps[1:]):
        nm = op["op"]
        pm = None
        if nm in KEEPS and not std:
            break       # location / scale given to the constructor are kept: the model (which re-standardises) does not describe this step
        if "exc" not in rec and nm not in KEEPS: std = True
        if nm == "reorder": pm = _perm(op["key"], ncur)              # reorder_taxa(perm) = select_taxa(perm) in place
        elif nm == "copy": pm = list(range(ncur))                   # a copy = the identity selection
        elif nm == "sort":
            pm = _sort_perm(cur_taxa, cur_grp)                      # sort_taxa()/group_taxa() = reorder by (taxa_grp, taxa), stable
            if pm == "unspec": break
            if pm is None:
                if "exc" in rec: continue                           # no key at all: ValueError, nothing changed
                return "false"
        ncur0 = ncur
        if nm in ("insert", "incorp") and isinstance(op["obj"], list) and any(not (-ncur <= i <= ncur) for i in op["obj"]):
            break                   # numpy.insert with an unvalidated index list: not modelled, the history is compared up to here
        if "exc" not in rec: ncur = rec["shape"][0]; cur_taxa, cur_grp = rec["taxa"], rec["grp"]
        if pm is not None: o = "(OSelect %s)" % E.lst(pm, E.z)
        elif nm == "select": o = "(OSelect %s)" % E.lst(op["ix"], E.z)
        elif nm == "delete": o = "(ODelete %s)" % _idx(_obj_list(op["obj"], ncur0))
        elif nm == "remove": o = "(ORemove %s)" % _idx(_obj_list(op["obj"], ncur0))
        elif nm == "insert": o = "(OInsert %s %s)" % (_idx(op["obj"]), _opd(op, rec, t, cls))
        elif nm == "incorp": o = "(OIncorp %s %s)" % (_idx(op["obj"]), _opd(op, rec, t, cls))
        elif nm == "adjoin": o = "(OAdjoin %s)" % _opd(op, rec, t, cls)
        elif nm == "append": o = "(OAppend %s)" % _opd(op, rec, t, cls)
        else:
            if "oparams" not in rec: raise ValueError("concat operands could not be built")
            ps = ["(mkpart %s %s %s %s %s)" % (_colsf(q["raw"], t), E.nat(len(q["raw"])), _prm(pp["loc"], pp["scale"]), _lab(q["taxa"]), _lab(q["grp"]))
                  for q, pp in zip(op["others"], rec["oparams"])]
            all_inst = all(_inst(q["cls"], cls) for q in op["others"])
            o = "(OConcat %s %s %s)" % (E.b(all_inst), E.lst(ps[:op["self_pos"]], str), E.lst(ps[op["self_pos"]:], str))
        # a failing step has no parameters to give: dummies of the right length, so that the model can only fail for the source's reasons
        prm = E.lst(["(None, None)"] * t, str) if "exc" in rec else _prm(rec["loc"], rec["scale"])
        items.append("(%s,\n    %s,\n    %s)" % (o, prm, _obs(rec, t)))
    if d:
        cols = _T(case["raw"], t)
        b0 = "(mkbv %s %s %s %s)" % (E.lst(list(range(t)), lambda j: "(mkcol %s %s %s)" % (E.lst(cols[j], _oq), _oq(d["loc"][j]), _oq(d["sc"][j]))),
                                      E.nat(len(case["raw"])), _lab(case["taxa"]), _lab(case["grp"]))
        return "(case_check_direct %s\n  %s\n  [%s])" % (b0, _obs(steps[0], t), ";\n   ".join(items))
    return "(case_check %s\n  %s\n  %s\n  [%s])" % (r0, _prm(steps[0]["loc"], steps[0]["scale"]), _obs(steps[0], t), ";\n   ".join(items))

def _emit_scaled(case, out):
    t = case["t"]; steps = out["steps"]
    if any("exc" in s for s in steps): return "false"
    L = case["loc"] if isinstance(case["loc"], list) else [case["loc"]] * t
    S = case["sc"] if isinstance(case["sc"], list) else [case["sc"]] * t
    cols = _T(case["raw"], t)
    init = E.lst(list(range(t)), lambda j: "(mkcol %s %s %s)" % (E.lst(cols[j], _oq), _oq(L[j]), _oq(S[j])))
    items = []
    for k, op in enumerate(case["ops"], 1):
        prev, s = steps[k - 1], steps[k]
        if op["op"] == "copy": o = "(STransform %s)" % _colsf([], t)        # a copy: the state is unchanged (a transform of zero rows)
        elif op["op"] == "transform": o = "(STransform %s)" % _colsf(op["m"], t)
        elif op["op"] == "untransform": o = "(SUntransform %s)" % _colsf(op["m"], t)
        elif op["op"] == "unscale": o = "(SUnscale %s)" % E.b(op["inplace"])
        else:
            if op["inplace"]: prm = _prm(s["loc"], s["scale"])
            else:
                # the new parameters are not observable: supply the correctly rounded mean / standard deviation of the previous
                # state's raw values; Coq checks them against the exact nanmean / nanvar like any other given parameter
                mat = [[_fr(h) for h in r] for r in prev["mat"]]; loc = [_fr(h) for h in prev["loc"]]; sc = [_fr(h) for h in prev["scale"]]
                ps = []
                for j in range(t):
                    vals = [r[j] * sc[j] + loc[j] for r in mat if r[j] is not None and sc[j] is not None and loc[j] is not None]
                    if not vals: ps.append((None, None)); continue
                    mean = sum(vals) / len(vals); var = sum((v - mean) ** 2 for v in vals) / len(vals)
                    ps.append((float(mean), 1.0 if var == 0 else math.sqrt(float(var))))
                prm = E.lst(ps, lambda p: "(%s, %s)" % (_oq(p[0]), _oq(p[1])))
            o = "(SRescale %s %s)" % (E.b(op["inplace"]), prm)
        nr = len(s["ret"])
        items.append("(%s, (%s, (%s, (%s, %s))))" % (o, _colsh(s["ret"], t), _colsh(s["mat"], t), E.lst(s["loc"], _oqh), E.lst(s["scale"], _oqh)))
    return "(srun_check %s\n  [%s])" % (init, ";\n   ".join(items))

def emit_case(case, out):
    if "exc" in out: return "false"
    if case.get("nocoq"): return None               # part of the systematic cross: judged by the predicate only
    return _emit_bv(case, out) if case["kind"] == "bv" else _emit_scaled(case, out)

# ------------------------------------------------------------------ entry points of the anchored modules (fail closed)
_BVF = "pybrops/popgen/bvmat/DenseBreedingValueMatrix.py"
_SMF = "pybrops/core/mat/DenseScaledMatrix.py"
_C16 = "file / data-frame conversion: property C16 (saving, loading and copying reproduce objects exactly)"
# file -> class -> {method: parameters}: every one is driven by run_impl with these parameters
COVERED = {
    _BVF: {"DenseBreedingValueMatrix": {
        "__init__": ["self", "mat", "location", "scale", "taxa", "taxa_grp", "trait", "**kwargs"],      # `direct` cases and every from_numpy
        "__copy__": ["self"], "__deepcopy__": ["self", "memo"], "copy": ["self"], "deepcopy": ["self", "memo"],      # op copy
        "mat": ["self", "value"], "location": ["self", "value"], "scale": ["self", "value"],                          # op copy, how = setters (+ getters everywhere)
        "adjoin_taxa": ["self", "values", "taxa", "taxa_grp", "**kwargs"], "delete_taxa": ["self", "obj", "**kwargs"],
        "insert_taxa": ["self", "obj", "values", "taxa", "taxa_grp", "**kwargs"], "select_taxa": ["self", "indices", "**kwargs"],
        "_restandardize": ["self", "mat"], "_manipulate_unscaled": ["self", "method", "**kwargs"],
        "append_taxa": ["self", "values", "taxa", "taxa_grp", "**kwargs"], "remove_taxa": ["self", "obj", "**kwargs"],
        "incorp_taxa": ["self", "obj", "values", "taxa", "taxa_grp", "**kwargs"],
        "targmax": ["self"], "targmin": ["self"], "tmax": ["self", "unscale"], "tmean": ["self", "unscale"], "tmin": ["self", "unscale"],
        "trange": ["self", "unscale"], "tstd": ["self", "unscale"], "tvar": ["self", "unscale"], "unscale": ["self"],
        "concat_taxa": ["cls", "mats", "**kwargs"], "from_numpy": ["cls", "mat", "taxa", "taxa_grp", "trait", "**kwargs"]}},
    "pybrops/popgen/bvmat/DenseEstimatedBreedingValueMatrix.py": {"DenseEstimatedBreedingValueMatrix": {
        "__init__": ["self", "mat", "location", "scale", "taxa", "taxa_grp", "trait", "**kwargs"]}},
    "pybrops/popgen/bvmat/DenseGenomicEstimatedBreedingValueMatrix.py": {"DenseGenomicEstimatedBreedingValueMatrix": {
        "__init__": ["self", "mat", "location", "scale", "taxa", "taxa_grp", "trait", "**kwargs"]}},
    _SMF: {"DenseScaledMatrix": {
        "__init__": ["self", "mat", "location", "scale", "**kwargs"], "__copy__": ["self"], "__deepcopy__": ["self", "memo"],
        "copy": ["self"], "deepcopy": ["self", "memo"], "location": ["self", "value"], "scale": ["self", "value"],
        "transform": ["self", "mat", "copy"], "untransform": ["self", "mat", "copy"], "rescale": ["self", "inplace"], "unscale": ["self", "inplace"]}},
}
SKIPPED = {
    _BVF: {"DenseBreedingValueMatrix.__repr__": "textual representation, no values",
           "DenseBreedingValueMatrix.to_pandas": _C16, "DenseBreedingValueMatrix.to_csv": _C16, "DenseBreedingValueMatrix.to_hdf5": _C16,
           "DenseBreedingValueMatrix.from_pandas": _C16, "DenseBreedingValueMatrix.from_csv": _C16, "DenseBreedingValueMatrix.from_hdf5": _C16,
           "check_is_DenseBreedingValueMatrix": "type guard"},
    "pybrops/popgen/bvmat/DenseEstimatedBreedingValueMatrix.py": {"check_is_DenseEstimatedBreedingValueMatrix": "type guard"},
    "pybrops/popgen/bvmat/DenseGenomicEstimatedBreedingValueMatrix.py": {"check_is_DenseGenomicEstimatedBreedingValueMatrix": "type guard"},
    _SMF: {"check_is_DenseScaledMatrix": "type guard"},
}
# public routines a breeding-value matrix INHERITS (run-time introspection): driven, or skipped with a reason
_TRAIT = ("trait-axis routine inherited from DenseTaxaTraitMatrix/DenseTraitMatrix: not a taxa-axis operation (outside the property's quantifier); "
          "NB they are not overridden: the copy-on-manipulation ones rebuild the matrix with location 0 / scale 1 (TypeError in the two subclasses), "
          "the in-place ones leave location / scale with the old length or order")
INHERITED_COVERED = {"select", "delete", "insert", "adjoin", "append", "remove", "incorp", "concat",        # op[...]["via"]: generic dispatchers, taxa axis as 0 / -2
                     "reorder", "reorder_taxa", "sort", "sort_taxa", "lexsort_taxa", "group", "group_taxa", "ungroup_taxa", "is_grouped_taxa"}
INHERITED_SKIPPED = dict(
    {n: _TRAIT for n in ("adjoin_trait", "append_trait", "concat_trait", "delete_trait", "incorp_trait", "insert_trait", "remove_trait", "reorder_trait",
                         "select_trait", "sort_trait", "lexsort_trait")},
    **{"lexsort": "returns indices only (its taxa form lexsort_taxa is what sort_taxa / group_taxa call)", "ungroup": "dispatcher of ungroup_taxa (metadata only: property C03)",
       "is_grouped": "dispatcher of is_grouped_taxa (metadata only: property C03)"})

def _entry_points(repo):
    """every class, method and module-level function of the four anchored files is either driven by run_impl (COVERED, with exactly
    the parameters named there) or listed in SKIPPED with a reason; every public routine the breeding-value matrix inherits is
    classified likewise; anything new, re-parametrised or vanished fails the check until it is classified"""
    import ast, inspect
    from translate import pyexpr as P
    for rel, classes in COVERED.items():
        tree = P.parse_file(repo, rel)
        skip = SKIPPED.get(rel, {})
        seen = set()
        for n in tree.body:
            if isinstance(n, ast.FunctionDef):
                seen.add(n.name)
                if n.name not in skip: raise P.Untranslatable("%s: new function %s is neither driven by the C15 check nor listed in SKIPPED" % (rel, n.name))
            elif isinstance(n, ast.ClassDef):
                if n.name not in classes: raise P.Untranslatable("%s: new class %s is not classified" % (rel, n.name))
                cov = classes[n.name]
                for m in n.body:
                    if not isinstance(m, ast.FunctionDef): continue
                    q = "%s.%s" % (n.name, m.name); seen.add(q)
                    params = [a.arg for a in m.args.args] + [a.arg for a in m.args.kwonlyargs] + (["**" + m.args.kwarg.arg] if m.args.kwarg else [])
                    if m.args.vararg: params.append("*" + m.args.vararg.arg)
                    if m.name in cov:
                        getter = any(ast.unparse(d) == "property" for d in m.decorator_list)
                        if not getter and params != cov[m.name]:
                            raise P.Untranslatable("%s: %s now takes %s (the driver passes %s): extend the generators" % (rel, q, params, cov[m.name]))
                    elif q not in skip:
                        raise P.Untranslatable("%s: new method %s is neither driven by the C15 check nor listed in SKIPPED" % (rel, q))
                for name in cov:
                    if "%s.%s" % (n.name, name) not in seen: raise P.Untranslatable("%s: %s.%s has disappeared" % (rel, n.name, name))
                seen.add(n.name)
        for cname in classes:
            if cname not in seen: raise P.Untranslatable("%s: class %s has disappeared" % (rel, cname))
        for name in skip:
            if name not in seen: raise P.Untranslatable("%s: %s (listed in SKIPPED) has disappeared" % (rel, name))
    # inherited public routines (the source tree under test is the one imported: check.py verifies that)
    own = set(COVERED[_BVF]["DenseBreedingValueMatrix"]) | {k.split(".", 1)[1] for k in SKIPPED[_BVF] if "." in k}
    B = _cls("B")
    for name, member in inspect.getmembers(B):
        if name.startswith("_") or name in own: continue
        if isinstance(inspect.getattr_static(B, name), property): continue          # read-only views / label setters (labels: property C03)
        if not callable(member): continue
        if name not in INHERITED_COVERED and name not in INHERITED_SKIPPED:
            raise P.Untranslatable("DenseBreedingValueMatrix inherits a public routine %s that is neither driven by the C15 check nor listed in INHERITED_SKIPPED" % name)
    for name in list(INHERITED_COVERED) + list(INHERITED_SKIPPED):
        if not callable(getattr(B, name, None)): raise P.Untranslatable("DenseBreedingValueMatrix no longer has the inherited routine %s" % name)

# ------------------------------------------------------------------ kernel expressions regenerated from the source
def translate(repo, gen_dir):
    """regenerate Gen/C15_Kernel.v (standardisation, un-scaling rules, reductions, zero-scale rule, operand contributions,
    numpy call tables of the taxa routines, DenseScaledMatrix kernels) from the current source; fail closed"""
    from translate import c15_kernel
    _entry_points(repo)
    return [c15_kernel.translate(repo, gen_dir)]
